(* C08 - the argument threading of parse_args, separated from the frame
   machine: the result and the callback log of Model.parse_args expressed in terms
   of Model.bind and of the frame machine run on the leaves alone. *)
From SV Require Import Lib.Base C08.Model C08.Ghost.

(* the in_choice flags seen after each successful step *)
Fixpoint inch_run (extra : bool) (st : frame * list frame) (ls : list leaf) : list bool :=
  match ls with
  | [] => []
  | l :: ls' => match step extra st l with
                | Some st' => in_choice st' :: inch_run extra st' ls'
                | None => []
                end
  end.

Definition bound (b : list (nat * value)) (n : nat) : value :=
  match kw_get n b with Some v => v | None => None end.

(* ------------------------------------------------------------------ *)
(* association lists                                                   *)
(* ------------------------------------------------------------------ *)

Lemma kw_del_notin : forall n kw, kw_get n kw = None -> kw_del n kw = kw.
Proof.
  induction kw as [|[k v] kw IH]; simpl; intros H; [reflexivity|].
  destruct (Nat.eqb k n); [discriminate|]. rewrite IH; auto.
Qed.

Lemma kw_get_del_other : forall n m kw, n <> m -> kw_get n (kw_del m kw) = kw_get n kw.
Proof.
  induction kw as [|[k v] kw IH]; simpl; intros H; auto.
  destruct (Nat.eqb k m) eqn:E1.
  - apply Nat.eqb_eq in E1; subst.
    destruct (Nat.eqb m n) eqn:E2; [apply Nat.eqb_eq in E2; congruence | reflexivity].
  - simpl. destruct (Nat.eqb k n); auto.
Qed.

Lemma filter_notin : forall n (kw : list (nat * value)),
  mem n (map fst kw) = false -> filter (fun k => negb (Nat.eqb (fst k) n)) kw = kw.
Proof.
  induction kw as [|[k v] kw IH]; simpl; intros H; auto.
  apply orb_false_iff in H as [H1 H2]. rewrite H1. simpl. f_equal; auto.
Qed.

Lemma kw_del_filter : forall n kw, kw_distinct kw = true ->
  kw_del n kw = filter (fun k => negb (Nat.eqb (fst k) n)) kw.
Proof.
  unfold kw_distinct. induction kw as [|[k v] kw IH]; simpl; intros H; auto.
  apply andb_true_iff in H as [H1 H2]. destruct (Nat.eqb k n) eqn:E; simpl.
  - apply Nat.eqb_eq in E; subst. symmetry. apply filter_notin.
    apply negb_true_iff in H1. exact H1.
  - f_equal; auto.
Qed.

Lemma mem_filter_keys : forall (f : nat * value -> bool) n kw,
  mem n (map fst (filter f kw)) = true -> mem n (map fst kw) = true.
Proof.
  induction kw as [|[k v] kw IH]; simpl; auto.
  destruct (f (k, v)); simpl; intros H.
  - apply orb_true_iff in H as [H|H]; apply orb_true_iff; auto.
  - apply orb_true_iff; auto.
Qed.

Lemma distinct_filter : forall (f : nat * value -> bool) kw,
  kw_distinct kw = true -> kw_distinct (filter f kw) = true.
Proof.
  unfold kw_distinct. induction kw as [|[k v] kw IH]; simpl; auto.
  intros H. apply andb_true_iff in H as [H1 H2].
  destruct (f (k, v)); simpl; auto.
  apply andb_true_iff; split; auto.
  apply negb_true_iff. apply negb_true_iff in H1.
  destruct (mem k (map fst (filter f kw))) eqn:E; auto.
  apply mem_filter_keys in E. congruence.
Qed.

Lemma filter_filter : forall (A : Type) (f g : A -> bool) l,
  filter f (filter g l) = filter (fun x => g x && f x) l.
Proof.
  induction l as [|x l IH]; simpl; auto.
  destruct (g x); simpl; [destruct (f x)|]; rewrite IH; auto.
Qed.

Lemma filter_true : forall (A : Type) (l : list A), filter (fun _ => true) l = l.
Proof. induction l; simpl; congruence. Qed.

Lemma filter_head : forall (A : Type) (f : A -> bool) l x r, filter f l = x :: r -> f x = true.
Proof.
  intros A f l x r H.
  assert (I : In x (filter f l)) by (rewrite H; left; reflexivity).
  apply filter_In in I. tauto.
Qed.

(* ------------------------------------------------------------------ *)
(* the argument threading alone                                        *)
(* ------------------------------------------------------------------ *)

Fixpoint t_vals (ns : list nat) (args : list value) (kw : list (nat * value)) : list value :=
  match ns with
  | [] => []
  | n :: ns' =>
      match args with
      | v :: args' => v :: t_vals ns' args' kw
      | [] => match kw_get n kw with
              | Some v => v :: t_vals ns' [] (kw_del n kw)
              | None => None :: t_vals ns' [] kw
              end
      end
  end.

Fixpoint t_kw (ns : list nat) (args : list value) (kw : list (nat * value)) : list (nat * value) :=
  match ns with
  | [] => kw
  | n :: ns' =>
      match args with
      | _ :: args' => t_kw ns' args' kw
      | [] => match kw_get n kw with
              | Some _ => t_kw ns' [] (kw_del n kw)
              | None => t_kw ns' [] kw
              end
      end
  end.

Fixpoint t_pwa (ns : list nat) (args : list value) (kw : list (nat * value)) (pwa : list nat)
  : list nat :=
  match ns with
  | [] => pwa
  | n :: ns' =>
      match args with
      | _ :: args' => t_pwa ns' args' kw (n :: pwa)
      | [] => match kw_get n kw with
              | Some _ => t_pwa ns' [] (kw_del n kw) (n :: pwa)
              | None => t_pwa ns' [] kw pwa
              end
      end
  end.

Definition pvleaf (pv : param * value) : leaf :=
  mkL (popt (fst pv)) (is_some (snd pv)) (panc (fst pv)).

Definition pvcall (x : (param * value) * bool) : call :=
  (pname (fst (fst x)), snd x, snd (fst x)).

(* the frame machine with the callback log, on (definition, value) pairs *)
Fixpoint runlog (extra : bool) (st : frame * list frame) (lg : list call)
  (pvs : list (param * value)) : (frame * list frame) * list call + list call :=
  match pvs with
  | [] => inl (st, lg)
  | pv :: r =>
      match step extra st (pvleaf pv) with
      | None => inr lg
      | Some st' => runlog extra st' (lg ++ [(pname (fst pv), in_choice st', snd pv)]) r
      end
  end.

Lemma pp_thread : forall extra ps s,
  process_parameters extra s ps =
    match runlog extra (s_st s) (s_log s)
            (combine ps (t_vals (map pname ps) (s_args s) (s_kw s))) with
    | inl (st, lg) =>
        inl (mkS (skipn (length ps) (s_args s))
                 (t_kw (map pname ps) (s_args s) (s_kw s))
                 (t_pwa (map pname ps) (s_args s) (s_kw s) (s_pwa s)) st lg)
    | inr lg => inr lg
    end.
Proof.
  induction ps as [|p ps IH]; intros s.
  - destruct s; reflexivity.
  - destruct s as [a k w st lg]. simpl.
    unfold process_parameter, get_param_value. simpl.
    destruct a as [|v a].
    + destruct (kw_get (pname p) k) as [v|] eqn:E; simpl; unfold pvleaf; simpl;
        destruct (step extra st _) as [st'|]; try reflexivity;
        rewrite IH; simpl; rewrite skipn_nil; reflexivity.
    + simpl; unfold pvleaf; simpl.
      destruct (step extra st _) as [st'|]; try reflexivity.
      rewrite IH; reflexivity.
Qed.

Lemma runlog_run : forall extra pvs st lg,
  runlog extra st lg pvs =
    match run extra st (map pvleaf pvs) with
    | Some st' =>
        inl (st', lg ++ map pvcall (combine pvs (inch_run extra st (map pvleaf pvs))))
    | None => inr (lg ++ map pvcall (combine pvs (inch_run extra st (map pvleaf pvs))))
    end.
Proof.
  induction pvs as [|pv pvs IH]; intros st lg; simpl.
  - rewrite app_nil_r. reflexivity.
  - destruct (step extra st (pvleaf pv)) as [st'|]; simpl.
    + rewrite IH. rewrite <- !app_assoc. reflexivity.
    + rewrite app_nil_r. reflexivity.
Qed.

(* ------------------------------------------------------------------ *)
(* the threaded values are the values of Model.bind                    *)
(* ------------------------------------------------------------------ *)

Lemma mem_cons_false : forall n k l, mem n (k :: l) = false -> k <> n /\ mem n l = false.
Proof.
  simpl; intros n k l H. apply orb_false_iff in H as [H1 H2].
  apply Nat.eqb_neq in H1. auto.
Qed.

Lemma t_vals_nil : forall ns kw2 kw, nodup ns = true ->
  (forall n, mem n ns = true -> kw_get n kw2 = kw_get n kw) ->
  t_vals ns [] kw2 = map snd (bind ns [] kw).
Proof.
  induction ns as [|n ns IH]; intros kw2 kw D H; simpl; auto.
  simpl in D. apply andb_true_iff in D as [D1 D2]. apply negb_true_iff in D1.
  assert (Hn : kw_get n kw2 = kw_get n kw).
  { apply H. simpl. rewrite Nat.eqb_refl. reflexivity. }
  rewrite <- Hn.
  destruct (kw_get n kw2) as [v|]; simpl; f_equal; apply IH; auto.
  - intros m Hm. rewrite kw_get_del_other.
    + apply H. simpl. rewrite Hm. apply orb_true_r.
    + intros ->. congruence.
  - intros m Hm. apply H. simpl. rewrite Hm. apply orb_true_r.
Qed.

Lemma t_vals_bind : forall ns args kw, nodup ns = true ->
  t_vals ns args kw = map snd (bind ns args kw).
Proof.
  induction ns as [|n ns IH]; intros args kw D; simpl; auto.
  destruct args as [|v args].
  - change (t_vals (n :: ns) [] kw = map snd (bind (n :: ns) [] kw)).
    apply t_vals_nil; auto.
  - simpl. f_equal. apply IH. simpl in D. apply andb_true_iff in D. tauto.
Qed.

Lemma bind_keys : forall ns args kw, map fst (bind ns args kw) = ns.
Proof.
  induction ns as [|n ns IH]; intros args kw; simpl; auto.
  destruct args; simpl; f_equal; auto.
Qed.

Lemma mem_In : forall n l, mem n l = true <-> In n l.
Proof.
  induction l as [|k l IH]; simpl.
  - split; [discriminate | tauto].
  - rewrite orb_true_iff, Nat.eqb_eq, IH. tauto.
Qed.

Lemma kw_get_In : forall b k v, nodup (map fst b) = true -> In (k, v) b -> kw_get k b = Some v.
Proof.
  induction b as [|[k0 v0] b IH]; simpl; intros k v D H; [tauto|].
  apply andb_true_iff in D as [D1 D2]. apply negb_true_iff in D1.
  destruct H as [H|H].
  - inversion H; subst. rewrite Nat.eqb_refl. reflexivity.
  - destruct (Nat.eqb k0 k) eqn:E.
    + apply Nat.eqb_eq in E; subst.
      assert (M : mem k (map fst b) = true).
      { apply mem_In. apply in_map_iff. exists (k, v). auto. }
      congruence.
    + apply IH; auto.
Qed.

Lemma combine_vals : forall ps b (f : nat -> value),
  map pname ps = map fst b -> (forall k v, In (k, v) b -> f k = v) ->
  combine ps (map snd b) = map (fun p => (p, f (pname p))) ps.
Proof.
  induction ps as [|p ps IH]; intros b f E H; simpl; auto.
  destruct b as [|[k v] b]; simpl in E; [discriminate|].
  inversion E; subst. simpl. f_equal.
  - f_equal. symmetry. apply H. left. reflexivity.
  - apply IH; auto. intros k' v' I. apply H. right. exact I.
Qed.

Lemma combine_bind : forall ps args kw, nodup (map pname ps) = true ->
  combine ps (t_vals (map pname ps) args kw) =
    map (fun p => (p, bound (bind (map pname ps) args kw) (pname p))) ps.
Proof.
  intros ps args kw D. rewrite t_vals_bind by exact D.
  apply combine_vals.
  - symmetry. apply bind_keys.
  - intros k v I. unfold bound. rewrite (kw_get_In _ k v); auto.
    rewrite bind_keys. exact D.
Qed.

Lemma has_value_bound : forall b n, has_value b n = is_some (bound b n).
Proof.
  intros b n. unfold has_value, bound. destruct (kw_get n b) as [[v|]|]; reflexivity.
Qed.

Lemma leaves_bind : forall b ps,
  map pvleaf (map (fun p => (p, bound b (pname p))) ps) = map (leaf_of (has_value b)) ps.
Proof.
  intros b ps. rewrite map_map. apply map_ext. intros p.
  unfold pvleaf, leaf_of. simpl. rewrite has_value_bound. reflexivity.
Qed.

Lemma combine_map_l : forall (A B C : Type) (g : A -> B) (l : list A) (l' : list C),
  combine (map g l) l' = map (fun x => (g (fst x), snd x)) (combine l l').
Proof.
  induction l as [|a l IH]; intros l'; simpl; auto.
  destruct l'; simpl; f_equal; auto.
Qed.

(* ------------------------------------------------------------------ *)
(* what is left when every definition took its value                   *)
(* ------------------------------------------------------------------ *)

Lemma t_kw_nil : forall ns kw, kw_distinct kw = true ->
  t_kw ns [] kw = filter (fun k => negb (mem (fst k) ns)) kw.
Proof.
  induction ns as [|n ns IH]; intros kw D; simpl.
  - rewrite filter_true. reflexivity.
  - assert (E : match kw_get n kw with
                | Some _ => t_kw ns [] (kw_del n kw)
                | None => t_kw ns [] kw
                end = t_kw ns [] (kw_del n kw)).
    { destruct (kw_get n kw) eqn:G; [reflexivity | rewrite kw_del_notin; auto]. }
    rewrite E. rewrite kw_del_filter by exact D.
    rewrite IH by (apply distinct_filter; exact D).
    rewrite filter_filter. apply filter_ext. intros k.
    rewrite negb_orb. rewrite (Nat.eqb_sym n (fst k)). reflexivity.
Qed.

Lemma t_kw_leftover : forall ns args kw, kw_distinct kw = true ->
  t_kw ns args kw = leftover_kw ns args kw.
Proof.
  induction ns as [|n ns IH]; intros args kw D.
  - unfold leftover_kw. simpl. rewrite skipn_nil. simpl. rewrite filter_true. reflexivity.
  - destruct args as [|v args].
    + unfold leftover_kw. simpl length. simpl skipn. apply t_kw_nil. exact D.
    + simpl. rewrite IH by exact D. reflexivity.
Qed.

Lemma t_pwa_mono : forall ns args kw pwa n,
  mem n pwa = true -> mem n (t_pwa ns args kw pwa) = true.
Proof.
  induction ns as [|a ns IH]; intros args kw pwa n H; simpl; auto.
  destruct args; [destruct (kw_get a kw)|]; apply IH; simpl; try rewrite H;
    auto using orb_true_r.
Qed.

Lemma t_pwa_first : forall ns args kw pwa n,
  mem n (firstn (length args) ns) = true -> mem n (t_pwa ns args kw pwa) = true.
Proof.
  induction ns as [|a ns IH]; intros args kw pwa n H.
  - destruct args; simpl in H; discriminate.
  - destruct args as [|v args]; simpl in H; [discriminate|].
    simpl. apply orb_true_iff in H as [H|H].
    + apply t_pwa_mono. simpl. rewrite H. reflexivity.
    + apply IH. exact H.
Qed.

Lemma t_pwa_upper : forall ns args kw pwa n,
  mem n (t_pwa ns args kw pwa) = true -> mem n pwa || mem n ns = true.
Proof.
  induction ns as [|a ns IH]; intros args kw pwa n H; simpl in *.
  - rewrite orb_false_r. exact H.
  - destruct args; [destruct (kw_get a kw)|]; apply IH in H; simpl in H;
      destruct (Nat.eqb a n), (mem n pwa), (mem n ns); auto.
Qed.

Lemma mem_app : forall n l1 l2, mem n (l1 ++ l2) = mem n l1 || mem n l2.
Proof.
  induction l1 as [|k l1 IH]; intros l2; simpl; auto.
  rewrite IH. apply orb_assoc.
Qed.

(* a name that is not a keyword-bound definition got an argument iff it is one
   of the positionally bound ones *)
Lemma t_pwa_leftover : forall ns args kw n,
  mem n (skipn (length args) ns) = false ->
  mem n (t_pwa ns args kw []) = mem n (firstn (length args) ns).
Proof.
  intros ns args kw n H.
  destruct (mem n (firstn (length args) ns)) eqn:F.
  - apply t_pwa_first. exact F.
  - destruct (mem n (t_pwa ns args kw [])) eqn:E; auto.
    apply t_pwa_upper in E. simpl in E.
    rewrite <- (firstn_skipn (length args) ns) in E.
    rewrite mem_app, F, H in E. discriminate.
Qed.

Lemma skipn_case : forall (A : Type) (R : Type) n (l : list A) (x y : R),
  match skipn n l with _ :: _ => x | [] => y end = if Nat.ltb n (length l) then x else y.
Proof.
  intros A R n l x y.
  assert (L : length (skipn n l) = length l - n) by apply skipn_length.
  destruct (skipn n l); simpl in L; destruct (Nat.ltb_spec n (length l)); auto; lia.
Qed.

(* ------------------------------------------------------------------ *)
(* parse_args                                                          *)
(* ------------------------------------------------------------------ *)

Lemma parse_args_res_l : forall (extra : bool) (ps : list param) (args : list value)
    (kw : list (nat * value)),
  nodup (map pname ps) = true -> kw_distinct kw = true ->
  fst (parse_args extra ps args kw) =
    match final extra (map (leaf_of (has_value (bind (map pname ps) args kw))) ps) with
    | None => RChoice
    | Some f' => verdict extra (map pname ps) args kw f'
    end.
Proof.
  intros extra ps args kw D K.
  unfold parse_args, final. rewrite pp_thread. simpl.
  rewrite runlog_run. rewrite combine_bind by exact D. rewrite leaves_bind.
  destruct (run extra (sentinel, []) _) as [[f above]|]; simpl; [|reflexivity].
  destruct (collapse extra f above) as [f'|]; simpl; [|reflexivity].
  unfold check_extra, verdict. simpl.
  destruct extra; [|reflexivity].
  rewrite t_kw_leftover by exact K.
  destruct (leftover_kw (map pname ps) args kw) as [|[n v] r] eqn:E.
  - rewrite skipn_case. rewrite map_length. reflexivity.
  - rewrite t_pwa_leftover; [reflexivity|].
    unfold leftover_kw in E. apply filter_head in E. simpl in E.
    apply negb_true_iff in E. exact E.
Qed.

Lemma parse_args_log_l : forall extra ps args kw,
  nodup (map pname ps) = true -> kw_distinct kw = true ->
  snd (parse_args extra ps args kw) =
    map (fun pi => (pname (fst pi), snd pi, bound (bind (map pname ps) args kw) (pname (fst pi))))
        (combine ps (inch_run extra (sentinel, [])
                       (map (leaf_of (has_value (bind (map pname ps) args kw))) ps))).
Proof.
  intros extra ps args kw D K.
  unfold parse_args. rewrite pp_thread. simpl.
  rewrite runlog_run. rewrite combine_bind by exact D. rewrite leaves_bind.
  rewrite combine_map_l. rewrite map_map. unfold pvcall. simpl.
  destruct (run extra (sentinel, []) _) as [[f above]|]; simpl; [|reflexivity].
  destruct (collapse extra f above) as [f'|]; reflexivity.
Qed.

Print Assumptions parse_args_res_l.
Print Assumptions parse_args_log_l.
