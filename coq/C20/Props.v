(* C20 -- Parsing never reaches outside the document.  Property theorems only. *)
From SV Require Import Lib.Base C20.Entities.

(* every place where suds parses XML obtains its parser from Parser.saxparser,
   which switches external general entities off whatever the library default *)
Theorem entry_points_flags_off : forall e lib_default, ges (entry_config e lib_default) = false.
Proof. intros [] ?; reflexivity. Qed.
Print Assumptions entry_points_flags_off.
