(* C20 -- Parsing never reaches outside the document.
   Property theorems only: each is closed by `exact` of a lemma proved in
   IoProofs / ContentProofs / FuelProofs and followed by Print Assumptions.

   Model: C20/Entities.v.  [read fuel cfg resolve doc] is the reader suds uses
   (expat's prolog / content / attribute-value rules, xml.sax.expatreader's
   external_entity_ref gate, suds' Handler) as a function of the document, the
   feature flags and the ORACLE [resolve] for everything outside the document;
   [io_log] is the list of system identifiers the oracle was asked for
   (= files opened / URLs fetched). *)
From SV Require Import Lib.Base C20.Entities C20.IoProofs C20.ContentProofs C20.FuelProofs.
From SV Require Import C20.Loader C20.LoaderProofs.

(* With external general entities off, NO document -- whatever its internal
   subset, external subset, general / parameter entity declarations, nesting
   depth and system identifiers -- makes the reader consult the outside. *)
Theorem no_external_io : forall fuel cfg resolve x,
  ges cfg = false -> io_log (read fuel cfg resolve x) = [].
Proof. exact read_quiet. Qed.
Print Assumptions no_external_io.

(* ... and the result (tree, error or not) is the same whatever is out there:
   in particular the same as in a world where nothing can be resolved. *)
Theorem oracle_independent : forall fuel cfg resolve x,
  ges cfg = false -> read fuel cfg resolve x = read fuel cfg (fun _ => None) x.
Proof. intros; apply read_oracle_independent; assumption. Qed.
Print Assumptions oracle_independent.

(* The funnel: every place where suds parses XML (Parser.parse string / file,
   client._parse for replies and injected messages, DocumentReader.__fetch,
   DocumentCache.get) obtains its parser from Parser.saxparser, which switches
   the feature off whatever the library default is and whatever the document
   is (its XML declaration -- standalone yes / no / absent -- included). *)
Theorem entry_points_flags_off : forall e lib_default x, ges (entry_config e lib_default x) = false.
Proof. exact entry_config_off. Qed.
Print Assumptions entry_points_flags_off.

(* The XML declaration has no say in what is read either: standalone="no" is
   the same document as no standalone pseudo-attribute, for every parser
   configuration and outside world. *)
Theorem standalone_no_is_absent : forall fuel cfg resolve ext subset body,
  read fuel cfg resolve (mkDoc SNo ext subset body) = read fuel cfg resolve (mkDoc SAbsent ext subset body).
Proof. exact read_standalone_no. Qed.
Print Assumptions standalone_no_is_absent.

(* Hence, through every suds entry point, for every library default, every
   outside world and every document: no outside access, and a result that
   does not depend on the outside world. *)
Theorem suds_no_external_io : forall e fuel lib_default resolve x,
  fst (entry_parse e fuel lib_default resolve x) = [] /\
  entry_parse e fuel lib_default resolve x = entry_parse e fuel lib_default (fun _ => None) x.
Proof. intros; split; [apply entry_quiet|apply entry_oracle_independent]. Qed.
Print Assumptions suds_no_external_io.

(* No external content in the result: every character of the tree (text and
   attribute values) comes from the document's own literals -- body text,
   attribute literals, internal entity values (also those declared inside
   parameter entities), attribute defaults -- or is a predefined character.
   [A] is any property of characters true of those. *)
Theorem no_external_content : forall (A : N -> Prop) fuel cfg resolve x lg t,
  (forall n c, predefined n = Some c -> A c) ->
  ges cfg = false -> doc_in A x ->
  read fuel cfg resolve x = (lg, Ok t) -> Forall A (tree_chars t).
Proof. intros A fuel cfg resolve x lg t HA Hg Hx H. exact (read_in A HA fuel cfg resolve x lg t Hg Hx H). Qed.
Print Assumptions no_external_content.

(* the form the harness observes: a marker character that occurs nowhere in
   the document (it is planted only in outside resources) is not in the tree *)
Corollary marker_never_in_tree : forall m fuel cfg resolve x lg t,
  predefined_chars_differ m ->
  ges cfg = false -> doc_in (fun c => c <> m) x ->
  read fuel cfg resolve x = (lg, Ok t) -> ~ In m (tree_chars t).
Proof.
  intros m fuel cfg resolve x lg t Hm Hg Hx H Hin.
  pose proof (read_in (fun c => c <> m) Hm fuel cfg resolve x lg t Hg Hx H) as HF.
  unfold tree_in in HF. rewrite Forall_forall in HF. exact (HF m Hin eq_refl).
Qed.
Print Assumptions marker_never_in_tree.

(* Fuel is only a device for termination: a run that does not end in [Fuel]
   gives the same answer with any larger fuel. *)
Theorem fuel_monotone : forall f f' cfg resolve x, f <= f' ->
  result (read f cfg resolve x) <> Fuel -> read f' cfg resolve x = read f cfg resolve x.
Proof. exact read_fuel_monotone. Qed.
Print Assumptions fuel_monotone.

(* Both at once: with the feature off, a definite result is a function of the
   document alone -- the same under ANY oracle for the outside world and ANY
   larger fuel. *)
Theorem result_is_a_function_of_the_document : forall f f' cfg r1 r2 x, f <= f' ->
  ges cfg = false -> result (read f cfg r1 x) <> Fuel ->
  read f' cfg r2 x = read f cfg r1 x.
Proof.
  intros f f' cfg r1 r2 x Hle Hoff Hne.
  rewrite (read_oracle_independent f' cfg r2 r1 x Hoff). exact (read_fuel_monotone f f' cfg r1 x Hle Hne).
Qed.
Print Assumptions result_is_a_function_of_the_document.

(* ... and for the body of a document a fuel above the number of declared
   general entities always suffices (an open entity cannot be opened again),
   whatever the external-entity gate does. *)
Theorem content_fuel_suffices : forall ext fuel d lvl tags l,
  length (gents d) < fuel -> snd (content ext fuel d [] lvl tags l) <> Fuel.
Proof. exact FuelProofs.content_fuel_suffices. Qed.
Print Assumptions content_fuel_suffices.

(* ---- the documents that ARE fetched (model: C20/Loader.v) ---- *)

(* The loader asks its store / transport only for documents named by the
   caller or, transitively, by import / include references. *)
Theorem loader_fetches_only_named : forall fuel j w root u,
  In u (load fuel j w [root] []) -> named j w [root] u.
Proof. exact load_named. Qed.
Print Assumptions loader_fetches_only_named.

(* What names a document is decided by namespace: an element outside the XSD
   and WSDL namespaces names nothing, whatever its local name (include,
   import, ...), position and schemaLocation / location attributes. *)
Theorem foreign_namespace_names_nothing : forall c,
  fst (c_name c) <> ns_xsd -> fst (c_name c) <> ns_wsdl -> ref_of c = None.
Proof. exact foreign_ref_of. Qed.
Print Assumptions foreign_namespace_names_nothing.

(* A reference without a location attribute names nothing: the namespace of
   an import is an identifier, not an address. *)
Theorem reference_without_location_names_nothing : forall c,
  c_sloc c = None -> c_loc c = None -> ref_of c = None.
Proof. exact no_location_ref_of. Qed.
Print Assumptions reference_without_location_names_nothing.

(* References resolve against the URL of the document that CONTAINS them:
   what document u names depends on urljoin at base u only. *)
Theorem references_resolve_against_container : forall j1 j2 w u,
  (forall r, j1 u r = j2 u r) -> refs_at j1 w u = refs_at j2 w u.
Proof. exact refs_at_join_local. Qed.
Print Assumptions references_resolve_against_container.

(* The fetches of a load are a function of the documents that load names and
   of nothing else: worlds that agree on what the named documents name are
   loaded alike, whatever else they contain (documents seen by earlier loads
   in the process, decoys at other locations, look-alike elements). *)
Theorem load_depends_on_named_documents_only : forall fuel j1 w1 j2 w2 root,
  (forall u, named j1 w1 [root] u -> refs_at j1 w1 u = refs_at j2 w2 u) ->
  load fuel j1 w1 [root] [] = load fuel j2 w2 [root] [].
Proof. intros fuel j1 w1 j2 w2 root H. apply load_local. exact H. Qed.
Print Assumptions load_depends_on_named_documents_only.

Theorem lookalike_names_nothing_in_context : forall j base a c b,
  fst (c_name c) <> ns_xsd -> fst (c_name c) <> ns_wsdl ->
  refs j base (a ++ c :: b) = refs j base (a ++ b).
Proof. exact refs_insert_foreign. Qed.
Print Assumptions lookalike_names_nothing_in_context.

(* non-vacuity: a schema at URL 1 (directory A) includes, by the relative
   reference 5, a schema in directory B (URL 21), which includes by the SAME
   relative text 6 its neighbour (URL 22, not URL 23 = the includer's
   neighbour); a vendor doc:include, an xs:import inside appinfo and an import
   without location name nothing *)
Definition lk_join : joiner := fun base r =>
  (if N.eqb base 1 then (if N.eqb r 5 then 21 else 23)
   else if N.eqb base 21 then 22 else 0)%N.
Definition lk_schema : list cand :=
  [mkCand [(ns_xsd, l_schema)] (7, l_include) (Some (LAbs 20)) None;             (* <doc:include schemaLocation=20> *)
   mkCand [(ns_xsd, l_schema)] (ns_xsd, l_include) (Some (LRel 5)) None;         (* <xs:include schemaLocation="b/t.xsd"> *)
   mkCand [(ns_xsd, l_schema)] (ns_xsd, l_import) None None;                     (* <xs:import namespace=...> *)
   mkCand [(ns_xsd, l_schema); (ns_xsd, 9); (ns_xsd, 10)] (ns_xsd, l_import) (Some (LAbs 24)) None]%N.
Definition lk_world : world := fun u =>
  (if N.eqb u 1 then Some lk_schema
   else if N.eqb u 21 then Some [mkCand [(ns_xsd, l_schema)] (ns_xsd, l_include) (Some (LRel 6)) None]
   else if N.eqb u 22 then Some [] else if N.eqb u 23 then Some [] else None)%N.
Example lk_schema_names : refs lk_join 1%N lk_schema = [21%N].
Proof. reflexivity. Qed.
Example lk_load : load 8 lk_join lk_world [1%N] [] = [1; 21; 22]%N.
Proof. reflexivity. Qed.

(* The gate is what protects: the same reader with the feature ON does open
   the file and does include its content (so the theorems above are about
   the flag, not about a reader that could not reach outside anyway). *)
Definition xxe_doc : doc :=
  (mkDoc SAbsent None [DGenExt 10 1] [TOpen 20 []; TText [97]; TRef 10; TClose 20])%N.
Definition xxe_world (s : sysid) : option resource :=
  if N.eqb s 1 then Some (RText [TText [marker]]) else None.

Theorem feature_on_reaches_outside :
  read 5 (mkConfig true) xxe_world xxe_doc = ([1], Ok (RN 20 [] [97; marker] []))%N.
Proof. vm_compute. reflexivity. Qed.
Print Assumptions feature_on_reaches_outside.

(* non-vacuity: the hypotheses of the theorems are satisfiable by a document
   that does declare and reference external entities, an external subset and
   an external parameter entity; with the feature off it parses to a tree *)
Definition busy_doc : doc :=
  (mkDoc SAbsent (Some 2)
    [DGenExt 10 1; DGenInt 11 [TText [120]; TRef 10; TOpen 21 [(30, [AText [118]])]; TClose 21];
     DGenInt 14 [TText [120]]; DAttDef 20 31 [ARef 14]; DParExt 12 4; DParRef 12; DGenInt 13 [TText [122]]]
    [TOpen 20 [(30, [AText [107]])]; TText [97]; TRef 11; TRef 10; TRef 13; TClose 20])%N.

Example busy_doc_nonvacuous :
  doc_in (fun c => c <> marker) busy_doc /\
  read 8 (saxparser true) xxe_world busy_doc
  = ([], Ok (RN 20 [(30, [107]); (31, [120])] [97; 120] [RN 21 [(30, [118])] [] []]))%N.
Proof.
  split; [|vm_compute; reflexivity].
  unfold doc_in, busy_doc, marker; simpl.
  repeat (first [split | constructor | exact I | (intro HH; discriminate HH)]).
Qed.

Example feature_on_differs :
  io_log (read 8 (mkConfig true) xxe_world busy_doc) <> [].
Proof. vm_compute. discriminate. Qed.

(* the predicates the harness evaluates have teeth: on the same document, an
   outside access, a marker in the tree, or a tree that is not the model's are
   each rejected *)
Definition good_case : case :=
  mkCase EParseString false false xxe_doc [(1, RText [TText [marker]])]%N
         (IDoc [(0%nat, 20, [], [97])]%N) [].

Example predicates_accept_good_case :
  c20_flags_agree good_case = true /\ c20_agrees good_case = true /\ c20_spec_ok good_case = true.
Proof. vm_compute. repeat split. Qed.

Example spec_rejects_outside_access :
  c20_spec_ok (mkCase EParseString false false xxe_doc [] (IDoc [(0%nat, 20, [], [97])]%N) [1%N]) = false.
Proof. vm_compute. reflexivity. Qed.

Example spec_rejects_external_content :
  c20_spec_ok (mkCase EParseString false false xxe_doc [] (IDoc [(0%nat, 20, [], [97; marker])]%N) []) = false.
Proof. vm_compute. reflexivity. Qed.

Example agrees_rejects_other_tree :
  c20_agrees (mkCase EParseString false false xxe_doc [] (IDoc [(0%nat, 20, [], [97; 98])]%N) []) = false.
Proof. vm_compute. reflexivity. Qed.

Example flags_reject_feature_on :
  c20_flags_agree (mkCase EDocCacheGet false true xxe_doc [] INone []) = false.
Proof. vm_compute. reflexivity. Qed.
