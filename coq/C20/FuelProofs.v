(* C20 -- fuel: more fuel never changes a definite result.  [Fuel] is a third
   outcome, distinct from an error, and the harness counts a model run that
   ends in it as a disagreement, so every compared result is fuel-independent. *)
From SV Require Import Lib.Base C20.Entities.

Definition le_out {A} (a b : outcome A) : Prop := a = Fuel \/ a = b.
Definition le_res {A} (a b : logged A) : Prop := snd a = Fuel \/ a = b.

Lemma le_out_refl {A} (a : outcome A) : le_out a a.
Proof. right; reflexivity. Qed.
Lemma le_res_refl {A} (a : logged A) : le_res a a.
Proof. right; reflexivity. Qed.

Lemma le_obind {A B} (m m' : outcome A) (k k' : A -> outcome B) :
  le_out m m' -> (forall a, le_out (k a) (k' a)) -> le_out (obind m k) (obind m' k').
Proof.
  intros [->| <-] H; [left; reflexivity|].
  destruct m as [a| |]; simpl; [apply H|right; reflexivity|left; reflexivity].
Qed.

Lemma le_bind {A B} (m m' : logged A) (k k' : A -> logged B) :
  le_res m m' -> (forall a, le_res (k a) (k' a)) -> le_res (bind m k) (bind m' k').
Proof.
  intros [Hm| <-] H.
  - left. destruct m as [l o]; simpl in Hm; subst o. reflexivity.
  - destruct m as [l [a| |]]; simpl; [|right; reflexivity|left; reflexivity].
    destruct (H a) as [Hk|Hk].
    + left. destruct (k a) as [l2 o]; simpl in *; assumption.
    + right. rewrite Hk. reflexivity.
Qed.

Lemma le_lift_match {A B} (o o' : outcome A) (k : A -> logged B) :
  le_out o o' ->
  le_res (match o with Ok a => k a | Err => fail | Fuel => nofuel end)
         (match o' with Ok a => k a | Err => fail | Fuel => nofuel end).
Proof. intros [->| <-]; [left; reflexivity|right; reflexivity]. Qed.

(* ---- attribute values ---- *)

Lemma aval_step_mono rec1 rec2 d check open t :
  (forall op v, le_out (rec1 op v) (rec2 op v)) ->
  le_out (aval_step rec1 d check open t) (aval_step rec2 d check open t).
Proof.
  intros H. destruct t; simpl; try apply le_out_refl.
  destruct (predefined n); [apply le_out_refl|].
  destruct (lookup n (gents d)) as [e|]; [|apply le_out_refl].
  destruct (mem n open); [apply le_out_refl|].
  destruct e; try apply le_out_refl. apply H.
Qed.

Lemma run_aval_mono step1 step2 : (forall t, le_out (step1 t) (step2 t)) ->
  forall l, le_out (run_aval step1 l) (run_aval step2 l).
Proof.
  intros H. induction l as [|t r IH]; [apply le_out_refl|].
  simpl. apply le_obind; [apply H|]. intros s.
  apply le_obind; [apply IH|]. intros; apply le_out_refl.
Qed.

Lemma attval_mono : forall f d check open l,
  le_out (attval f d check open l) (attval (S f) d check open l).
Proof.
  induction f as [|f IH]; intros; [left; reflexivity|].
  change (le_out (run_aval (aval_step (attval f d check) d check open) l)
                 (run_aval (aval_step (attval (S f) d check) d check open) l)).
  apply run_aval_mono. intros t. apply aval_step_mono. intros; apply IH.
Qed.

Lemma eval_attrs_mono f d : forall attrs, le_out (eval_attrs f d attrs) (eval_attrs (S f) d attrs).
Proof.
  induction attrs as [|[a v] r IH]; [apply le_out_refl|].
  simpl eval_attrs. apply le_obind; [apply attval_mono|]. intros s.
  apply le_obind; [apply IH|]. intros; apply le_out_refl.
Qed.

Lemma start_tag_mono f d nm attrs : le_out (start_tag f d nm attrs) (start_tag (S f) d nm attrs).
Proof.
  unfold start_tag. destruct (negb _); [apply le_out_refl|].
  apply le_obind; [apply eval_attrs_mono|]. intros; apply le_out_refl.
Qed.

(* ---- prolog ---- *)
Section WithExt.
Variable ext : sysid -> list sysid * ext_result.

Lemma decl_step_mono rec1 rec2 fa in_ext open d x :
  (forall d ie op ds, le_res (rec1 d ie op ds) (rec2 d ie op ds)) ->
  le_res (decl_step ext rec1 fa in_ext open d x) (decl_step ext rec2 (S fa) in_ext open d x).
Proof.
  intros H. destruct x; simpl; try apply le_res_refl.
  - destruct (standalone d); [apply le_res_refl|].
    destruct (lookup n _) as [p|]; [|apply le_res_refl].
    destruct (mem n open); [apply le_res_refl|].
    destruct p as [v|s]; [apply H|].
    apply le_bind; [apply le_res_refl|].
    intros [| |[v|v]]; try apply le_res_refl. apply H.
  - destruct (keep d); [|apply le_res_refl].
    apply (le_lift_match _ _ (fun s => ret (if has_attdef el att (attdefs d) then d
                     else set_attdefs d (attdefs d ++ [(el, (att, s))])))).
    apply attval_mono.
Qed.

Lemma run_decls_mono step1 step2 : (forall d x, le_res (step1 d x) (step2 d x)) ->
  forall ds d, le_res (run_decls step1 d ds) (run_decls step2 d ds).
Proof.
  intros H. induction ds as [|x r IH]; intros d; [apply le_res_refl|].
  simpl. apply le_bind; [apply H|]. intros; apply IH.
Qed.

Lemma prolog_mono : forall f d in_ext open ds,
  le_res (prolog ext f d in_ext open ds) (prolog ext (S f) d in_ext open ds).
Proof.
  induction f as [|f IH]; intros; [left; reflexivity|].
  change (le_res (run_decls (decl_step ext (prolog ext f) (S f) in_ext open) d ds)
                 (run_decls (decl_step ext (prolog ext (S f)) (S (S f)) in_ext open) d ds)).
  apply run_decls_mono. intros. apply decl_step_mono. intros; apply IH.
Qed.

(* ---- content ---- *)

Lemma tok_step_mono rec1 rec2 fa d open lvl tags t :
  (forall op l tg v, le_res (rec1 op l tg v) (rec2 op l tg v)) ->
  le_res (tok_step ext rec1 fa d open lvl tags t) (tok_step ext rec2 (S fa) d open lvl tags t).
Proof.
  intros H. destruct t; simpl; try apply le_res_refl.
  - destruct (predefined n); [apply le_res_refl|].
    destruct (lookup n (gents d)) as [e|]; [|apply le_res_refl].
    destruct (mem n open); [apply le_res_refl|].
    destruct e as [v|s|]; try apply le_res_refl.
    + apply le_bind; [apply H|]. intros; apply le_res_refl.
    + apply le_bind; [apply le_res_refl|].
      intros [| |[v|v]]; try apply le_res_refl.
      apply le_bind; [apply H|]. intros; apply le_res_refl.
  - apply (le_lift_match _ _ (fun e => ret ([e], nm :: tags))). apply start_tag_mono.
Qed.

Lemma run_toks_mono step1 step2 : (forall tags t, le_res (step1 tags t) (step2 tags t)) ->
  forall l tags, le_res (run_toks step1 tags l) (run_toks step2 tags l).
Proof.
  intros H. induction l as [|t r IH]; intros tags; [apply le_res_refl|].
  simpl. apply le_bind; [apply H|]. intros x.
  apply le_bind; [apply IH|]. intros; apply le_res_refl.
Qed.

Lemma content_mono : forall f d open lvl tags l,
  le_res (content ext f d open lvl tags l) (content ext (S f) d open lvl tags l).
Proof.
  induction f as [|f IH]; intros; [left; reflexivity|].
  change (le_res (run_toks (tok_step ext (content ext f d) (S f) d open lvl) tags l)
                 (run_toks (tok_step ext (content ext (S f) d) (S (S f)) d open lvl) tags l)).
  apply run_toks_mono. intros. apply tok_step_mono. intros; apply IH.
Qed.

Lemma read_events_mono f x : le_res (read_events ext f x) (read_events ext (S f) x).
Proof.
  unfold read_events. apply le_bind; [apply prolog_mono|]. intros d1.
  apply le_bind.
  - unfold doctype_close. destruct (d_ext x); [|apply le_res_refl].
    destruct (d_standalone x); [apply le_res_refl|].
    apply le_bind; [apply le_res_refl|]. intros [| |[v|v]]; try apply le_res_refl.
    apply prolog_mono.
  - intros d2. destruct (body_shape_ok _); [|apply le_res_refl].
    apply le_bind; [apply content_mono|]. intros; apply le_res_refl.
Qed.

End WithExt.

Lemma read_mono f cfg resolve x : le_res (read f cfg resolve x) (read (S f) cfg resolve x).
Proof.
  unfold read. apply le_bind; [apply read_events_mono|]. intros; apply le_res_refl.
Qed.

Lemma read_fuel_monotone f f' cfg resolve x : f <= f' ->
  result (read f cfg resolve x) <> Fuel -> read f' cfg resolve x = read f cfg resolve x.
Proof.
  intros Hle Hne. induction Hle as [|m Hle IH]; [reflexivity|].
  destruct (read_mono m cfg resolve x) as [H|H].
  - exfalso. apply Hne. unfold result. rewrite <- IH. exact H.
  - rewrite <- H. exact IH.
Qed.
