(* C20 -- fuel: more fuel never changes a definite result.  [Fuel] is a third
   outcome, distinct from an error, and the harness counts a model run that
   ends in it as a disagreement, so every compared result is fuel-independent. *)
From SV Require Import Lib.Base C20.Entities.

Definition le_out {A} (a b : outcome A) : Prop := a = Fuel \/ a = b.
Definition le_res {A} (a b : logged A) : Prop := snd a = Fuel \/ a = b.

Lemma le_out_refl {A} (a : outcome A) : le_out a a.
Proof. right; reflexivity. Qed.
Lemma le_res_refl {A} (a : logged A) : le_res a a.
Proof. right; reflexivity. Qed.

Lemma le_obind {A B} (m m' : outcome A) (k k' : A -> outcome B) :
  le_out m m' -> (forall a, le_out (k a) (k' a)) -> le_out (obind m k) (obind m' k').
Proof.
  intros [->| <-] H; [left; reflexivity|].
  destruct m as [a| |]; simpl; [apply H|right; reflexivity|left; reflexivity].
Qed.

Lemma le_bind {A B} (m m' : logged A) (k k' : A -> logged B) :
  le_res m m' -> (forall a, le_res (k a) (k' a)) -> le_res (bind m k) (bind m' k').
Proof.
  intros [Hm| <-] H.
  - left. destruct m as [l o]; simpl in Hm; subst o. reflexivity.
  - destruct m as [l [a| |]]; simpl; [|right; reflexivity|left; reflexivity].
    destruct (H a) as [Hk|Hk].
    + left. destruct (k a) as [l2 o]; simpl in *; assumption.
    + right. rewrite Hk. reflexivity.
Qed.

Lemma le_lift_match {A B} (o o' : outcome A) (k : A -> logged B) :
  le_out o o' ->
  le_res (match o with Ok a => k a | Err => fail | Fuel => nofuel end)
         (match o' with Ok a => k a | Err => fail | Fuel => nofuel end).
Proof. intros [->| <-]; [left; reflexivity|right; reflexivity]. Qed.

(* ---- attribute values ---- *)

Lemma aval_step_mono rec1 rec2 d check open t :
  (forall op v, le_out (rec1 op v) (rec2 op v)) ->
  le_out (aval_step rec1 d check open t) (aval_step rec2 d check open t).
Proof.
  intros H. destruct t; simpl; try apply le_out_refl.
  destruct (predefined n); [apply le_out_refl|].
  destruct (lookup n (gents d)) as [e|]; [|apply le_out_refl].
  destruct (mem n open); [apply le_out_refl|].
  destruct e; try apply le_out_refl. apply H.
Qed.

Lemma run_aval_mono step1 step2 : (forall t, le_out (step1 t) (step2 t)) ->
  forall l, le_out (run_aval step1 l) (run_aval step2 l).
Proof.
  intros H. induction l as [|t r IH]; [apply le_out_refl|].
  simpl. apply le_obind; [apply H|]. intros s.
  apply le_obind; [apply IH|]. intros; apply le_out_refl.
Qed.

Lemma attval_mono : forall f d check open l,
  le_out (attval f d check open l) (attval (S f) d check open l).
Proof.
  induction f as [|f IH]; intros; [left; reflexivity|].
  change (le_out (run_aval (aval_step (attval f d check) d check open) l)
                 (run_aval (aval_step (attval (S f) d check) d check open) l)).
  apply run_aval_mono. intros t. apply aval_step_mono. intros; apply IH.
Qed.

Lemma eval_attrs_mono f d open : forall attrs,
  le_out (eval_attrs f d open attrs) (eval_attrs (S f) d open attrs).
Proof.
  induction attrs as [|[a v] r IH]; [apply le_out_refl|].
  simpl eval_attrs. apply le_obind; [apply attval_mono|]. intros s.
  apply le_obind; [apply IH|]. intros; apply le_out_refl.
Qed.

Lemma start_tag_mono f d open nm attrs :
  le_out (start_tag f d open nm attrs) (start_tag (S f) d open nm attrs).
Proof.
  unfold start_tag. destruct (negb _); [apply le_out_refl|].
  apply le_obind; [apply eval_attrs_mono|]. intros; apply le_out_refl.
Qed.

(* ---- prolog ---- *)
Section WithExt.
Variable ext : sysid -> list sysid * ext_result.

Lemma decl_step_mono rec1 rec2 fa in_ext open d x :
  (forall d ie op ds, le_res (rec1 d ie op ds) (rec2 d ie op ds)) ->
  le_res (decl_step ext rec1 fa in_ext open d x) (decl_step ext rec2 (S fa) in_ext open d x).
Proof.
  intros H. destruct x; simpl; try apply le_res_refl.
  - destruct (standalone d); [apply le_res_refl|].
    destruct (lookup n _) as [p|]; [|apply le_res_refl].
    destruct (mem n open); [apply le_res_refl|].
    destruct p as [v|s]; [apply H|].
    apply le_bind; [apply le_res_refl|].
    intros [| |[v|v]]; try apply le_res_refl. apply H.
  - destruct (keep d); [|apply le_res_refl].
    apply (le_lift_match _ _ (fun s => ret (if has_attdef el att (attdefs d) then d
                     else set_attdefs d (attdefs d ++ [(el, (att, s))])))).
    apply attval_mono.
Qed.

Lemma run_decls_mono step1 step2 : (forall d x, le_res (step1 d x) (step2 d x)) ->
  forall ds d, le_res (run_decls step1 d ds) (run_decls step2 d ds).
Proof.
  intros H. induction ds as [|x r IH]; intros d; [apply le_res_refl|].
  simpl. apply le_bind; [apply H|]. intros; apply IH.
Qed.

Lemma prolog_mono : forall f d in_ext open ds,
  le_res (prolog ext f d in_ext open ds) (prolog ext (S f) d in_ext open ds).
Proof.
  induction f as [|f IH]; intros; [left; reflexivity|].
  change (le_res (run_decls (decl_step ext (prolog ext f) (S f) in_ext open) d ds)
                 (run_decls (decl_step ext (prolog ext (S f)) (S (S f)) in_ext open) d ds)).
  apply run_decls_mono. intros. apply decl_step_mono. intros; apply IH.
Qed.

(* ---- content ---- *)

Lemma tok_step_mono rec1 rec2 fa d open lvl tags t :
  (forall op l tg v, le_res (rec1 op l tg v) (rec2 op l tg v)) ->
  le_res (tok_step ext rec1 fa d open lvl tags t) (tok_step ext rec2 (S fa) d open lvl tags t).
Proof.
  intros H. destruct t; simpl; try apply le_res_refl.
  - destruct (predefined n); [apply le_res_refl|].
    destruct (lookup n (gents d)) as [e|]; [|apply le_res_refl].
    destruct (mem n open); [apply le_res_refl|].
    destruct e as [v|s|]; try apply le_res_refl.
    + apply le_bind; [apply H|]. intros; apply le_res_refl.
    + apply le_bind; [apply le_res_refl|].
      intros [| |[v|v]]; try apply le_res_refl.
      apply le_bind; [apply H|]. intros; apply le_res_refl.
  - apply (le_lift_match _ _ (fun e => ret ([e], nm :: tags))). apply start_tag_mono.
Qed.

Lemma run_toks_mono step1 step2 : (forall tags t, le_res (step1 tags t) (step2 tags t)) ->
  forall l tags, le_res (run_toks step1 tags l) (run_toks step2 tags l).
Proof.
  intros H. induction l as [|t r IH]; intros tags; [apply le_res_refl|].
  simpl. apply le_bind; [apply H|]. intros x.
  apply le_bind; [apply IH|]. intros; apply le_res_refl.
Qed.

Lemma content_mono : forall f d open lvl tags l,
  le_res (content ext f d open lvl tags l) (content ext (S f) d open lvl tags l).
Proof.
  induction f as [|f IH]; intros; [left; reflexivity|].
  change (le_res (run_toks (tok_step ext (content ext f d) (S f) d open lvl) tags l)
                 (run_toks (tok_step ext (content ext (S f) d) (S (S f)) d open lvl) tags l)).
  apply run_toks_mono. intros. apply tok_step_mono. intros; apply IH.
Qed.

Lemma read_events_mono f x : le_res (read_events ext f x) (read_events ext (S f) x).
Proof.
  unfold read_events. apply le_bind; [apply prolog_mono|]. intros d1.
  apply le_bind.
  - unfold doctype_close. destruct (d_ext x); [|apply le_res_refl].
    destruct (d_standalone x); [apply le_res_refl|].
    apply le_bind; [apply le_res_refl|]. intros [| |[v|v]]; try apply le_res_refl.
    apply prolog_mono.
  - intros d2. destruct (body_shape_ok _); [|apply le_res_refl].
    apply le_bind; [apply content_mono|]. intros; apply le_res_refl.
Qed.

End WithExt.

Lemma read_mono f cfg resolve x : le_res (read f cfg resolve x) (read (S f) cfg resolve x).
Proof.
  unfold read. apply le_bind; [apply read_events_mono|]. intros; apply le_res_refl.
Qed.

Lemma read_fuel_monotone f f' cfg resolve x : f <= f' ->
  result (read f cfg resolve x) <> Fuel -> read f' cfg resolve x = read f cfg resolve x.
Proof.
  intros Hle Hne. induction Hle as [|m Hle IH]; [reflexivity|].
  destruct (read_mono m cfg resolve x) as [H|H].
  - exfalso. apply Hne. unfold result. rewrite <- IH. exact H.
  - rewrite <- H. exact IH.
Qed.

(* ------------------------------------------------------------------ *)
(* Fuel suffices: once the DTD is fixed, reading attribute values and  *)
(* content never runs out of fuel when the fuel exceeds the number of  *)
(* declared general entities that are not already open -- an open      *)
(* entity cannot be opened again (recursive entity reference), so the  *)
(* nesting depth is bounded by the number of declarations.             *)
(* ------------------------------------------------------------------ *)

Definition enough (fuel : nat) (d : dtd) (open : list name) : Prop :=
  NoDup open /\ incl open (map fst (gents d)) /\ length (gents d) < fuel + length open.

Lemma mem_false_not_In n l : mem n l = false -> ~ In n l.
Proof.
  induction l as [|k r IH]; simpl; [auto|].
  intros H [E|E].
  - subst. rewrite N.eqb_refl in H. discriminate.
  - apply orb_false_iff in H as [_ H]. exact (IH H E).
Qed.

Lemma lookup_In_fst {V} n (l : list (name * V)) v : lookup n l = Some v -> In n (map fst l).
Proof.
  induction l as [|[k w] r IH]; simpl; [discriminate|].
  destruct (N.eqb k n) eqn:E; [apply N.eqb_eq in E; left; exact E|intros H; right; auto].
Qed.

Lemma enough_pos fuel d open : enough fuel d open -> fuel <> 0.
Proof.
  intros (Hn & Hi & Hl) ->. simpl in Hl.
  pose proof (NoDup_incl_length Hn Hi) as H. rewrite map_length in H. lia.
Qed.

Lemma enough_open f d open n e :
  enough (S f) d open -> lookup n (gents d) = Some e -> mem n open = false ->
  enough f d (n :: open).
Proof.
  intros (Hn & Hi & Hl) El Em. split; [|split].
  - constructor; [apply mem_false_not_In; exact Em|exact Hn].
  - intros x [<-|Hx]; [eapply lookup_In_fst; eauto|apply Hi; exact Hx].
  - simpl. lia.
Qed.

Lemma obind_not_fuel {A B} (m : outcome A) (k : A -> outcome B) :
  m <> Fuel -> (forall a, k a <> Fuel) -> obind m k <> Fuel.
Proof. destruct m; simpl; auto; discriminate. Qed.

Lemma bind_not_fuel {A B} (m : logged A) (k : A -> logged B) :
  snd m <> Fuel -> (forall a, snd (k a) <> Fuel) -> snd (bind m k) <> Fuel.
Proof.
  destruct m as [l [a| |]]; simpl; intros Hm Hk; try discriminate; [|contradiction].
  specialize (Hk a). destruct (k a); exact Hk.
Qed.

Lemma run_aval_not_fuel step : (forall t, step t <> Fuel) -> forall l, run_aval step l <> Fuel.
Proof.
  intros H. induction l as [|t r IH]; simpl; [discriminate|].
  apply obind_not_fuel; [apply H|]. intros s.
  apply obind_not_fuel; [exact IH|]. discriminate.
Qed.

Lemma attval_suffices : forall fuel d check open l,
  enough fuel d open -> attval fuel d check open l <> Fuel.
Proof.
  induction fuel as [|f IH]; intros d check open l He.
  - exfalso. exact (enough_pos _ _ _ He eq_refl).
  - simpl. apply run_aval_not_fuel. intros t. destruct t; simpl; try discriminate.
    destruct (predefined n); [discriminate|].
    destruct (lookup n (gents d)) as [e|] eqn:El; [|destruct check; discriminate].
    destruct (mem n open) eqn:Em; [discriminate|].
    destruct e; try discriminate. apply IH. eapply enough_open; eauto.
Qed.

Lemma eval_attrs_suffices fuel d open : enough fuel d open ->
  forall attrs, eval_attrs fuel d open attrs <> Fuel.
Proof.
  intros He. induction attrs as [|[a v] r IH]; simpl; [discriminate|].
  apply obind_not_fuel; [apply attval_suffices; exact He|]. intros s.
  apply obind_not_fuel; [exact IH|]. discriminate.
Qed.

Lemma start_tag_suffices fuel d open nm attrs : enough fuel d open ->
  start_tag fuel d open nm attrs <> Fuel.
Proof.
  intros He. unfold start_tag. destruct (negb _); [discriminate|].
  apply obind_not_fuel; [apply eval_attrs_suffices; exact He|]. discriminate.
Qed.

Lemma run_toks_suffices step : (forall tags t, snd (step tags t) <> Fuel) ->
  forall l tags, snd (run_toks step tags l) <> Fuel.
Proof.
  intros H. induction l as [|t r IH]; intros tags; simpl; [discriminate|].
  apply bind_not_fuel; [apply H|]. intros x.
  apply bind_not_fuel; [apply IH|]. intros; discriminate.
Qed.

(* for any behaviour of the external-entity gate: only declared entities can be
   opened, also inside fetched replacement text *)
Lemma content_suffices ext : forall fuel d open lvl tags l,
  enough fuel d open -> snd (content ext fuel d open lvl tags l) <> Fuel.
Proof.
  induction fuel as [|f IH]; intros d open lvl tags l He.
  - exfalso. exact (enough_pos _ _ _ He eq_refl).
  - simpl. apply run_toks_suffices. intros tg t. destruct t; simpl; try discriminate.
    + destruct (predefined n); [discriminate|].
      destruct (lookup n (gents d)) as [e|] eqn:El; [|destruct (check_content d); discriminate].
      destruct (mem n open) eqn:Em; [discriminate|].
      pose proof (enough_open _ _ _ _ _ He El Em) as He'.
      destruct e as [v|s|]; try discriminate.
      * apply bind_not_fuel; [apply IH; exact He'|]. intros x. destruct (Nat.eqb _ _); discriminate.
      * apply bind_not_fuel; [unfold call_ext; destruct (ext s); discriminate|].
        intros [| |[v|v]]; try discriminate.
        apply bind_not_fuel; [apply IH; exact He'|]. intros x. destruct (Nat.eqb _ _); discriminate.
    + pose proof (start_tag_suffices (S f) d open nm attrs He) as Hs.
      destruct (start_tag _ _ _ _ _); try discriminate. contradiction.
    + destruct tg; [discriminate|]. destruct (Nat.leb _ _); [discriminate|].
      destruct (N.eqb _ _); discriminate.
Qed.

(* the statement used in Props: the body of a document, read from the top *)
Lemma content_fuel_suffices ext fuel d lvl tags l :
  length (gents d) < fuel -> snd (content ext fuel d [] lvl tags l) <> Fuel.
Proof.
  intros H. apply content_suffices. split; [constructor|split; [intros x []|simpl; lia]].
Qed.
