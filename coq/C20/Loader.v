(* C20 -- which documents a WSDL / schema NAMES, and the loader's fetches.

   "the only I/O suds performs is the fetch of the documents named by the
   caller and by import/include references, through the configured store and
   transport."

   A document is seen here as the list of its elements that could be taken
   for a reference: expanded name (namespace, local name), the path of
   expanded names from the root down to the parent, and the two location
   attributes.  Whether such an element NAMES a document is decided by its
   NAMESPACE and position, as the XSD and WSDL specifications say -- never by
   its local name or attributes alone:

     {WSDL}import   child of the root {WSDL}definitions      -> @location
     {XSD}import | include | redefine
                    child of an {XSD}schema that is the root or
                    {WSDL}definitions/{WSDL}types/{XSD}schema -> @schemaLocation

   Namespaces, local names and URLs are interned by the harness.  No proofs. *)
From SV Require Import Lib.Base.

Definition url := N.
Definition qn := (N * N)%type.           (* (namespace id, local-name id) *)

Definition ns_xsd : N := 1%N.
Definition ns_wsdl : N := 2%N.           (* every other id: a foreign namespace (0: none) *)
Definition l_import : N := 1%N.
Definition l_include : N := 2%N.
Definition l_redefine : N := 3%N.
Definition l_schema : N := 4%N.
Definition l_types : N := 5%N.
Definition l_definitions : N := 6%N.

(* a location attribute as written: absolute, or relative (interned text) *)
Inductive locref := LAbs (u : url) | LRel (r : N).

Record cand := mkCand {
  c_path : list qn;             (* expanded names of the ancestors, root first *)
  c_name : qn;
  c_sloc : option locref;       (* @schemaLocation, if present *)
  c_loc : option locref         (* @location, if present *)
}.

(* urljoin: base document URL, relative reference -> URL *)
Definition joiner := url -> N -> url.

Definition resolve (j : joiner) (base : url) (l : locref) : url :=
  match l with LAbs u => u | LRel r => j base r end.

Definition qn_eqb (a b : qn) : bool := N.eqb (fst a) (fst b) && N.eqb (snd a) (snd b).

Definition path_is (p : list qn) (q : list qn) : bool := list_eqb qn_eqb p q.

Definition in_schema_position (p : list qn) : bool :=
  path_is p [(ns_xsd, l_schema)]
  || path_is p [(ns_wsdl, l_definitions); (ns_wsdl, l_types); (ns_xsd, l_schema)].

Definition is_xsd_ref_name (n : qn) : bool :=
  N.eqb (fst n) ns_xsd
  && (N.eqb (snd n) l_import || N.eqb (snd n) l_include || N.eqb (snd n) l_redefine).

Definition is_wsdl_import (n : qn) : bool := N.eqb (fst n) ns_wsdl && N.eqb (snd n) l_import.

(* the location by which an element names a document, if it does.  An import
   without the attribute names nothing: its namespace is an identifier, not
   an address. *)
Definition ref_of (c : cand) : option locref :=
  if is_wsdl_import (c_name c) && path_is (c_path c) [(ns_wsdl, l_definitions)] then c_loc c
  else if is_xsd_ref_name (c_name c) && in_schema_position (c_path c) then c_sloc c
  else None.

(* the documents named by document [d] located at [base]: every reference is
   resolved against the URL of the document that CONTAINS it *)
Fixpoint refs (j : joiner) (base : url) (d : list cand) : list url :=
  match d with
  | [] => []
  | c :: r => match ref_of c with
              | Some l => resolve j base l :: refs j base r
              | None => refs j base r
              end
  end.

(* the documents that can be retrieved (through store / transport) and parsed;
   None: not retrievable or ill-formed -- it names nothing *)
Definition world := url -> option (list cand).

Definition refs_at (j : joiner) (w : world) (u : url) : list url :=
  match w u with Some d => refs j u d | None => [] end.

Fixpoint umem (u : url) (l : list url) : bool :=
  match l with [] => false | k :: r => N.eqb k u || umem u r end.

(* the loader: fetch what is named, once each; [todo] starts as the URL the
   caller named.  Result: the URLs asked of the store / transport. *)
Fixpoint load (fuel : nat) (j : joiner) (w : world) (todo seen : list url) : list url :=
  match fuel with
  | O => []
  | S f =>
    match todo with
    | [] => []
    | u :: r =>
      if umem u seen then load f j w r seen
      else u :: load f j w (r ++ refs_at j w u) (u :: seen)
    end
  end.

(* named, transitively, starting from the caller's URLs *)
Inductive named (j : joiner) (w : world) (roots : list url) : url -> Prop :=
| named_root u : In u roots -> named j w roots u
| named_ref v u : named j w roots v -> In u (refs_at j w v) -> named j w roots u.

(* ---- what the harness evaluates ---- *)

Record lcase := mkLcase {
  lc_root : url;
  lc_docs : list (url * list cand);      (* the documents this load can be served, as parsed independently of suds *)
  lc_join : list (url * N * url);        (* urljoin on (document, relative reference in it) *)
  lc_fetched : list url;                 (* what suds asked its store / transport for (or opened itself) *)
  lc_ok : bool                           (* the load succeeded *)
}.

Fixpoint assoc (u : url) (l : list (url * list cand)) : option (list cand) :=
  match l with [] => None | (k, d) :: r => if N.eqb k u then Some d else assoc u r end.

Definition load_fuel : nat := 64.

Definition lc_world (c : lcase) : world := fun u => assoc u (lc_docs c).

Fixpoint join_lookup (u : url) (r : N) (l : list (url * N * url)) : url :=
  match l with
  | [] => 0%N                              (* no such URL *)
  | (k, q, v) :: t => if N.eqb k u && N.eqb q r then v else join_lookup u r t
  end.

Definition lc_joiner (c : lcase) : joiner := fun u r => join_lookup u r (lc_join c).

(* what this load names: a function of ITS documents only *)
Definition lc_named (c : lcase) : list url :=
  load load_fuel (lc_joiner c) (lc_world c) [lc_root c] [].

Definition usubset (a b : list url) : bool := forallb (fun x => umem x b) a.

(* the property text: nothing but named documents is fetched *)
Definition load_spec_ok (c : lcase) : bool :=
  usubset (lc_fetched c) (lc_named c).

(* model = implementation: a successful load fetched exactly the named documents *)
Definition load_agrees (c : lcase) : bool :=
  if lc_ok c then
    usubset (lc_fetched c) (lc_named c) && usubset (lc_named c) (lc_fetched c)
  else true.
