(* C20 -- which documents a WSDL / schema NAMES, and the loader's fetches.

   "the only I/O suds performs is the fetch of the documents named by the
   caller and by import/include references, through the configured store and
   transport."

   A document is seen here as the list of its elements that could be taken
   for a reference: expanded name (namespace, local name), the path of
   expanded names from the root down to the parent, and the two location
   attributes.  Whether such an element NAMES a document is decided by its
   NAMESPACE and position, as the XSD and WSDL specifications say -- never by
   its local name or attributes alone:

     {WSDL}import   child of the root {WSDL}definitions      -> @location
     {XSD}import | include | redefine
                    child of an {XSD}schema that is the root or
                    {WSDL}definitions/{WSDL}types/{XSD}schema -> @schemaLocation

   Namespaces, local names and URLs are interned by the harness.  No proofs. *)
From SV Require Import Lib.Base.

Definition url := N.
Definition qn := (N * N)%type.           (* (namespace id, local-name id) *)

Definition ns_xsd : N := 1%N.
Definition ns_wsdl : N := 2%N.           (* every other id: a foreign namespace (0: none) *)
Definition l_import : N := 1%N.
Definition l_include : N := 2%N.
Definition l_redefine : N := 3%N.
Definition l_schema : N := 4%N.
Definition l_types : N := 5%N.
Definition l_definitions : N := 6%N.

Record cand := mkCand {
  c_path : list qn;             (* expanded names of the ancestors, root first *)
  c_name : qn;
  c_sloc : option url;          (* @schemaLocation, resolved against the document's URL *)
  c_loc : option url            (* @location *)
}.

Definition qn_eqb (a b : qn) : bool := N.eqb (fst a) (fst b) && N.eqb (snd a) (snd b).

Definition path_is (p : list qn) (q : list qn) : bool := list_eqb qn_eqb p q.

Definition in_schema_position (p : list qn) : bool :=
  path_is p [(ns_xsd, l_schema)]
  || path_is p [(ns_wsdl, l_definitions); (ns_wsdl, l_types); (ns_xsd, l_schema)].

Definition is_xsd_ref_name (n : qn) : bool :=
  N.eqb (fst n) ns_xsd
  && (N.eqb (snd n) l_import || N.eqb (snd n) l_include || N.eqb (snd n) l_redefine).

Definition is_wsdl_import (n : qn) : bool := N.eqb (fst n) ns_wsdl && N.eqb (snd n) l_import.

(* the document an element names, if any *)
Definition ref_of (c : cand) : option url :=
  if is_wsdl_import (c_name c) && path_is (c_path c) [(ns_wsdl, l_definitions)] then c_loc c
  else if is_xsd_ref_name (c_name c) && in_schema_position (c_path c) then c_sloc c
  else None.

Fixpoint refs (d : list cand) : list url :=
  match d with
  | [] => []
  | c :: r => match ref_of c with Some u => u :: refs r | None => refs r end
  end.

(* the documents that can be retrieved (through store / transport) and parsed;
   None: not retrievable or ill-formed -- it names nothing *)
Definition world := url -> option (list cand).

Definition refs_at (w : world) (u : url) : list url :=
  match w u with Some d => refs d | None => [] end.

Fixpoint umem (u : url) (l : list url) : bool :=
  match l with [] => false | k :: r => N.eqb k u || umem u r end.

(* the loader: fetch what is named, once each; [todo] starts as the URL the
   caller named.  Result: the URLs asked of the store / transport. *)
Fixpoint load (fuel : nat) (w : world) (todo seen : list url) : list url :=
  match fuel with
  | O => []
  | S f =>
    match todo with
    | [] => []
    | u :: r =>
      if umem u seen then load f w r seen
      else u :: load f w (r ++ refs_at w u) (u :: seen)
    end
  end.

(* named, transitively, starting from the caller's URLs *)
Inductive named (w : world) (roots : list url) : url -> Prop :=
| named_root u : In u roots -> named w roots u
| named_ref v u : named w roots v -> In u (refs_at w v) -> named w roots u.

(* ---- what the harness evaluates ---- *)

Record lcase := mkLcase {
  lc_root : url;
  lc_docs : list (url * list cand);      (* the documents of the scenario, as parsed independently of suds *)
  lc_fetched : list url;                 (* what suds asked its store / transport for (or opened itself) *)
  lc_ok : bool                           (* the load succeeded *)
}.

Fixpoint assoc (u : url) (l : list (url * list cand)) : option (list cand) :=
  match l with [] => None | (k, d) :: r => if N.eqb k u then Some d else assoc u r end.

Definition lc_world (c : lcase) : world := fun u => assoc u (lc_docs c).

Definition load_fuel : nat := 64.

Definition usubset (a b : list url) : bool := forallb (fun x => umem x b) a.

(* the property text: nothing but named documents is fetched *)
Definition load_spec_ok (c : lcase) : bool :=
  usubset (lc_fetched c) (load load_fuel (lc_world c) [lc_root c] []).

(* model = implementation: a successful load fetched exactly the named documents *)
Definition load_agrees (c : lcase) : bool :=
  if lc_ok c then
    usubset (lc_fetched c) (load load_fuel (lc_world c) [lc_root c] [])
    && usubset (load load_fuel (lc_world c) [lc_root c] []) (lc_fetched c)
  else true.
