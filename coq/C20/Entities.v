(* C20 -- Parsing never reaches outside the document.

   Model of the XML reader suds uses (pyexpat driven by xml.sax.expatreader,
   feeding suds.sax.parser.Handler) at the level of a document AST:

     doc  =  XML declaration's standalone flag, optional external subset
             (system identifier), internal subset (entity / attribute-list
             declarations and parameter-entity references), body tokens.

   Everything the reader could load from outside the document goes through ONE
   function, [ext_ref], the mirror of
   xml.sax.expatreader.ExpatParser.external_entity_ref:

        if not self._external_ges: return 1          (nothing read)
        source = self._ent_handler.resolveEntity(pubid, sysid) ; open it ...

   The outside world is the ORACLE [resolve : sysid -> option resource]; every
   consultation is logged (= a file open / URL fetch).  The functions below
   follow expat's doProlog / doContent / appendAttributeValue rules (see the
   comments at each case), suds' Handler is the stack machine [handler_run].

   Names and system identifiers are interned by the harness as small N.
   No proofs in this file. *)
From SV Require Import Lib.Base.

Definition name := N.
Definition sysid := N.

(* ------------------------------------------------------------------ *)
(* documents                                                           *)
(* ------------------------------------------------------------------ *)

(* attribute value literal in a start tag: text and entity references *)
Inductive atok :=
| AText (s : str)
| ARef (n : name).

(* content tokens; also the replacement text of a general entity *)
Inductive tok :=
| TText (s : str)
| TRef (n : name)
| TOpen (nm : name) (attrs : list (name * list atok))
| TClose (nm : name).

(* markup declarations of a DTD subset *)
Inductive decl :=
| DGenInt (n : name) (v : list tok)          (* <!ENTITY n "v">                     *)
| DGenExt (n : name) (s : sysid)             (* <!ENTITY n SYSTEM "s"> (or PUBLIC)  *)
| DGenNdata (n : name) (s : sysid)           (* <!ENTITY n SYSTEM "s" NDATA x>      *)
| DParInt (n : name) (v : list decl)         (* <!ENTITY % n "declarations">        *)
| DParExt (n : name) (s : sysid)             (* <!ENTITY % n SYSTEM "s">            *)
| DParRef (n : name)                         (* %n;  between declarations           *)
| DAttDef (el att : name) (v : list atok).   (* <!ATTLIST el att CDATA "v">         *)

(* the standalone pseudo-attribute of the XML declaration: absent (also: no
   XML declaration at all), "yes" or "no" *)
Inductive sdecl := SAbsent | SYes | SNo.

Record doc := mkDoc {
  d_sdecl : sdecl;                (* <?xml version=... encoding=... standalone=...?> *)
  d_ext : option sysid;           (* <!DOCTYPE r SYSTEM "..." / PUBLIC ".." "..." *)
  d_subset : list decl;           (* [ internal subset ] *)
  d_body : list tok
}.

(* expat: only standalone="yes" sets dtd->standalone (and switches parameter
   entity parsing to NEVER); "no" is the default and the same as absent *)
Definition d_standalone (x : doc) : bool :=
  match d_sdecl x with SYes => true | _ => false end.

(* what a system identifier may lead to *)
Inductive resource :=
| RText (v : list tok)            (* an external parsed entity *)
| RDtd (v : list decl).           (* an external DTD subset / parameter entity *)

(* ------------------------------------------------------------------ *)
(* reader configuration, oracle, results                               *)
(* ------------------------------------------------------------------ *)

Record config := mkConfig { ges : bool }.      (* feature_external_ges of the live parser *)

Inductive outcome (A : Type) :=
| Ok (a : A)
| Err                 (* SAXParseException / any exception out of parse *)
| Fuel.               (* model ran out of fuel: never a verdict *)
Arguments Ok {A} a.
Arguments Err {A}.
Arguments Fuel {A}.

Definition logged (A : Type) := (list sysid * outcome A)%type.

Definition ret {A} (a : A) : logged A := ([], Ok a).
Definition fail {A} : logged A := ([], Err).
Definition nofuel {A} : logged A := ([], Fuel).

Definition bind {A B} (m : logged A) (f : A -> logged B) : logged B :=
  match m with
  | (l1, Ok a) => let (l2, r) := f a in (l1 ++ l2, r)
  | (l1, Err) => (l1, Err)
  | (l1, Fuel) => (l1, Fuel)
  end.

(* outcome-only bind (attribute values never touch the oracle) *)
Definition obind {A B} (m : outcome A) (f : A -> outcome B) : outcome B :=
  match m with Ok a => f a | Err => Err | Fuel => Fuel end.

Definition lift {A} (m : outcome A) : logged A := ([], m).

Inductive ext_result :=
| Skipped                 (* handler returned 1 without reading anything *)
| Failed                  (* the resource could not be opened *)
| Got (r : resource).

(* xml.sax.expatreader.ExpatParser.external_entity_ref: the ONE gate.  It is
   the handler for external general entities, external parameter entities and
   the external DTD subset alike. *)
Definition ext_ref (cfg : config) (resolve : sysid -> option resource) (s : sysid)
  : list sysid * ext_result :=
  if ges cfg then ([s], match resolve s with Some r => Got r | None => Failed end)
  else ([], Skipped).

(* ------------------------------------------------------------------ *)
(* DTD state                                                           *)
(* ------------------------------------------------------------------ *)

Inductive gent := GInt (v : list tok) | GExt (s : sysid) | GNdata.
Inductive pent := PInt (v : list decl) | PExt (s : sysid).

Record dtd := mkDtd {
  gents : list (name * gent);               (* first declaration wins *)
  pents : list (name * pent);
  attdefs : list (name * (name * str));     (* element -> (attribute, default) *)
  has_pe_refs : bool;                       (* dtd->hasParamEntityRefs *)
  keep : bool;                              (* dtd->keepProcessing *)
  standalone : bool                         (* dtd->standalone *)
}.

Definition set_gents d g := mkDtd g (pents d) (attdefs d) (has_pe_refs d) (keep d) (standalone d).
Definition set_pents d p := mkDtd (gents d) p (attdefs d) (has_pe_refs d) (keep d) (standalone d).
Definition set_attdefs d a := mkDtd (gents d) (pents d) a (has_pe_refs d) (keep d) (standalone d).
Definition set_has_pe d b := mkDtd (gents d) (pents d) (attdefs d) b (keep d) (standalone d).
Definition set_keep d b := mkDtd (gents d) (pents d) (attdefs d) (has_pe_refs d) b (standalone d).

Fixpoint lookup {A} (n : name) (l : list (name * A)) : option A :=
  match l with
  | [] => None
  | (k, v) :: r => if N.eqb k n then Some v else lookup n r
  end.

Fixpoint mem (n : name) (l : list name) : bool :=
  match l with [] => false | k :: r => N.eqb k n || mem n r end.

(* the five predefined entities have reserved name ids 1..5 *)
Definition predefined (n : name) : option N :=
  (if N.eqb n 1 then Some 60          (* lt   *)
   else if N.eqb n 2 then Some 62     (* gt   *)
   else if N.eqb n 3 then Some 38     (* amp  *)
   else if N.eqb n 4 then Some 34     (* quot *)
   else if N.eqb n 5 then Some 39     (* apos *)
   else None)%N.

Definition is_some {A} (o : option A) : bool := match o with Some _ => true | None => false end.

(* declare: XML_ROLE_GENERAL_ENTITY_NAME / PARAM_ENTITY_NAME -- ignored when
   keepProcessing is off, when the name is predefined, or when already declared *)
Definition declare_gen (d : dtd) (n : name) (e : gent) : dtd :=
  if is_some (predefined n) then d
  else if negb (keep d) then d
  else if is_some (lookup n (gents d)) then d
  else set_gents d (gents d ++ [(n, e)]).

Definition declare_par (d : dtd) (n : name) (e : pent) : dtd :=
  if negb (keep d) then d
  else if is_some (lookup n (pents d)) then d
  else set_pents d (pents d ++ [(n, e)]).

Fixpoint has_attdef (el att : name) (l : list (name * (name * str))) : bool :=
  match l with
  | [] => false
  | (e, (a, _)) :: r => (N.eqb e el && N.eqb a att) || has_attdef el att r
  end.

(* ------------------------------------------------------------------ *)
(* attribute values: appendAttributeValue                              *)
(* ------------------------------------------------------------------ *)

Definition tok_of_atok (a : atok) : tok :=
  match a with AText s => TText s | ARef n => TRef n end.

(* [check] = checkEntityDecl.  An entity's replacement text is re-read in
   attribute context: markup in it ('<') is an invalid token, a reference to
   an external entity is XML_ERROR_ATTRIBUTE_EXTERNAL_ENTITY_REF -- the
   external-entity handler is never involved.

   Shape of all three readers below: a non-recursive STEP for one token /
   declaration, taking the reader for nested replacement text as [rec]; a
   structural fold over the list; fuel only where an entity is opened. *)
Definition aval_step (rec : list name -> list tok -> outcome str)
  (d : dtd) (check : bool) (open : list name) (t : tok) : outcome str :=
  match t with
  | TText s => Ok s
  | TRef n =>
    match predefined n with
    | Some c => Ok [c]
    | None =>
      match lookup n (gents d) with
      | None => if check then Err else Ok []        (* silently dropped *)
      | Some e =>
        if mem n open then Err                      (* recursive entity reference *)
        else match e with
             | GNdata => Err                        (* binary entity *)
             | GExt _ => Err                        (* external entity in attribute *)
             | GInt v => rec (n :: open) v
             end
      end
    end
  | TOpen _ _ => Err
  | TClose _ => Err
  end.

Fixpoint run_aval (step : tok -> outcome str) (l : list tok) : outcome str :=
  match l with
  | [] => Ok []
  | t :: r => obind (step t) (fun s => obind (run_aval step r) (fun u => Ok (s ++ u)))
  end.

Fixpoint attval (fuel : nat) (d : dtd) (check : bool) (open : list name) (l : list tok)
  {struct fuel} : outcome str :=
  match fuel with
  | O => Fuel
  | S f => run_aval (aval_step (attval f d check) d check open) l
  end.

(* checkEntityDecl when called from content *)
Definition check_content (d : dtd) : bool := negb (has_pe_refs d) || standalone d.

(* checkEntityDecl when called from the prolog (ATTLIST default);
   in_ext = not prologState.documentEntity;  with standalone the parameter
   entities are never expanded, so no internal entity is open *)
Definition check_prolog (d : dtd) (in_ext : bool) : bool :=
  negb in_ext && (if standalone d then true else negb (has_pe_refs d)).

(* ------------------------------------------------------------------ *)
(* prolog: doProlog over the declarations                              *)
(* ------------------------------------------------------------------ *)

Section Reader.
Variable ext : sysid -> list sysid * ext_result.      (* = ext_ref cfg resolve *)

Definition call_ext (s : sysid) : logged ext_result :=
  let (l, r) := ext s in (l, Ok r).

Definition decl_step (rec : dtd -> bool -> list name -> list decl -> logged dtd)
  (fuel_att : nat) (in_ext : bool) (open : list name) (d : dtd) (x : decl) : logged dtd :=
  match x with
  | DGenInt n v => ret (declare_gen d n (GInt v))
  | DGenExt n s => ret (declare_gen d n (GExt s))
  | DGenNdata n s => ret (declare_gen d n GNdata)
  | DParInt n v => ret (declare_par d n (PInt v))
  | DParExt n s => ret (declare_par d n (PExt s))
  | DAttDef el att v =>
    if keep d then
      match attval fuel_att d (check_prolog d in_ext) [] (map tok_of_atok v) with
      | Ok s => ret (if has_attdef el att (attdefs d) then d
                     else set_attdefs d (attdefs d ++ [(el, (att, s))]))
      | Err => fail
      | Fuel => nofuel
      end
    else ret d
  | DParRef n =>
    (* XML_ROLE_PARAM_ENTITY_REF *)
    let d1 := set_has_pe d true in
    if standalone d then
      (* paramEntityParsing was switched to NEVER by the XML declaration *)
      ret (set_keep d1 true)
    else
      match lookup n (pents d1) with
      | None => ret (set_keep d1 false)               (* skipped entity *)
      | Some p =>
        if mem n open then fail                        (* recursive entity reference *)
        else match p with
             | PInt v => rec d1 in_ext (n :: open) v
             | PExt s =>
               bind (call_ext s) (fun x =>
                 match x with
                 | Skipped => ret (set_keep d1 false)  (* paramEntityRead = false *)
                 | Failed => fail
                 | Got (RDtd v) => rec d1 true (n :: open) v
                 | Got (RText _) => fail
                 end)
             end
      end
  end.

Fixpoint run_decls (step : dtd -> decl -> logged dtd) (d : dtd) (ds : list decl) : logged dtd :=
  match ds with
  | [] => ret d
  | x :: r => bind (step d x) (fun d' => run_decls step d' r)
  end.

Fixpoint prolog (fuel : nat) (d : dtd) (in_ext : bool) (open : list name) (ds : list decl)
  {struct fuel} : logged dtd :=
  match fuel with
  | O => nofuel
  | S f => run_decls (decl_step (prolog f) (S f) in_ext open) d ds
  end.

(* ------------------------------------------------------------------ *)
(* content: doContent, producing the SAX events                        *)
(* ------------------------------------------------------------------ *)

Inductive event :=
| EStart (nm : name) (attrs : list (name * str))
| EEnd (nm : name)
| EChars (s : str).

Fixpoint names_nodup (l : list name) : bool :=
  match l with [] => true | x :: r => negb (mem x r) && names_nodup r end.

(* specified attributes of a start tag, then the defaults of the element type
   that were not specified (storeAtts).  [open]: the entities whose replacement
   text is being read as content stay open while the tag's attribute values
   are evaluated (entity->open is a flag on the entity). *)
Fixpoint eval_attrs (fuel : nat) (d : dtd) (open : list name) (attrs : list (name * list atok))
  : outcome (list (name * str)) :=
  match attrs with
  | [] => Ok []
  | (a, v) :: r =>
    obind (attval fuel d (check_content d) open (map tok_of_atok v)) (fun s =>
    obind (eval_attrs fuel d open r) (fun t => Ok ((a, s) :: t)))
  end.

Fixpoint defaults_for (el : name) (have : list name) (l : list (name * (name * str)))
  : list (name * str) :=
  match l with
  | [] => []
  | (e, (a, s)) :: r =>
    if N.eqb e el && negb (mem a have) then (a, s) :: defaults_for el have r
    else defaults_for el have r
  end.

Definition start_tag (fuel : nat) (d : dtd) (open : list name) (nm : name)
  (attrs : list (name * list atok)) : outcome event :=
  if negb (names_nodup (map fst attrs)) then Err          (* duplicate attribute *)
  else obind (eval_attrs fuel d open attrs) (fun a =>
         Ok (EStart nm (a ++ defaults_for nm (map fst attrs) (attdefs d)))).

(* [tags]: open element names, innermost first.  [lvl]: startTagLevel of the
   entity being read -- an end tag may not close an element opened outside
   the entity, and the entity must end at the level it started
   (XML_ERROR_ASYNC_ENTITY).  Result: events and the tag stack afterwards. *)
Definition tok_step
  (rec : list name -> nat -> list name -> list tok -> logged (list event * list name))
  (fuel_att : nat) (d : dtd) (open : list name) (lvl : nat) (tags : list name) (t : tok)
  : logged (list event * list name) :=
  match t with
  | TText s => ret ([EChars s], tags)
  | TOpen nm attrs =>
    match start_tag fuel_att d open nm attrs with
    | Ok e => ret ([e], nm :: tags)
    | Err => fail
    | Fuel => nofuel
    end
  | TClose nm =>
    match tags with
    | [] => fail
    | t :: tags' =>
      if Nat.leb (length tags) lvl then fail                (* asynchronous entity *)
      else if N.eqb t nm then ret ([EEnd nm], tags')
           else fail                                        (* mismatched tag *)
    end
  | TRef n =>
    match predefined n with
    | Some c => ret ([EChars [c]], tags)
    | None =>
      match lookup n (gents d) with
      | None =>
        if check_content d then fail                        (* undefined entity *)
        else ret ([], tags)                                 (* skippedEntity: ignored by suds *)
      | Some e =>
        if mem n open then fail                             (* recursive entity reference *)
        else
          let inner (v : list tok) :=
            bind (rec (n :: open) (length tags) tags v) (fun x =>
              if Nat.eqb (length (snd x)) (length tags)
              then ret x
              else fail)                                    (* asynchronous entity *)
          in
          match e with
          | GNdata => fail                                  (* binary entity *)
          | GInt v => inner v
          | GExt s =>
            bind (call_ext s) (fun x =>
              match x with
              | Skipped => ret ([], tags)                   (* nothing included *)
              | Failed => fail
              | Got (RText v) => inner v
              | Got (RDtd _) => fail
              end)
          end
      end
    end
  end.

Fixpoint run_toks (step : list name -> tok -> logged (list event * list name))
  (tags : list name) (l : list tok) : logged (list event * list name) :=
  match l with
  | [] => ret ([], tags)
  | t :: r =>
    bind (step tags t) (fun x =>
    bind (run_toks step (snd x) r) (fun y => ret (fst x ++ fst y, snd y)))
  end.

Fixpoint content (fuel : nat) (d : dtd) (open : list name) (lvl : nat) (tags : list name)
  (l : list tok) {struct fuel} : logged (list event * list name) :=
  match fuel with
  | O => nofuel
  | S f => run_toks (tok_step (content f d) (S f) d open lvl) tags l
  end.

(* the body is one element: first token opens it, its end tag is the last token *)
Fixpoint depth_ok (depth : nat) (l : list tok) : bool :=
  match l with
  | [] => Nat.eqb depth 0
  | TOpen _ _ :: r => depth_ok (S depth) r
  | TClose _ :: r =>
    match depth with
    | O => false
    | S O => match r with [] => true | _ => false end
    | S k => depth_ok k r
    end
  | _ :: r => match depth with O => false | _ => depth_ok depth r end
  end.

Definition body_shape_ok (l : list tok) : bool :=
  match l with TOpen _ _ :: _ => depth_ok 0 l | _ => false end.

Definition dtd0 (x : doc) : dtd :=
  mkDtd [] [] [] (is_some (d_ext x))       (* XML_ROLE_DOCTYPE_SYSTEM_ID *)
        true (d_standalone x).

(* XML_ROLE_DOCTYPE_CLOSE: the external subset is asked for after the internal one *)
Definition doctype_close (fuel : nat) (x : doc) (d : dtd) : logged dtd :=
  match d_ext x with
  | None => ret d
  | Some s =>
    if d_standalone x then ret d            (* paramEntityParsing = NEVER *)
    else bind (call_ext s) (fun r =>
           match r with
           | Skipped => ret d
           | Failed => fail
           | Got (RDtd v) => prolog fuel d true [] v
           | Got (RText _) => fail
           end)
  end.

Definition read_events (fuel : nat) (x : doc) : logged (list event) :=
  bind (prolog fuel (dtd0 x) false [] (d_subset x)) (fun d1 =>
  bind (doctype_close fuel x d1) (fun d2 =>
    if body_shape_ok (d_body x)
    then bind (content fuel d2 [] 0 [] (d_body x)) (fun r =>
           match snd r with [] => ret (fst r) | _ => fail end)
    else fail)).

End Reader.

(* ------------------------------------------------------------------ *)
(* suds.sax.parser.Handler: events -> tree                             *)
(* ------------------------------------------------------------------ *)

Inductive rnode := RN (nm : name) (attrs : list (name * str)) (text : str) (kids : list rnode).

Record frame := mkFrame {
  f_name : name; f_attrs : list (name * str);
  f_buf : str;                 (* "".join(charbuffer) *)
  f_kids : list rnode          (* children, last first *)
}.

Definition is_ws (c : N) : bool :=
  (N.eqb c 32 || N.eqb c 9 || N.eqb c 10 || N.eqb c 13)%N.

Fixpoint lstrip (s : str) : str :=
  match s with [] => [] | c :: r => if is_ws c then lstrip r else s end.

Definition strip (s : str) : str := rev (lstrip (rev (lstrip s))).

(* endElement: text = joined buffer; trimmed only `if current:` (len = children) *)
Definition close_frame (f : frame) : rnode :=
  let kids := rev (f_kids f) in
  RN (f_name f) (f_attrs f)
     (match kids with [] => f_buf f | _ => strip (f_buf f) end) kids.

(* state: stack of open frames (innermost first) and the Document's children *)
Fixpoint handler (stack : list frame) (top : list rnode) (evs : list event)
  : option (list rnode) :=
  match evs with
  | [] => match stack with [] => Some (rev top) | _ => None end
  | EStart nm attrs :: r => handler (mkFrame nm attrs [] [] :: stack) top r
  | EChars s :: r =>
    match stack with
    | [] => None                                       (* Document has no charbuffer *)
    | f :: st => handler (mkFrame (f_name f) (f_attrs f) (f_buf f ++ s) (f_kids f) :: st) top r
    end
  | EEnd nm :: r =>
    match stack with
    | [] => None
    | f :: st =>
      if N.eqb (f_name f) nm then
        let n := close_frame f in
        match st with
        | [] => handler [] (n :: top) r
        | p :: st' => handler (mkFrame (f_name p) (f_attrs p) (f_buf p) (n :: f_kids p) :: st') top r
        end
      else None                                        (* "malformed document" *)
    end
  end.

(* Document.root() *)
Definition handler_run (evs : list event) : option rnode :=
  match handler [] [] evs with
  | Some (r :: _) => Some r
  | _ => None
  end.

(* preorder flattening, the form in which the harness reports suds' tree *)
Definition fnode := (nat * name * list (name * str) * str)%type.

Fixpoint flatten (depth : nat) (t : rnode) : list fnode :=
  match t with
  | RN nm attrs text kids => (depth, nm, attrs, text) :: flat_map (flatten (S depth)) kids
  end.

Fixpoint tree_chars (t : rnode) : list N :=
  match t with
  | RN _ attrs text kids => concat (map snd attrs) ++ text ++ flat_map tree_chars kids
  end.

Definition fnode_chars (f : fnode) : list N :=
  match f with (_, _, attrs, text) => concat (map snd attrs) ++ text end.

(* ------------------------------------------------------------------ *)
(* the reader and suds' entry points                                   *)
(* ------------------------------------------------------------------ *)

Definition read (fuel : nat) (cfg : config) (resolve : sysid -> option resource) (x : doc)
  : logged rnode :=
  bind (read_events (ext_ref cfg resolve) fuel x) (fun evs =>
    match handler_run evs with
    | Some t => ret t
    | None => fail
    end).

Definition io_log {A} (r : logged A) : list sysid := fst r.
Definition result {A} (r : logged A) : outcome A := snd r.

(* xml.sax.make_parser(): the library default of the feature is a parameter
   (0 on this interpreter, 1 on older ones) *)
Definition make_parser (lib_default : bool) : config := mkConfig lib_default.
Definition set_feature_ges (p : config) (v : bool) : config := mkConfig v.

(* suds.sax.parser.Parser.saxparser *)
Definition saxparser (lib_default : bool) : config :=
  set_feature_ges (make_parser lib_default) false.

(* the places where suds parses XML *)
Inductive entry :=
| EParseString        (* Parser().parse(string=...)                          *)
| EParseFile          (* Parser().parse(file=...)                            *)
| EClientReply        (* client._parse(reply) in process_reply                *)
| EClientMsg          (* client._parse(msg) for an injected message           *)
| EReaderFetch        (* DocumentReader.__fetch: WSDL / XSD / imports         *)
| EDocCacheGet.       (* DocumentCache.get                                    *)

(* what the caller of the entry point sees *)
Inductive entry_result :=
| RDoc (t : rnode)
| RNone               (* None: nothing to parse, or DocumentCache.get swallowing the error *)
| RRaise
| RFuel.

(* Parser.parse: sax, handler = self.saxparser(); sax.parse(source); handler.nodes[0] *)
Definition parser_parse (fuel : nat) (lib_default : bool) (resolve : sysid -> option resource)
  (x : doc) : logged rnode :=
  read fuel (saxparser lib_default) resolve x.

(* the configuration of the parser an entry point uses for document [x]: the
   document (its XML declaration, DOCTYPE, size, ...) has no say in it *)
Definition entry_config (e : entry) (lib_default : bool) (x : doc) : config :=
  match e with
  | EParseString | EParseFile | EClientReply | EClientMsg | EReaderFetch | EDocCacheGet =>
    saxparser lib_default
  end.

Definition entry_wrap (e : entry) (r : logged rnode) : list sysid * entry_result :=
  (fst r,
   match snd r with
   | Ok t => RDoc t
   | Fuel => RFuel
   | Err => match e with
            | EDocCacheGet => RNone       (* except Exception: ... self.purge(id) *)
            | _ => RRaise
            end
   end).

Definition entry_parse (e : entry) (fuel : nat) (lib_default : bool)
  (resolve : sysid -> option resource) (x : doc) : list sysid * entry_result :=
  entry_wrap e (read fuel (entry_config e lib_default x) resolve x).

(* ------------------------------------------------------------------ *)
(* what the harness evaluates                                          *)
(* ------------------------------------------------------------------ *)

Definition marker : N := 126%N.       (* '~' : only planted outside resources contain it *)

Inductive impl_result :=
| IDoc (t : list fnode)
| INone
| IRaise.

Record case := mkCase {
  c_entry : entry;
  c_lib_default : bool;          (* feature read from a fresh xml.sax.make_parser() *)
  c_live_ges : bool;             (* feature read from the parser suds actually used *)
  c_doc : doc;
  c_planted : list (sysid * resource);   (* contents of the planted files / URLs *)
  c_impl : impl_result;          (* what suds returned *)
  c_events : list sysid          (* audited accesses outside the allowed set, as system ids *)
}.

Definition oracle_of (l : list (sysid * resource)) : sysid -> option resource :=
  fun s => lookup s l.

Definition model_fuel : nat := 48.

Definition str_pair_eqb (a b : name * str) : bool :=
  N.eqb (fst a) (fst b) && str_eqb (snd a) (snd b).

(* attributes are compared as sets: suds keeps namespace declarations apart
   from the other attributes, so their relative order is not observable *)
Definition attrs_eqb (a b : list (name * str)) : bool :=
  Nat.eqb (length a) (length b)
  && forallb (fun x => existsb (str_pair_eqb x) b) a
  && forallb (fun x => existsb (str_pair_eqb x) a) b.

Definition fnode_eqb (a b : fnode) : bool :=
  match a, b with
  | (d1, n1, a1, t1), (d2, n2, a2, t2) =>
    Nat.eqb d1 d2 && N.eqb n1 n2 && attrs_eqb a1 a2 && str_eqb t1 t2
  end.

Definition result_eqb (m : entry_result) (i : impl_result) : bool :=
  match m, i with
  | RDoc t, IDoc f => list_eqb fnode_eqb (flatten 0 t) f
  | RNone, INone => true
  | RRaise, IRaise => true
  | _, _ => false
  end.

Fixpoint dedup (l : list N) : list N :=
  match l with [] => [] | x :: r => if mem x r then dedup r else x :: dedup r end.

Definition subset (a b : list N) : bool := forallb (fun x => mem x b) a.
Definition same_set (a b : list N) : bool := subset a b && subset b a.

(* the funnel: the parser instance suds used carries the flags the model says *)
Definition c20_flags_agree (c : case) : bool :=
  Bool.eqb (c_live_ges c) (ges (entry_config (c_entry c) (c_lib_default c) (c_doc c))).

(* model run with the flags read from the live parser and the planted world:
   same tree / same outcome, same set of outside accesses *)
Definition c20_model (c : case) : list sysid * entry_result :=
  entry_wrap (c_entry c)
    (read model_fuel (mkConfig (c_live_ges c)) (oracle_of (c_planted c)) (c_doc c)).

Definition c20_agrees (c : case) : bool :=
  let r := c20_model c in
  result_eqb (snd r) (c_impl c)
  && same_set (fst r) (filter (fun x => N.ltb x 9000) (c_events c)).   (* >= 9000: not a system id *)

(* the property text, on the implementation's own outputs: nothing outside the
   caller-named documents was opened / connected to / requested, and nothing
   planted outside the document shows up in the tree *)
Definition impl_chars (i : impl_result) : list N :=
  match i with IDoc t => flat_map fnode_chars t | _ => [] end.

Definition c20_spec_ok (c : case) : bool :=
  match c_events c with [] => true | _ => false end
  && negb (mem marker (impl_chars (c_impl c))).
