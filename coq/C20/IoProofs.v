(* C20 -- lemmas: with external general entities off the oracle is never
   consulted, and the reader does not depend on it. *)
From SV Require Import Lib.Base C20.Entities.

(* what external_entity_ref is when the feature is off *)
Definition ext_off : sysid -> list sysid * ext_result := fun _ => ([], Skipped).

Lemma ext_ref_off cfg resolve : ges cfg = false -> ext_ref cfg resolve = ext_off.
Proof. destruct cfg as [g]; simpl; intros ->; reflexivity. Qed.

Lemma bind_log_nil {A B} (m : logged A) (k : A -> logged B) :
  fst m = [] -> (forall a, fst (k a) = []) -> fst (bind m k) = [].
Proof.
  destruct m as [l [a| |]]; simpl; intros -> H; try reflexivity.
  specialize (H a). destruct (k a) as [l2 r]; simpl in *; assumption.
Qed.

Lemma call_ext_off_log s : fst (call_ext ext_off s) = [].
Proof. reflexivity. Qed.

Lemma prolog_log_off : forall fuel d in_ext open ds,
  fst (prolog ext_off fuel d in_ext open ds) = [].
Proof.
  induction fuel as [|f IH]; intros d in_ext open ds; [reflexivity|].
  simpl. revert d. induction ds as [|x r IHr]; intros d; [reflexivity|].
  destruct x; try (apply IHr).
  - (* DParRef *)
    destruct (standalone d); [apply IHr|].
    destruct (lookup n (pents (set_has_pe d true))) as [p|]; [|apply IHr].
    destruct (mem n open); [reflexivity|].
    destruct p as [v|s].
    + apply bind_log_nil; [apply IH|intros; apply IHr].
    + apply bind_log_nil; [apply call_ext_off_log|].
      intros [| |[v|v]]; try reflexivity; try apply IHr.
      apply bind_log_nil; [apply IH|intros; apply IHr].
  - (* DAttDef *)
    destruct (keep d); [|apply IHr].
    match goal with |- context [attval ?a ?b ?c ?e ?g] => destruct (attval a b c e g) end;
      try reflexivity. apply IHr.
Qed.
