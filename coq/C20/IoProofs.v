(* C20 -- lemmas: with external general entities off the oracle is never
   consulted, and the reader does not depend on it. *)
From SV Require Import Lib.Base C20.Entities.

(* what external_entity_ref is when the feature is off *)
Definition ext_off : sysid -> list sysid * ext_result := fun _ => ([], Skipped).

Lemma ext_ref_off cfg resolve : ges cfg = false -> ext_ref cfg resolve = ext_off.
Proof. destruct cfg as [g]; simpl; intros ->; reflexivity. Qed.

Lemma bind_log_nil {A B} (m : logged A) (k : A -> logged B) :
  fst m = [] -> (forall a, fst (k a) = []) -> fst (bind m k) = [].
Proof.
  destruct m as [l [a| |]]; simpl; intros -> H; try reflexivity.
  specialize (H a). destruct (k a) as [l2 r]; simpl in *; assumption.
Qed.

Definition quiet {A} (m : logged A) : Prop := fst m = [].

Lemma decl_step_quiet rec fa in_ext open d x :
  (forall d ie op ds, quiet (rec d ie op ds)) -> quiet (decl_step ext_off rec fa in_ext open d x).
Proof.
  intros Hrec. unfold quiet in *. destruct x; simpl; try reflexivity.
  - destruct (standalone d); [reflexivity|].
    destruct (lookup n _) as [p|]; [|reflexivity].
    destruct (mem n open); [reflexivity|].
    destruct p as [v|s]; [apply Hrec|reflexivity].
  - destruct (keep d); [|reflexivity].
    destruct (attval _ _ _ _ _); reflexivity.
Qed.

Lemma run_decls_quiet step : (forall d x, quiet (step d x)) ->
  forall ds d, quiet (run_decls step d ds).
Proof.
  intros Hs. induction ds as [|x r IH]; intros d; [reflexivity|].
  simpl. apply bind_log_nil; [apply Hs|intros; apply IH].
Qed.

Lemma prolog_quiet : forall fuel d in_ext open ds, quiet (prolog ext_off fuel d in_ext open ds).
Proof.
  induction fuel as [|f IH]; intros; [reflexivity|].
  simpl. apply run_decls_quiet. intros. apply decl_step_quiet. exact IH.
Qed.

Lemma tok_step_quiet rec fa d open lvl tags t :
  (forall op l tg v, quiet (rec op l tg v)) -> quiet (tok_step ext_off rec fa d open lvl tags t).
Proof.
  intros Hrec. unfold quiet in *. destruct t; simpl; try reflexivity.
  - destruct (predefined n); [reflexivity|].
    destruct (lookup n (gents d)) as [e|]; [|destruct (check_content d); reflexivity].
    destruct (mem n open); [reflexivity|].
    destruct e as [v|s|]; try reflexivity.
    apply bind_log_nil; [apply Hrec|]. intros x. destruct (Nat.eqb _ _); reflexivity.
  - destruct (start_tag _ _ _ _ _); reflexivity.
  - destruct tags; [reflexivity|]. destruct (Nat.leb _ _); [reflexivity|].
    destruct (N.eqb _ _); reflexivity.
Qed.

Lemma run_toks_quiet step : (forall tags t, quiet (step tags t)) ->
  forall l tags, quiet (run_toks step tags l).
Proof.
  intros Hs. induction l as [|t r IH]; intros tags; [reflexivity|].
  simpl. apply bind_log_nil; [apply Hs|]. intros x.
  apply bind_log_nil; [apply IH|reflexivity].
Qed.

Lemma content_quiet : forall fuel d open lvl tags l, quiet (content ext_off fuel d open lvl tags l).
Proof.
  induction fuel as [|f IH]; intros; [reflexivity|].
  simpl. apply run_toks_quiet. intros. apply tok_step_quiet. intros; apply IH.
Qed.

Lemma read_events_quiet fuel x : quiet (read_events ext_off fuel x).
Proof.
  unfold read_events. apply bind_log_nil; [apply prolog_quiet|]. intros d1.
  apply bind_log_nil.
  - unfold doctype_close. destruct (d_ext x); [|reflexivity].
    destruct (d_standalone x); [reflexivity|].
    apply bind_log_nil; [reflexivity|]. intros [| |[v|v]]; try reflexivity.
    apply prolog_quiet.
  - intros d2. destruct (body_shape_ok _); [|reflexivity].
    apply bind_log_nil; [apply content_quiet|]. intros r. destruct (snd r); reflexivity.
Qed.

Lemma read_quiet fuel cfg resolve x : ges cfg = false -> io_log (read fuel cfg resolve x) = [].
Proof.
  intros H. unfold read, io_log. rewrite (ext_ref_off _ _ H).
  apply bind_log_nil; [apply read_events_quiet|]. intros evs.
  destruct (handler_run evs); reflexivity.
Qed.

Lemma read_oracle_independent fuel cfg r1 r2 x : ges cfg = false ->
  read fuel cfg r1 x = read fuel cfg r2 x.
Proof. intros H. unfold read. rewrite !(ext_ref_off _ _ H). reflexivity. Qed.

(* the same two facts for every suds entry point *)
Lemma entry_config_off e lib_default x : ges (entry_config e lib_default x) = false.
Proof. destruct e; reflexivity. Qed.

Lemma entry_quiet e fuel lib_default resolve x :
  fst (entry_parse e fuel lib_default resolve x) = [].
Proof. unfold entry_parse, entry_wrap; simpl. apply read_quiet, entry_config_off. Qed.

Lemma entry_oracle_independent e fuel lib_default r1 r2 x :
  entry_parse e fuel lib_default r1 x = entry_parse e fuel lib_default r2 x.
Proof.
  unfold entry_parse. rewrite (read_oracle_independent fuel _ r1 r2 x (entry_config_off e lib_default x)).
  reflexivity.
Qed.

(* standalone="no" in the XML declaration is the same document as no
   standalone pseudo-attribute, for every configuration and every world *)
Lemma read_standalone_no fuel cfg resolve ext subset body :
  read fuel cfg resolve (mkDoc SNo ext subset body) = read fuel cfg resolve (mkDoc SAbsent ext subset body).
Proof. reflexivity. Qed.
