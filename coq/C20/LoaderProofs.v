(* C20 -- lemmas about the loader model (C20/Loader.v). *)
From SV Require Import Lib.Base C20.Loader.

Lemma named_mono j w r1 r2 u : incl r1 r2 -> named j w r1 u -> named j w r2 u.
Proof.
  intros Hi H. induction H as [u Hu|v u _ IH Hin].
  - apply named_root. apply Hi. exact Hu.
  - eapply named_ref; eauto.
Qed.

(* one loader step keeps the named set: what is named from the new work list
   was named from the old one *)
Lemma named_step j w t r seen u :
  named j w ((r ++ refs_at j w t) ++ t :: seen) u -> named j w ((t :: r) ++ seen) u.
Proof.
  intros H. induction H as [x Hx|v x _ IHv Hin].
  - apply in_app_or in Hx as [Hx|Hx].
    + apply in_app_or in Hx as [Hx|Hx].
      * apply named_root. simpl. right. apply in_or_app. left. exact Hx.
      * eapply named_ref; [apply named_root; left; reflexivity|exact Hx].
    + destruct Hx as [<-|Hx]; apply named_root; simpl; [left; reflexivity|].
      right. apply in_or_app. right. exact Hx.
  - eapply named_ref; eauto.
Qed.

(* everything the loader fetches is named by the roots it was given or by
   the documents already seen *)
Lemma load_named_gen : forall fuel j w todo seen u,
  In u (load fuel j w todo seen) -> named j w (todo ++ seen) u.
Proof.
  induction fuel as [|f IH]; intros j w todo seen u; simpl; [intros []|].
  destruct todo as [|t r]; [intros []|].
  destruct (umem t seen) eqn:Em.
  - intros H. apply IH in H. eapply named_mono; [|exact H].
    intros x Hx. simpl. right. exact Hx.
  - intros [<-|H].
    + apply named_root. left. reflexivity.
    + apply IH in H. apply named_step. exact H.
Qed.

Lemma load_named fuel j w root u : In u (load fuel j w [root] []) -> named j w [root] u.
Proof. intros H. apply load_named_gen in H. exact H. Qed.

(* namespace-awareness: an element that is neither in the XSD nor in the WSDL
   namespace names nothing -- whatever its local name, position, schemaLocation
   and location attributes *)
Lemma foreign_ref_of c : fst (c_name c) <> ns_xsd -> fst (c_name c) <> ns_wsdl -> ref_of c = None.
Proof.
  intros Hx Hw. unfold ref_of, is_wsdl_import, is_xsd_ref_name.
  apply N.eqb_neq in Hx. apply N.eqb_neq in Hw. rewrite Hx, Hw. reflexivity.
Qed.

(* an XSD-namespace import / include that is not a child of a schema in schema
   position (e.g. inside annotation/appinfo) names nothing either *)
Lemma misplaced_ref_of c :
  in_schema_position (c_path c) = false -> fst (c_name c) = ns_xsd -> ref_of c = None.
Proof.
  intros Hp Hx. unfold ref_of, is_wsdl_import. rewrite Hx, Hp.
  change (N.eqb ns_xsd ns_wsdl) with false. simpl. rewrite andb_false_r. reflexivity.
Qed.

(* an import / include without a location attribute names nothing: a namespace
   is an identifier, not an address *)
Lemma no_location_ref_of c : c_sloc c = None -> c_loc c = None -> ref_of c = None.
Proof.
  intros Hs Hl. unfold ref_of. rewrite Hs, Hl.
  destruct (_ && _); [reflexivity|]. destruct (_ && _); reflexivity.
Qed.

Lemma refs_app j base a b : refs j base (a ++ b) = refs j base a ++ refs j base b.
Proof.
  induction a as [|c r IH]; simpl; [reflexivity|].
  destruct (ref_of c); simpl; rewrite IH; reflexivity.
Qed.

(* adding foreign-namespace look-alikes anywhere in a document does not change
   what it names *)
Lemma refs_insert_foreign j base a c b :
  fst (c_name c) <> ns_xsd -> fst (c_name c) <> ns_wsdl ->
  refs j base (a ++ c :: b) = refs j base (a ++ b).
Proof.
  intros Hx Hw. rewrite !refs_app. simpl. rewrite (foreign_ref_of c Hx Hw). reflexivity.
Qed.

(* references are resolved against the URL of the document that contains them:
   what document [u] names depends on the joiner at base [u] only *)
Lemma refs_join_local j1 j2 base d :
  (forall r, j1 base r = j2 base r) -> refs j1 base d = refs j2 base d.
Proof.
  intros H. induction d as [|c r IH]; simpl; [reflexivity|].
  destruct (ref_of c) as [[u|q]|]; simpl; rewrite ?IH, ?H; reflexivity.
Qed.

Lemma refs_at_join_local j1 j2 w u :
  (forall r, j1 u r = j2 u r) -> refs_at j1 w u = refs_at j2 w u.
Proof. intros H. unfold refs_at. destruct (w u); [apply refs_join_local; exact H|reflexivity]. Qed.

(* What a load fetches is a function of the documents it names, and of
   nothing else: two settings (joiner, world) that agree on what the NAMED
   documents name are loaded alike -- whatever else the worlds contain
   (documents of earlier loads, decoys at other locations, ...). *)
Lemma load_local : forall fuel j1 w1 j2 w2 todo seen,
  (forall u, named j1 w1 (todo ++ seen) u -> refs_at j1 w1 u = refs_at j2 w2 u) ->
  load fuel j1 w1 todo seen = load fuel j2 w2 todo seen.
Proof.
  induction fuel as [|f IH]; intros j1 w1 j2 w2 todo seen H; simpl; [reflexivity|].
  destruct todo as [|t r]; [reflexivity|].
  destruct (umem t seen).
  - apply IH. intros u Hu. apply H. eapply named_mono; [|exact Hu].
    intros x Hx. simpl. right. exact Hx.
  - assert (Ht : refs_at j1 w1 t = refs_at j2 w2 t).
    { apply H. apply named_root. left. reflexivity. }
    rewrite <- Ht. f_equal. apply IH. intros u Hu. apply H. apply named_step. exact Hu.
Qed.

Lemma load_ext fuel j w1 w2 todo seen :
  (forall u, refs_at j w1 u = refs_at j w2 u) -> load fuel j w1 todo seen = load fuel j w2 todo seen.
Proof. intros H. apply load_local. intros u _. apply H. Qed.
