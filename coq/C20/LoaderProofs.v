(* C20 -- lemmas about the loader model (C20/Loader.v). *)
From SV Require Import Lib.Base C20.Loader.

Lemma named_mono w r1 r2 u : incl r1 r2 -> named w r1 u -> named w r2 u.
Proof.
  intros Hi H. induction H as [u Hu|v u _ IH Hin].
  - apply named_root. apply Hi. exact Hu.
  - eapply named_ref; eauto.
Qed.

(* everything the loader fetches is named by the roots it was given or by
   the documents already seen *)
Lemma load_named_gen : forall fuel w todo seen u,
  In u (load fuel w todo seen) -> named w (todo ++ seen) u.
Proof.
  induction fuel as [|f IH]; intros w todo seen u; simpl; [intros []|].
  destruct todo as [|t r]; [intros []|].
  destruct (umem t seen) eqn:Em.
  - intros H. apply IH in H. eapply named_mono; [|exact H].
    intros x Hx. simpl. right. exact Hx.
  - intros [<-|H].
    + apply named_root. left. reflexivity.
    + apply IH in H.
      (* roots (r ++ refs_at w t) ++ t :: seen are all named from t :: r ++ seen *)
      clear IH. induction H as [x Hx|v x _ IHv Hin].
      * apply in_app_or in Hx as [Hx|Hx].
        -- apply in_app_or in Hx as [Hx|Hx].
           ++ apply named_root. simpl. right. apply in_or_app. left. exact Hx.
           ++ eapply named_ref; [apply named_root; left; reflexivity|exact Hx].
        -- destruct Hx as [<-|Hx]; apply named_root; simpl; [left; reflexivity|].
           right. apply in_or_app. right. exact Hx.
      * eapply named_ref; eauto.
Qed.

Lemma load_named fuel w root u : In u (load fuel w [root] []) -> named w [root] u.
Proof. intros H. apply load_named_gen in H. exact H. Qed.

(* namespace-awareness: an element that is neither in the XSD nor in the WSDL
   namespace names nothing -- whatever its local name, position, schemaLocation
   and location attributes *)
Lemma foreign_ref_of c : fst (c_name c) <> ns_xsd -> fst (c_name c) <> ns_wsdl -> ref_of c = None.
Proof.
  intros Hx Hw. unfold ref_of, is_wsdl_import, is_xsd_ref_name.
  apply N.eqb_neq in Hx. apply N.eqb_neq in Hw. rewrite Hx, Hw. reflexivity.
Qed.

(* an XSD-namespace import / include that is not a child of a schema in schema
   position (e.g. inside annotation/appinfo) names nothing either *)
Lemma misplaced_ref_of c :
  in_schema_position (c_path c) = false -> fst (c_name c) = ns_xsd -> ref_of c = None.
Proof.
  intros Hp Hx. unfold ref_of, is_wsdl_import. rewrite Hx, Hp.
  change (N.eqb ns_xsd ns_wsdl) with false. simpl. rewrite andb_false_r. reflexivity.
Qed.

Lemma refs_app a b : refs (a ++ b) = refs a ++ refs b.
Proof.
  induction a as [|c r IH]; simpl; [reflexivity|].
  destruct (ref_of c); simpl; rewrite IH; reflexivity.
Qed.

(* adding foreign-namespace look-alikes anywhere in a document does not change
   what it names *)
Lemma refs_insert_foreign a c b :
  fst (c_name c) <> ns_xsd -> fst (c_name c) <> ns_wsdl -> refs (a ++ c :: b) = refs (a ++ b).
Proof.
  intros Hx Hw. rewrite !refs_app. simpl. rewrite (foreign_ref_of c Hx Hw). reflexivity.
Qed.

(* ... hence not what the loader fetches: two worlds whose documents name the
   same things are loaded alike *)
Lemma load_ext : forall fuel w1 w2 todo seen,
  (forall u, refs_at w1 u = refs_at w2 u) -> load fuel w1 todo seen = load fuel w2 todo seen.
Proof.
  induction fuel as [|f IH]; intros w1 w2 todo seen H; simpl; [reflexivity|].
  destruct todo as [|t r]; [reflexivity|].
  destruct (umem t seen); [apply IH; exact H|].
  rewrite (H t). f_equal. apply IH. exact H.
Qed.
