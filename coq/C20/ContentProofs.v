(* C20 -- lemmas: with external general entities off, every character of the
   tree suds builds comes from the document's own literals (body text,
   attribute literals, internal entity values, attribute defaults) or is one
   of the five predefined characters.  [A] is any predicate on characters
   that holds of those; it then holds of every character in the tree. *)
From SV Require Import Lib.Base C20.Entities C20.IoProofs.

Lemma bind_ok_inv {A B} (m : logged A) (k : A -> logged B) lg b :
  bind m k = (lg, Ok b) -> exists l1 a l2, m = (l1, Ok a) /\ k a = (l2, Ok b).
Proof.
  destruct m as [l1 [a| |]]; simpl; try discriminate.
  destruct (k a) as [l2 r] eqn:E. intros H; inversion H; subst.
  exists l1, a, l2. split; [reflexivity|exact E].
Qed.

Lemma obind_ok_inv {A B} (m : outcome A) (k : A -> outcome B) b :
  obind m k = Ok b -> exists a, m = Ok a /\ k a = Ok b.
Proof. destruct m as [a| |]; simpl; try discriminate. intros H; exists a; split; auto. Qed.

Lemma lookup_In {V} n (l : list (name * V)) v : lookup n l = Some v -> In (n, v) l.
Proof.
  induction l as [|[k w] r IH]; simpl; [discriminate|].
  destruct (N.eqb k n) eqn:E.
  - intros H; inversion H; subst. apply N.eqb_eq in E; subst. left; reflexivity.
  - intros H; right; apply IH; exact H.
Qed.

Section Chars.
Variable A : N -> Prop.
Hypothesis A_predef : forall n c, predefined n = Some c -> A c.

Definition atok_in (a : atok) : Prop := match a with AText s => Forall A s | ARef _ => True end.
Definition attrs_lit_in (attrs : list (name * list atok)) : Prop :=
  Forall (fun p => Forall atok_in (snd p)) attrs.
Definition tok_in (t : tok) : Prop :=
  match t with
  | TText s => Forall A s
  | TOpen _ attrs => attrs_lit_in attrs
  | _ => True
  end.

Fixpoint decl_in (x : decl) : Prop :=
  match x with
  | DGenInt _ v => Forall tok_in v
  | DParInt _ v => (fix all (l : list decl) : Prop :=
                      match l with [] => True | y :: r => decl_in y /\ all r end) v
  | DAttDef _ _ v => Forall atok_in v
  | _ => True
  end.

Fixpoint decls_in (l : list decl) : Prop :=
  match l with [] => True | y :: r => decl_in y /\ decls_in r end.

Lemma decl_in_par n v : decl_in (DParInt n v) = decls_in v.
Proof. simpl. induction v as [|y r IH]; simpl; [reflexivity|]. rewrite IH. reflexivity. Qed.

Definition doc_in (x : doc) : Prop := decls_in (d_subset x) /\ Forall tok_in (d_body x).

Definition vals_in (l : list (name * str)) : Prop := Forall (fun p => Forall A (snd p)) l.

Definition dtd_in (d : dtd) : Prop :=
  (forall n v, In (n, GInt v) (gents d) -> Forall tok_in v) /\
  (forall n v, In (n, PInt v) (pents d) -> decls_in v) /\
  (forall e a s, In (e, (a, s)) (attdefs d) -> Forall A s).

(* ---- attribute values ---- *)

Lemma aval_step_in rec d check open t s :
  (forall op v u, Forall tok_in v -> rec op v = Ok u -> Forall A u) ->
  dtd_in d -> tok_in t -> aval_step rec d check open t = Ok s -> Forall A s.
Proof.
  intros Hrec [Hg _] Ht. destruct t; simpl; try discriminate.
  - intros H; inversion H; subst. exact Ht.
  - destruct (predefined n) as [c|] eqn:Ep.
    + intros H; inversion H; subst. constructor; [eapply A_predef; eauto|constructor].
    + destruct (lookup n (gents d)) as [e|] eqn:El.
      * destruct (mem n open); [discriminate|].
        destruct e as [v| |]; try discriminate.
        intros H. eapply Hrec; [|exact H]. eapply Hg. apply lookup_In. exact El.
      * destruct check; [discriminate|]. intros H; inversion H; constructor.
Qed.

Lemma run_aval_in step : (forall t s, tok_in t -> step t = Ok s -> Forall A s) ->
  forall l s, Forall tok_in l -> run_aval step l = Ok s -> Forall A s.
Proof.
  intros Hs. induction l as [|t r IH]; intros s Hl; simpl.
  - intros H; inversion H; constructor.
  - inversion Hl as [|? ? Ht Hr]; subst. intros H.
    apply obind_ok_inv in H as (s1 & E1 & H). apply obind_ok_inv in H as (s2 & E2 & H).
    inversion H; subst. apply Forall_app. split; [eapply Hs; eauto|eapply IH; eauto].
Qed.

Lemma attval_in : forall f d check open l s,
  dtd_in d -> Forall tok_in l -> attval f d check open l = Ok s -> Forall A s.
Proof.
  induction f as [|f IH]; intros d check open l s Hd Hl; simpl; [discriminate|].
  apply run_aval_in; [|exact Hl]. intros t u Ht. apply aval_step_in; auto.
  intros op v w Hv. apply IH; auto.
Qed.

Lemma toks_of_atoks_in v : Forall atok_in v -> Forall tok_in (map tok_of_atok v).
Proof.
  induction 1 as [|a r Ha _ IH]; simpl; constructor; [|exact IH].
  destruct a; simpl in *; auto.
Qed.

Lemma eval_attrs_in f d open : dtd_in d -> forall attrs l,
  attrs_lit_in attrs -> eval_attrs f d open attrs = Ok l -> vals_in l.
Proof.
  intros Hd. induction attrs as [|[a v] r IH]; intros l Ha; simpl.
  - intros H; inversion H; constructor.
  - inversion Ha as [|? ? Hv Hr]; subst. intros H.
    apply obind_ok_inv in H as (s & E1 & H). apply obind_ok_inv in H as (t & E2 & H).
    inversion H; subst. constructor; [|eapply IH; eauto].
    simpl. eapply attval_in; [exact Hd| |exact E1]. apply toks_of_atoks_in. exact Hv.
Qed.

Lemma defaults_for_in el have : forall l,
  (forall e a s, In (e, (a, s)) l -> Forall A s) -> vals_in (defaults_for el have l).
Proof.
  induction l as [|[e [a s]] r IH]; intros H; simpl; [constructor|].
  assert (Hr : vals_in (defaults_for el have r)).
  { apply IH. intros; eapply H; right; eauto. }
  destruct (N.eqb e el && negb (mem a have)); [|exact Hr].
  constructor; [|exact Hr]. simpl. eapply H. left; reflexivity.
Qed.

Definition event_in (e : event) : Prop :=
  match e with
  | EStart _ attrs => vals_in attrs
  | EEnd _ => True
  | EChars s => Forall A s
  end.

Lemma start_tag_in f d open nm attrs e :
  dtd_in d -> attrs_lit_in attrs -> start_tag f d open nm attrs = Ok e -> event_in e.
Proof.
  intros Hd Ha. unfold start_tag. destruct (negb _); [discriminate|].
  intros H. apply obind_ok_inv in H as (l & H1 & H). inversion H; subst. simpl.
  apply Forall_app. split; [eapply eval_attrs_in; eauto|].
  apply defaults_for_in. destruct Hd as (_ & _ & Hd). exact Hd.
Qed.

(* ---- prolog ---- *)

Lemma declare_gen_in d n e :
  dtd_in d -> (forall v, e = GInt v -> Forall tok_in v) -> dtd_in (declare_gen d n e).
Proof.
  intros Hd He. unfold declare_gen.
  destruct (is_some (predefined n)); [exact Hd|].
  destruct (negb (keep d)); [exact Hd|].
  destruct (is_some (lookup n (gents d))); [exact Hd|].
  destruct Hd as (Hg & Hp & Ha). split; [|split]; simpl; auto.
  intros m v Hin. apply in_app_or in Hin as [Hin|[Hin|[]]]; [eapply Hg; eauto|].
  inversion Hin; subst. apply He; reflexivity.
Qed.

Lemma declare_par_in d n e :
  dtd_in d -> (forall v, e = PInt v -> decls_in v) -> dtd_in (declare_par d n e).
Proof.
  intros Hd He. unfold declare_par.
  destruct (negb (keep d)); [exact Hd|].
  destruct (is_some (lookup n (pents d))); [exact Hd|].
  destruct Hd as (Hg & Hp & Ha). split; [|split]; simpl; auto.
  intros m v Hin. apply in_app_or in Hin as [Hin|[Hin|[]]]; [eapply Hp; eauto|].
  inversion Hin; subst. apply He; reflexivity.
Qed.

Lemma dtd_in_flags d b1 b2 : dtd_in d -> dtd_in (set_keep (set_has_pe d b1) b2).
Proof. intros H; exact H. Qed.

Lemma dtd_in_has_pe d b : dtd_in d -> dtd_in (set_has_pe d b).
Proof. intros H; exact H. Qed.

Definition rec_prolog_ok (rec : dtd -> bool -> list name -> list decl -> logged dtd) : Prop :=
  forall d ie op ds lg d', dtd_in d -> decls_in ds -> rec d ie op ds = (lg, Ok d') -> dtd_in d'.

Lemma decl_step_in rec fa in_ext open d x lg d' :
  rec_prolog_ok rec -> dtd_in d -> decl_in x ->
  decl_step ext_off rec fa in_ext open d x = (lg, Ok d') -> dtd_in d'.
Proof.
  intros Hrec Hd Hx. destruct x.
  - simpl. intros H; inversion H; subst. apply declare_gen_in; auto.
    intros v0 E; inversion E; subst. exact Hx.
  - simpl. intros H; inversion H; subst. apply declare_gen_in; auto. discriminate.
  - simpl. intros H; inversion H; subst. apply declare_gen_in; auto. discriminate.
  - intros H; simpl in H; inversion H; subst. apply declare_par_in; auto.
    intros v0 E; inversion E; subst. rewrite <- (decl_in_par n). exact Hx.
  - simpl. intros H; inversion H; subst. apply declare_par_in; auto. discriminate.
  - simpl. destruct (standalone d).
    { intros H; inversion H; subst. apply dtd_in_flags; exact Hd. }
    destruct (lookup n _) as [p|] eqn:El.
    2:{ intros H; inversion H; subst. apply dtd_in_flags; exact Hd. }
    destruct (mem n open); [discriminate|].
    destruct p as [v|s].
    + intros H. eapply Hrec; [| |exact H]; [apply dtd_in_has_pe; exact Hd|].
      destruct Hd as (_ & Hp & _). eapply Hp. apply lookup_In. exact El.
    + intros H; inversion H; subst. apply dtd_in_flags; exact Hd.
  - simpl. destruct (keep d); [|intros H; inversion H; subst; exact Hd].
    destruct (attval _ _ _ _ _) as [s| |] eqn:Ea; try discriminate.
    intros H; inversion H; subst.
    destruct (has_attdef el att (attdefs d)); [exact Hd|].
    assert (Hs : Forall A s).
    { eapply attval_in; [exact Hd| |exact Ea]. apply toks_of_atoks_in. exact Hx. }
    destruct Hd as (Hg & Hp & Ha). split; [|split]; simpl; auto.
    intros e a u Hin. apply in_app_or in Hin as [Hin|[Hin|[]]]; [eapply Ha; eauto|].
    inversion Hin; subst. exact Hs.
Qed.

Lemma run_decls_in step :
  (forall d x lg d', dtd_in d -> decl_in x -> step d x = (lg, Ok d') -> dtd_in d') ->
  forall ds d lg d', dtd_in d -> decls_in ds -> run_decls step d ds = (lg, Ok d') -> dtd_in d'.
Proof.
  intros Hs. induction ds as [|x r IH]; intros d lg d' Hd Hds; simpl.
  - intros H; inversion H; subst; exact Hd.
  - destruct Hds as [Hx Hr]. intros H.
    apply bind_ok_inv in H as (l1 & d1 & l2 & H1 & H2).
    eapply IH; [| |exact H2]; [eapply Hs; eauto|exact Hr].
Qed.

Lemma prolog_in : forall f, rec_prolog_ok (prolog ext_off f).
Proof.
  induction f as [|f IH]; intros d ie op ds lg d' Hd Hds; simpl; [discriminate|].
  apply run_decls_in; auto. intros d0 x lg0 d0' Hd0 Hx. apply decl_step_in; auto.
Qed.

(* ---- content ---- *)

Definition rec_content_ok
  (rec : list name -> nat -> list name -> list tok -> logged (list event * list name)) : Prop :=
  forall op l tg v lg r, Forall tok_in v -> rec op l tg v = (lg, Ok r) -> Forall event_in (fst r).

Lemma tok_step_in rec fa d open lvl tags t lg r :
  rec_content_ok rec -> dtd_in d -> tok_in t ->
  tok_step ext_off rec fa d open lvl tags t = (lg, Ok r) -> Forall event_in (fst r).
Proof.
  intros Hrec Hd Ht. destruct t; simpl.
  - intros H; inversion H; subst. simpl. constructor; [exact Ht|constructor].
  - destruct (predefined n) as [c|] eqn:Ep.
    { intros H; inversion H; subst. simpl. constructor; [|constructor].
      simpl. constructor; [eapply A_predef; eauto|constructor]. }
    destruct (lookup n (gents d)) as [e|] eqn:El.
    2:{ destruct (check_content d); [discriminate|]. intros H; inversion H; subst. constructor. }
    destruct (mem n open); [discriminate|].
    destruct e as [v|s|]; try discriminate.
    + intros H. apply bind_ok_inv in H as (l1 & x & l2 & H1 & H2).
      destruct (Nat.eqb _ _); [|discriminate]. inversion H2; subst.
      eapply Hrec; [|exact H1]. destruct Hd as (Hg & _ & _). eapply Hg. apply lookup_In. exact El.
    + intros H; inversion H; subst. constructor.
  - destruct (start_tag _ _ _ _ _) as [e| |] eqn:Es; try discriminate.
    intros H; inversion H; subst. simpl. constructor; [|constructor].
    eapply start_tag_in; eauto.
  - destruct tags as [|t tags']; [discriminate|].
    destruct (Nat.leb _ _); [discriminate|]. destruct (N.eqb _ _); [|discriminate].
    intros H; inversion H; subst. simpl. constructor; [exact I|constructor].
Qed.

Lemma run_toks_in step :
  (forall tags t lg r, tok_in t -> step tags t = (lg, Ok r) -> Forall event_in (fst r)) ->
  forall l tags lg r, Forall tok_in l -> run_toks step tags l = (lg, Ok r) -> Forall event_in (fst r).
Proof.
  intros Hs. induction l as [|t rest IH]; intros tags lg r Hl; simpl.
  - intros H; inversion H; subst. constructor.
  - inversion Hl as [|? ? Ht Hr]; subst. intros H.
    apply bind_ok_inv in H as (l1 & x & l2 & E1 & H).
    apply bind_ok_inv in H as (l3 & y & l4 & E2 & H). inversion H; subst. simpl.
    apply Forall_app. split; [eapply Hs; eauto|eapply IH; eauto].
Qed.

Lemma content_in : forall f d, dtd_in d -> rec_content_ok (content ext_off f d).
Proof.
  induction f as [|f IH]; intros d Hd op l tg v lg r Hv; simpl; [discriminate|].
  apply run_toks_in; auto. intros tags t lg0 r0 Ht. apply tok_step_in; auto.
Qed.

Lemma dtd0_in x : dtd_in (dtd0 x).
Proof. split; [|split]; simpl; intros; contradiction. Qed.

Lemma read_events_in f x lg evs :
  doc_in x -> read_events ext_off f x = (lg, Ok evs) -> Forall event_in evs.
Proof.
  intros [Hs Hb]. unfold read_events. intros H.
  apply bind_ok_inv in H as (l1 & d1 & l2 & H1 & H).
  apply bind_ok_inv in H as (l3 & d2 & l4 & H2 & H).
  assert (Hd1 : dtd_in d1) by (eapply prolog_in; [apply dtd0_in|exact Hs|exact H1]).
  assert (Hd2 : dtd_in d2).
  { unfold doctype_close in H2. destruct (d_ext x); [|inversion H2; subst; exact Hd1].
    destruct (d_standalone x); [inversion H2; subst; exact Hd1|].
    simpl in H2. inversion H2; subst; exact Hd1. }
  destruct (body_shape_ok _); [|discriminate].
  apply bind_ok_inv in H as (l5 & r & l6 & H3 & H).
  destruct (snd r); [|discriminate]. inversion H; subst.
  eapply content_in; eauto.
Qed.

(* ---- suds' Handler ---- *)

Definition tree_in (t : rnode) : Prop := Forall A (tree_chars t).

Definition frame_in (f : frame) : Prop :=
  vals_in (f_attrs f) /\ Forall A (f_buf f) /\ Forall tree_in (f_kids f).

Lemma Forall_concat_vals l : vals_in l -> Forall A (concat (map snd l)).
Proof.
  induction 1 as [|p r Hp _ IH]; simpl; [constructor|]. apply Forall_app; split; assumption.
Qed.

Lemma Forall_flat_map_trees l : Forall tree_in l -> Forall A (flat_map tree_chars l).
Proof.
  induction 1 as [|t r Ht _ IH]; simpl; [constructor|]. apply Forall_app; split; assumption.
Qed.

Lemma lstrip_in s : Forall A s -> Forall A (lstrip s).
Proof.
  induction 1 as [|c r Hc Hr IH]; simpl; [constructor|].
  destruct (is_ws c); [exact IH|constructor; assumption].
Qed.

Lemma strip_in s : Forall A s -> Forall A (strip s).
Proof.
  intros H. unfold strip. apply Forall_rev, lstrip_in, Forall_rev, lstrip_in, H.
Qed.

Lemma close_frame_in f : frame_in f -> tree_in (close_frame f).
Proof.
  intros (Ha & Hb & Hk). unfold close_frame, tree_in. simpl.
  assert (Hk' : Forall tree_in (rev (f_kids f))) by (apply Forall_rev; exact Hk).
  apply Forall_app; split; [apply Forall_concat_vals; exact Ha|].
  apply Forall_app; split; [|apply Forall_flat_map_trees; exact Hk'].
  destruct (rev (f_kids f)); [exact Hb|apply strip_in; exact Hb].
Qed.

Lemma handler_in : forall evs stack top ts,
  Forall event_in evs -> Forall frame_in stack -> Forall tree_in top ->
  handler stack top evs = Some ts -> Forall tree_in ts.
Proof.
  induction evs as [|e r IH]; intros stack top ts He Hs Ht; simpl.
  - destruct stack; [|discriminate]. intros H; inversion H; subst. apply Forall_rev; exact Ht.
  - inversion He as [|? ? He1 He2]; subst. destruct e as [nm attrs|nm|s].
    + apply IH; auto. constructor; [|exact Hs].
      split; [exact He1|split; constructor].
    + destruct stack as [|f st]; [discriminate|].
      destruct (N.eqb (f_name f) nm); [|discriminate].
      inversion Hs as [|? ? Hf Hst]; subst.
      pose proof (close_frame_in f Hf) as Hn.
      destruct st as [|p st'].
      * apply IH; auto.
      * apply IH; auto. inversion Hst as [|? ? Hp Hst']; subst.
        constructor; [|exact Hst'].
        destruct Hp as (Ha & Hb & Hk). split; [exact Ha|split; [exact Hb|]].
        simpl. constructor; assumption.
    + destruct stack as [|f st]; [discriminate|].
      inversion Hs as [|? ? Hf Hst]; subst. apply IH; auto.
      constructor; [|exact Hst]. destruct Hf as (Ha & Hb & Hk).
      split; [exact Ha|split; [|exact Hk]]. simpl. apply Forall_app; split; assumption.
Qed.

Lemma handler_run_in evs t : Forall event_in evs -> handler_run evs = Some t -> tree_in t.
Proof.
  intros He. unfold handler_run. destruct (handler [] [] evs) as [ts|] eqn:E; [|discriminate].
  destruct ts as [|r rest]; [discriminate|]. intros H; inversion H; subst.
  pose proof (handler_in evs [] [] (t :: rest) He (Forall_nil _) (Forall_nil _) E) as Hts.
  inversion Hts; assumption.
Qed.

Lemma read_in f cfg resolve x lg t :
  ges cfg = false -> doc_in x -> read f cfg resolve x = (lg, Ok t) -> tree_in t.
Proof.
  intros Hg Hx. unfold read. rewrite (ext_ref_off _ _ Hg). intros H.
  apply bind_ok_inv in H as (l1 & evs & l2 & H1 & H2).
  destruct (handler_run evs) as [t'|] eqn:Eh; [|discriminate]. inversion H2; subst.
  eapply handler_run_in; [|exact Eh]. eapply read_events_in; eauto.
Qed.

End Chars.

(* a character different from the five predefined ones *)
Definition predefined_chars_differ (m : N) : Prop :=
  forall n c, predefined n = Some c -> c <> m.
