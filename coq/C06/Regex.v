(* Regular expressions as suds.sax.date uses them (Python `re`, no MULTILINE):
   the AST the translator tools/tables_c06.py emits from the parse tree of the
   pattern strings of /repo, a denotational semantics with capture groups, and
   an executable matcher that enumerates the matches in Python's backtracking
   order (greedy quantifiers first, left alternative first).  Definitions
   only; the lemmas are in C06/RegexProofs.v. *)
From SV Require Import Lib.Base.

(* a character set is a union of inclusive code point ranges *)
Definition cset := list (N * N).

Inductive re :=
| Eps
| Bol                                         (* ^  : start of the string *)
| Eol                                         (* $  : end of the string or just before a final newline *)
| Chr (c : N)                                 (* a literal character *)
| Cls (rs : cset)                             (* [..], \d *)
| Rep (mn : nat) (mx : option nat) (rs : cset)  (* greedy {mn,mx} / + / ? of ONE character set *)
| Opt (a : re)                                (* greedy (?: .. )? *)
| Cat (a b : re)
| Alt (a b : re)                              (* a|b, a tried first *)
| Grp (name : str) (a : re).                  (* (?P<name> .. ) *)

Definition in_cls (rs : cset) (c : N) : bool :=
  existsb (fun r => (fst r <=? c)%N && (c <=? snd r)%N) rs.

(* captures: (group name, captured text) in the order the groups were closed;
   a later binding of the same name overrides an earlier one, a group that did
   not take part in the match has no binding (Python: group(name) is None) *)
Definition caps := list (str * str).

Fixpoint lookup (n : str) (e : caps) : option str :=
  match e with
  | [] => None
  | (m, v) :: e' =>
      match lookup n e' with
      | Some x => Some x
      | None => if str_eqb m n then Some v else None
      end
  end.

Definition is_nil {A} (l : list A) : bool := match l with [] => true | _ => false end.

Definition le_max (n : nat) (mx : option nat) : Prop :=
  match mx with Some m => (n <= m)%nat | None => True end.

(* ------------------------------------------------------------------ *)
(* denotational semantics                                              *)
(* ------------------------------------------------------------------ *)
(* M r pre w post e : in the subject string pre ++ w ++ post, r matches the
   segment w (starting right after pre) and binds the groups e *)
Fixpoint M (r : re) (pre w post : str) (e : caps) : Prop :=
  match r with
  | Eps => w = [] /\ e = []
  | Bol => pre = [] /\ w = [] /\ e = []
  | Eol => w = [] /\ e = [] /\ (post = [] \/ post = [10%N])
  | Chr c => w = [c] /\ e = []
  | Cls rs => exists c, w = [c] /\ in_cls rs c = true /\ e = []
  | Rep mn mx rs => forallb (in_cls rs) w = true /\ (mn <= length w)%nat /\ le_max (length w) mx /\ e = []
  | Opt a => M a pre w post e \/ (w = [] /\ e = [])
  | Cat a b => exists w1 w2 e1 e2, w = w1 ++ w2 /\ e = e1 ++ e2 /\
                 M a pre w1 (w2 ++ post) e1 /\ M b (pre ++ w1) w2 post e2
  | Alt a b => M a pre w post e \/ M b pre w post e
  | Grp n a => exists e1, M a pre w post e1 /\ e = e1 ++ [(n, w)]
  end.

(* compiled_pattern.match(s): anchored at position 0, the match may end anywhere *)
Definition re_matches (r : re) (s : str) (e : caps) : Prop :=
  exists w post, s = w ++ post /\ M r [] w post e.

(* ------------------------------------------------------------------ *)
(* executable matcher: all matches, in backtracking order              *)
(* ------------------------------------------------------------------ *)
(* greedy repetition of one character set: longest first *)
Fixpoint rep_run (rs : cset) (mn : nat) (mx : option nat) (s : str) : list (str * str) :=
  let stop := if Nat.eqb mn 0 then [([], s)] else [] in
  match s with
  | c :: s' =>
      if in_cls rs c && negb (match mx with Some O => true | _ => false end)
      then map (fun p => (c :: fst p, snd p)) (rep_run rs (pred mn) (option_map pred mx) s') ++ stop
      else stop
  | [] => stop
  end.

(* run r at0 s: the list of (matched segment, rest, captures), s being what is
   left of the subject; at0 tells whether nothing was consumed so far *)
Fixpoint run (r : re) (at0 : bool) (s : str) : list (str * str * caps) :=
  match r with
  | Eps => [([], s, [])]
  | Bol => if at0 then [([], s, [])] else []
  | Eol => match s with
           | [] => [([], s, [])]
           | [c] => if N.eqb c 10 then [([], s, [])] else []
           | _ => []
           end
  | Chr c => match s with
             | x :: s' => if N.eqb x c then [([x], s', [])] else []
             | [] => []
             end
  | Cls rs => match s with
              | x :: s' => if in_cls rs x then [([x], s', [])] else []
              | [] => []
              end
  | Rep mn mx rs => map (fun p => (fst p, snd p, [])) (rep_run rs mn mx s)
  | Opt a => run a at0 s ++ [([], s, [])]
  | Cat a b =>
      flat_map (fun x1 => match x1 with (w1, s1, e1) =>
                  map (fun x2 => match x2 with (w2, s2, e2) => (w1 ++ w2, s2, e1 ++ e2) end)
                      (run b (at0 && is_nil w1) s1) end)
               (run a at0 s)
  | Alt a b => run a at0 s ++ run b at0 s
  | Grp n a => map (fun x => match x with (w, s', e) => (w, s', e ++ [(n, w)]) end) (run a at0 s)
  end.

(* what pattern.match(s) returns: the first match in backtracking order *)
Definition exec_match (r : re) (s : str) : option caps :=
  match run r true s with
  | [] => None
  | (_, _, e) :: _ => Some e
  end.

(* names of the groups of a pattern, in order of their opening parenthesis *)
Fixpoint group_names (r : re) : list str :=
  match r with
  | Opt a => group_names a
  | Cat a b | Alt a b => group_names a ++ group_names b
  | Grp n a => n :: group_names a
  | _ => []
  end.

(* Match.groups() of the first match: one entry per group, None when unset *)
Definition exec_groups (r : re) (s : str) : option (list (option str)) :=
  match exec_match r s with
  | Some e => Some (map (fun n => lookup n e) (group_names r))
  | None => None
  end.
