(* C06 — XSD built-in values convert exactly and stay lexically valid.
   Property theorems only: each is closed by `exact` of a lemma proved in the
   *Proofs files and followed by Print Assumptions. *)
From SV Require Import Lib.Base C06.Decimal C06.DecimalProofs C06.Floats C06.BoolProofs.

(* Every Decimal (any number of digits, any exponent) is sent as a valid XSD
   decimal lexical form ... *)
Theorem decimal_lexical : forall neg ds e,
  canonical ds = true -> lex_decimal (decimal_to_xsd neg ds e) = true.
Proof. exact decimal_lexical_l. Qed.
Print Assumptions decimal_lexical.

(* ... denoting exactly (-1)^neg * digits * 10^e, nothing rounded ... *)
Theorem decimal_exact : forall neg ds e,
  canonical ds = true -> denotes (decimal_to_xsd neg ds e) neg ds e.
Proof. exact decimal_exact_l. Qed.
Print Assumptions decimal_exact.

(* ... and never in exponent notation. *)
Theorem decimal_no_exponent : forall neg ds e,
  canonical ds = true -> has_exponent (decimal_to_xsd neg ds e) = false.
Proof. exact decimal_no_exponent_l. Qed.
Print Assumptions decimal_no_exponent.

Example decimal_nonvacuous :
  canonical [1; 2; 0; 0]%Z = true /\
  decimal_to_xsd true [1; 2; 0; 0]%Z (-5) = [45; 48; 46; 48; 49; 50]%N.   (* "-0.012" *)
Proof. split; reflexivity. Qed.

(* booleans, over the dictionaries regenerated from the source *)
Theorem bool_roundtrip : forall b, exists s, bool_to_xml b = Some s /\ xml_to_bool s = Some b.
Proof. exact bool_roundtrip_l. Qed.
Print Assumptions bool_roundtrip.

Theorem bool_lexical : forall b, exists s, bool_to_xml b = Some s /\ lex_boolean_value s = Some b.
Proof. exact bool_lexical_l. Qed.
Print Assumptions bool_lexical.

Theorem bool_reads_all_lexical_forms :
  forall s b, lex_boolean_value s = Some b -> xml_to_bool s = Some b.
Proof. exact bool_reads_all_l. Qed.
Print Assumptions bool_reads_all_lexical_forms.
