(* C06 — XSD built-in values convert exactly and stay lexically valid.
   Property theorems only: each is closed by `exact` of a lemma proved in the
   *Proofs files and followed by Print Assumptions. *)
From SV Require Import Lib.Base C06.Decimal C06.DecimalProofs C06.Floats C06.BoolProofs.

(* Every Decimal (any number of digits, any exponent) is sent as a valid XSD
   decimal lexical form ... *)
Theorem decimal_lexical : forall neg ds e,
  canonical ds = true -> lex_decimal (decimal_to_xsd neg ds e) = true.
Proof. exact decimal_lexical_l. Qed.
Print Assumptions decimal_lexical.

(* ... denoting exactly (-1)^neg * digits * 10^e, nothing rounded ... *)
Theorem decimal_exact : forall neg ds e,
  canonical ds = true -> denotes (decimal_to_xsd neg ds e) neg ds e.
Proof. exact decimal_exact_l. Qed.
Print Assumptions decimal_exact.

(* ... and never in exponent notation. *)
Theorem decimal_no_exponent : forall neg ds e,
  canonical ds = true -> has_exponent (decimal_to_xsd neg ds e) = false.
Proof. exact decimal_no_exponent_l. Qed.
Print Assumptions decimal_no_exponent.

Example decimal_nonvacuous :
  canonical [1; 2; 0; 0]%Z = true /\
  decimal_to_xsd true [1; 2; 0; 0]%Z (-5) = [45; 48; 46; 48; 49; 50]%N.   (* "-0.012" *)
Proof. split; reflexivity. Qed.

(* booleans, over the dictionaries regenerated from the source *)
Theorem bool_roundtrip : forall b, exists s, bool_to_xml b = Some s /\ xml_to_bool s = Some b.
Proof. exact bool_roundtrip_l. Qed.
Print Assumptions bool_roundtrip.

Theorem bool_lexical : forall b, exists s, bool_to_xml b = Some s /\ lex_boolean_value s = Some b.
Proof. exact bool_lexical_l. Qed.
Print Assumptions bool_lexical.

Theorem bool_reads_all_lexical_forms :
  forall s b, lex_boolean_value s = Some b -> xml_to_bool s = Some b.
Proof. exact bool_reads_all_l. Qed.
Print Assumptions bool_reads_all_lexical_forms.

(* ------------------------------------------------------------------ *)
(* dates and times (model: C06/DateTime.v, lemmas: C06/TimeProofs.v)   *)
(* ------------------------------------------------------------------ *)
From SV Require Import C06.DateTime C06.TimeProofs.

(* Fractional seconds of ANY length are rounded half-up to the microsecond:
   truncating to six digits and bumping when the seventh is >= 5 equals
   floor(F * 10^6 / 10^n + 1/2), carried through seconds, minutes and hours
   (a time of day wraps at midnight). *)
Theorem time_round_half_up : forall f t up,
  time_f_lex f = true -> time_of_fields f = Ok (t, up) ->
  (us_of_tod (if up then bump_time t else t) = spec_us_of_fields f mod day_us)%Z.
Proof. exact time_round_half_up_l. Qed.
Print Assumptions time_round_half_up.

(* every field record the scanner can produce meets the hypothesis above *)
Theorem scanned_fields_lexical : forall s f r, scan_hms s = Some (f, r) -> time_f_lex f = true.
Proof. exact scan_hms_lex. Qed.
Print Assumptions scanned_fields_lexical.

(* zone designators: offset is exactly +-(60h+m) minutes, 24h and more rejected *)
Theorem zone_exact : forall s z, scan_zone s = Some z ->
  tz_of_fields z = match spec_tz z with Some tz => Ok tz | None => ErrValue end.
Proof. exact zone_exact_scanned. Qed.
Print Assumptions zone_exact.

Theorem zone_offset : forall neg h m tz, tz_of_fields (ZOff neg h m) = Ok tz ->
  tz_offset tz = Some ((if neg then -1 else 1) * (60 * dval h + match m with Some m => dval m | None => 0 end))%Z
  /\ (dval h < 24)%Z.
Proof. exact zone_offset_l. Qed.
Print Assumptions zone_offset.

(* what is written (isoformat) reads back to the same value and UTC offset *)
Theorem time_roundtrip : forall t tz, tod_ok t = true -> tz_ok tz = true ->
  exists tz', parse_time (iso_time t tz) = Ok (t, tz') /\ tz_offset tz' = tz_offset tz.
Proof. exact time_roundtrip_l. Qed.
Print Assumptions time_roundtrip.

Theorem date_roundtrip : forall c, civil_ok c = true -> parse_date (iso_date c) = Ok c.
Proof. exact date_roundtrip_l. Qed.
Print Assumptions date_roundtrip.

Theorem datetime_roundtrip : forall c t tz, civil_ok c = true -> tod_ok t = true -> tz_ok tz = true ->
  exists tz', parse_datetime (iso_datetime c t tz) = Ok (c, t, tz') /\ tz_offset tz' = tz_offset tz.
Proof. exact datetime_roundtrip_l. Qed.
Print Assumptions datetime_roundtrip.

(* the microsecond carry of a dateTime goes through the day, month and year:
   the decoded instant is exactly (day number, half-up-rounded microseconds) *)
Theorem datetime_carry : forall s df tf zf c t tz,
  scan_datetime s = Some (df, tf, zf) -> parse_datetime s = Ok (c, t, tz) ->
  exists c0, date_of_fields df = Ok c0 /\
  (day_number c * day_us + us_of_tod t = day_number c0 * day_us + spec_us_of_fields tf)%Z.
Proof. exact datetime_carry_l. Qed.
Print Assumptions datetime_carry.

(* text that is not a date/time/dateTime, or names an impossible one, raises ValueError *)
Theorem malformed_raises : forall s,
  (scan_time s = None -> parse_time s = ErrValue) /\
  (scan_date s = None -> parse_date s = ErrValue) /\
  (scan_datetime s = None -> parse_datetime s = ErrValue) /\
  (forall tf zf, scan_time s = Some (tf, zf) -> (23 < dval (f_h tf))%Z -> parse_time s = ErrValue) /\
  (forall df zf, scan_date s = Some (df, zf) ->
      valid_civil (dval (f_y df)) (dval (f_mo df)) (dval (f_d df)) = false ->
      (dval (f_y df) <= c_int_max)%Z -> parse_date s = ErrValue).
Proof. exact malformed_raises_l. Qed.
Print Assumptions malformed_raises.

Example time_nonvacuous :
  parse_time [50;51;58;53;57;58;53;57;46;57;57;57;57;57;57;53;90]%N    (* "23:59:59.9999995Z" *)
  = Ok (mkTod 0 0 0 0, TzUtc).
Proof. reflexivity. Qed.

(* ------------------------------------------------------------------ *)
(* the scanner IS the regular expressions of the source                *)
(* (AST regenerated from suds/sax/date.py by tools/tables_c06.py into  *)
(*  Gen/C06Tables.v; semantics + matcher: C06/Regex.v; lemmas:         *)
(*  C06/RegexProofs.v)                                                 *)
(* ------------------------------------------------------------------ *)
From SV Require Import C06.Regex C06.RegexScan C06.RegexProofs Gen.C06Tables.

(* the executable backtracking matcher (Python's order: greedy first, left
   alternative first) returns a match of the denotational semantics, and None
   exactly when the semantics has no match -- for every regex and string *)
Theorem regex_matcher_correct : forall r s,
  match exec_match r s with
  | Some e => re_matches r s e
  | None => forall e, ~ re_matches r s e
  end.
Proof. exact exec_match_correct_l. Qed.
Print Assumptions regex_matcher_correct.

(* For ALL strings: scan_date answers Some fields iff the regenerated _RE_DATE
   matches with exactly those capture groups (read as _date_from_match and
   _tzinfo_from_match read them), the captures being forced (one match at most,
   so the backtracking order cannot matter), and None iff it does not match. *)
Theorem scanner_is_regex_date : forall s,
  match scan_date s with
  | Some f => exists e, re_matches re_date s e /\ date_fields_of_caps e = f /\
                        forall e', re_matches re_date s e' -> e' = e
  | None => forall e, ~ re_matches re_date s e
  end.
Proof. exact scanner_is_regex_date_l. Qed.
Print Assumptions scanner_is_regex_date.

Theorem scanner_is_regex_time : forall s,
  match scan_time s with
  | Some f => exists e, re_matches re_time s e /\ time_fields_of_caps e = f /\
                        forall e', re_matches re_time s e' -> e' = e
  | None => forall e, ~ re_matches re_time s e
  end.
Proof. exact scanner_is_regex_time_l. Qed.
Print Assumptions scanner_is_regex_time.

Theorem scanner_is_regex_datetime : forall s,
  match scan_datetime s with
  | Some f => exists e, re_matches re_datetime s e /\ datetime_fields_of_caps e = f /\
                        forall e', re_matches re_datetime s e' -> e' = e
  | None => forall e, ~ re_matches re_datetime s e
  end.
Proof. exact scanner_is_regex_datetime_l. Qed.
Print Assumptions scanner_is_regex_datetime.

(* hence what pattern.match(s) computes (first match in backtracking order,
   groups read by name) is the scanner's answer, for all strings *)
Theorem scanner_is_python_match : forall s,
  option_map date_fields_of_caps (exec_match re_date s) = scan_date s /\
  option_map time_fields_of_caps (exec_match re_time s) = scan_time s /\
  option_map datetime_fields_of_caps (exec_match re_datetime s) = scan_datetime s.
Proof. exact scanner_is_python_match_l. Qed.
Print Assumptions scanner_is_python_match.

Example regex_nonvacuous :
  (* "2000-1-01T1:02:03.5-5:30" followed by a newline *)
  let s := [50;48;48;48;45;49;45;48;49;84;49;58;48;50;58;48;51;46;53;45;53;58;51;48;10]%N in
  exec_groups re_datetime s =
    Some [Some [50;48;48;48]; Some [49]; Some [48;49]; Some [49]; Some [48;50]; Some [48;51];
          Some [53]; Some [45]; Some [53]; Some [51;48]; None]%N /\
  scan_datetime s = Some (mkDF [50;48;48;48] [49] [48;49], mkTF [49] [48;50] [48;51] (Some [53]),
                          ZOff true [53] (Some [51;48]))%N /\
  exec_match re_date s = None /\ scan_date s = None.
Proof. repeat split; reflexivity. Qed.
