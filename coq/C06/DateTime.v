(* Model of suds.sax.date: the three regular expressions as a deterministic
   scanner, _date_from_match, _time_from_match, _tzinfo_from_match,
   _bump_up_time_by_microsecond, DateTime.__parse, and Python's isoformat()
   for the writing direction.  Definitions only. *)
From SV Require Import Lib.Base C06.Decimal.
Local Open Scope Z_scope.

(* ------------------------------------------------------------------ *)
(* results                                                             *)
(* ------------------------------------------------------------------ *)
Inductive res (A : Type) := Ok (a : A) | ErrValue | ErrOther.
Arguments Ok {A} a.
Arguments ErrValue {A}.
Arguments ErrOther {A}.

Inductive tzr := TzNone | TzUtc | TzFixed (minutes : Z).   (* minutes east of UTC *)

Record tod := mkTod { t_h : Z; t_m : Z; t_s : Z; t_us : Z }.
Record civil := mkCivil { c_y : Z; c_m : Z; c_d : Z }.

(* ------------------------------------------------------------------ *)
(* scanner = the regular expressions                                   *)
(* ------------------------------------------------------------------ *)
Fixpoint span_digits (s : str) : str * str :=
  match s with
  | c :: s' => if is_digit c then let '(a, b) := span_digits s' in (c :: a, b)
               else ([], s)
  | [] => ([], [])
  end.

Definition len12 (s : str) : bool :=
  match s with [_] | [_; _] => true | _ => false end.

(* [0-5]?[0-9] *)
Definition f59 (s : str) : bool :=
  match s with
  | [_] => true
  | [a; _] => (a <=? 53)%N
  | _ => false
  end.

(* `$` : end of string, or just before a final newline *)
Definition at_end (s : str) : bool :=
  match s with [] => true | [c] => N.eqb c 10 | _ => false end.

Inductive zone_f := ZAbsent | ZUtc | ZOff (neg : bool) (h : str) (m : option str).

Definition scan_zone (s : str) : option zone_f :=
  if at_end s then Some ZAbsent else
  match s with
  | c :: r =>
      if N.eqb c 90 || N.eqb c 122 then (if at_end r then Some ZUtc else None)
      else if N.eqb c ch_plus || N.eqb c ch_minus then
        let '(h, r1) := span_digits r in
        if len12 h then
          if at_end r1 then Some (ZOff (N.eqb c ch_minus) h None)
          else match r1 with
               | c1 :: r2 =>
                   if N.eqb c1 ch_colon then
                     let '(m, r3) := span_digits r2 in
                     if f59 m && at_end r3 then Some (ZOff (N.eqb c ch_minus) h (Some m))
                     else None
                   else None
               | [] => None
               end
        else None
      else None
  | [] => None
  end.

Record time_f := mkTF { f_h : str; f_mi : str; f_s : str; f_sub : option str }.
Record date_f := mkDF { f_y : str; f_mo : str; f_d : str }.

(* hour ':' minute ':' second ('.' digits)?   -> fields and the rest *)
Definition scan_hms (s : str) : option (time_f * str) :=
  let '(h, r1) := span_digits s in
  if negb (len12 h) then None else
  match r1 with
  | c1 :: r2 =>
    if negb (N.eqb c1 ch_colon) then None else
    let '(mi, r3) := span_digits r2 in
    if negb (f59 mi) then None else
    match r3 with
    | c3 :: r4 =>
      if negb (N.eqb c3 ch_colon) then None else
      let '(sec, r5) := span_digits r4 in
      if negb (f59 sec) then None else
      match r5 with
      | c5 :: r6 =>
          if N.eqb c5 ch_dot then
            let '(sub, r7) := span_digits r6 in
            match sub with
            | [] => None
            | _ => Some (mkTF h mi sec (Some sub), r7)
            end
          else Some (mkTF h mi sec None, r5)
      | [] => Some (mkTF h mi sec None, [])
      end
    | [] => None
    end
  | [] => None
  end.

(* year '-' month '-' day -> fields and the rest *)
Definition scan_ymd (s : str) : option (date_f * str) :=
  let '(y, r1) := span_digits s in
  match y, r1 with
  | _ :: _, c1 :: r2 =>
    if negb (N.eqb c1 ch_minus) then None else
    let '(mo, r3) := span_digits r2 in
    if negb (len12 mo) then None else
    match r3 with
    | c3 :: r4 =>
      if negb (N.eqb c3 ch_minus) then None else
      let '(d, r5) := span_digits r4 in
      if negb (len12 d) then None else Some (mkDF y mo d, r5)
    | [] => None
    end
  | _, _ => None
  end.

Definition scan_time (s : str) : option (time_f * zone_f) :=
  match scan_hms s with
  | Some (t, r) => match scan_zone r with Some z => Some (t, z) | None => None end
  | None => None
  end.

Definition scan_date (s : str) : option (date_f * zone_f) :=
  match scan_ymd s with
  | Some (d, r) => match scan_zone r with Some z => Some (d, z) | None => None end
  | None => None
  end.

Definition scan_datetime (s : str) : option (date_f * time_f * zone_f) :=
  match scan_ymd s with
  | Some (d, c :: r) =>
      if N.eqb c 84 || N.eqb c 32 then          (* 'T' or ' ' *)
        match scan_hms r with
        | Some (t, r') => match scan_zone r' with Some z => Some (d, t, z) | None => None end
        | None => None
        end
      else None
  | _ => None
  end.

(* ------------------------------------------------------------------ *)
(* fields -> values                                                    *)
(* ------------------------------------------------------------------ *)
(* dval (value of a digit string) and pow10 come from C06.Decimal *)

Definition is_leap (y : Z) : bool :=
  ((y mod 4 =? 0) && negb (y mod 100 =? 0)) || (y mod 400 =? 0).

Definition days_in_month (y m : Z) : Z :=
  if m =? 2 then (if is_leap y then 29 else 28)
  else if (m =? 4) || (m =? 6) || (m =? 9) || (m =? 11) then 30 else 31.

Definition valid_civil (y m d : Z) : bool :=
  (1 <=? y) && (y <=? 9999) && (1 <=? m) && (m <=? 12) && (1 <=? d) && (d <=? days_in_month y m).

(* the C `int` limit of datetime.date's argument parser *)
Definition c_int_max : Z := 2147483647.

(* _date_from_match *)
Definition date_of_fields (f : date_f) : res civil :=
  let y := dval (f_y f) in let m := dval (f_mo f) in let d := dval (f_d f) in
  if c_int_max <? y then ErrOther
  else if valid_civil y m d then Ok (mkCivil y m d) else ErrValue.

Fixpoint pad6 (n : nat) (s : str) : str :=           (* subsecond[:6] + "0" * (6 - len) *)
  match n with
  | O => []
  | S n' => match s with
            | c :: s' => c :: pad6 n' s'
            | [] => ch_0 :: pad6 n' []
            end
  end.

Definition seventh_ge5 (s : str) : bool :=
  match nth_error s 6 with Some c => (53 <=? c)%N | None => false end.

(* _time_from_match : (time, round_up) *)
Definition time_of_fields (f : time_f) : res (tod * bool) :=
  let h := dval (f_h f) in let mi := dval (f_mi f) in let s := dval (f_s f) in
  let '(us, up) := match f_sub f with
                   | Some sub => (dval (pad6 6 sub), seventh_ge5 sub)
                   | None => (0, false)
                   end in
  if h <=? 23 then Ok (mkTod h mi s us, up) else ErrValue.

(* _tzinfo_from_match *)
Definition tz_of_fields (z : zone_f) : res tzr :=
  match z with
  | ZAbsent => Ok TzNone
  | ZUtc => Ok TzUtc
  | ZOff neg h m =>
      let hv := dval h in
      let mv := match m with Some m => dval m | None => 0 end in
      if (hv =? 0) && (mv =? 0) then Ok TzUtc
      else if 24 <=? hv then ErrValue
      else Ok (TzFixed ((if neg then -1 else 1) * (60 * hv + mv)))
  end.

(* _bump_up_time_by_microsecond: wraps silently at midnight *)
Definition us_of_tod (t : tod) : Z :=
  ((t_h t * 60 + t_m t) * 60 + t_s t) * 1000000 + t_us t.

Definition tod_of_us (u : Z) : tod :=
  mkTod (u / 3600000000) ((u / 60000000) mod 60) ((u / 1000000) mod 60) (u mod 1000000).

Definition day_us : Z := 86400000000.

Definition bump_time (t : tod) : tod := tod_of_us ((us_of_tod t + 1) mod day_us).

Definition next_day (c : civil) : option civil :=
  if c_d c <? days_in_month (c_y c) (c_m c) then Some (mkCivil (c_y c) (c_m c) (c_d c + 1))
  else if c_m c <? 12 then Some (mkCivil (c_y c) (c_m c + 1) 1)
  else if c_y c <? 9999 then Some (mkCivil (c_y c + 1) 1 1)
  else None.                                            (* OverflowError *)

(* Time.__parse *)
Definition parse_time (s : str) : res (tod * tzr) :=
  match scan_time s with
  | None => ErrValue
  | Some (tf, zf) =>
      match time_of_fields tf with
      | Ok (t, up) =>
          match tz_of_fields zf with
          | Ok tz => Ok (if up then bump_time t else t, tz)
          | ErrValue => ErrValue | ErrOther => ErrOther
          end
      | ErrValue => ErrValue | ErrOther => ErrOther
      end
  end.

(* Date.__parse : the zone is matched but ignored *)
Definition parse_date (s : str) : res civil :=
  match scan_date s with
  | None => ErrValue
  | Some (df, _) => date_of_fields df
  end.

(* DateTime.__parse *)
Definition parse_datetime (s : str) : res (civil * tod * tzr) :=
  match scan_datetime s with
  | None => ErrValue
  | Some (df, tf, zf) =>
      match date_of_fields df with
      | Ok c =>
          match time_of_fields tf with
          | Ok (t, up) =>
              match tz_of_fields zf with
              | Ok tz =>
                  if up then
                    if us_of_tod t + 1 <? day_us then Ok (c, tod_of_us (us_of_tod t + 1), tz)
                    else match next_day c with
                         | Some c' => Ok (c', mkTod 0 0 0 0, tz)
                         | None => ErrOther
                         end
                  else Ok (c, t, tz)
              | ErrValue => ErrValue | ErrOther => ErrOther
              end
          | ErrValue => ErrValue | ErrOther => ErrOther
          end
      | ErrValue => ErrValue | ErrOther => ErrOther
      end
  end.

(* ------------------------------------------------------------------ *)
(* writing: Python's isoformat() as suds uses it                       *)
(* ------------------------------------------------------------------ *)
Definition d2 (n : Z) : str := [digit_chr (n / 10); digit_chr (n mod 10)].
Definition d4 (n : Z) : str :=
  [digit_chr (n / 1000); digit_chr ((n / 100) mod 10); digit_chr ((n / 10) mod 10); digit_chr (n mod 10)].
Definition d6 (n : Z) : str :=
  [digit_chr (n / 100000); digit_chr ((n / 10000) mod 10); digit_chr ((n / 1000) mod 10);
   digit_chr ((n / 100) mod 10); digit_chr ((n / 10) mod 10); digit_chr (n mod 10)].

Definition iso_tz (tz : tzr) : str :=
  match tz with
  | TzNone => []
  | TzUtc => [ch_plus] ++ d2 0 ++ [ch_colon] ++ d2 0
  | TzFixed m =>
      let a := Z.abs m in
      [if m <? 0 then ch_minus else ch_plus] ++ d2 (a / 60) ++ [ch_colon] ++ d2 (a mod 60)
  end.

Definition iso_tod (t : tod) : str :=
  d2 (t_h t) ++ [ch_colon] ++ d2 (t_m t) ++ [ch_colon] ++ d2 (t_s t) ++
  (if t_us t =? 0 then [] else [ch_dot] ++ d6 (t_us t)).

Definition iso_date (c : civil) : str :=
  d4 (c_y c) ++ [ch_minus] ++ d2 (c_m c) ++ [ch_minus] ++ d2 (c_d c).

Definition iso_time (t : tod) (tz : tzr) : str := iso_tod t ++ iso_tz tz.
Definition iso_datetime (c : civil) (t : tod) (tz : tzr) : str :=
  iso_date c ++ [84%N] ++ iso_tod t ++ iso_tz tz.

(* well-formed Python values *)
Definition tod_ok (t : tod) : bool :=
  (0 <=? t_h t) && (t_h t <=? 23) && (0 <=? t_m t) && (t_m t <=? 59) &&
  (0 <=? t_s t) && (t_s t <=? 59) && (0 <=? t_us t) && (t_us t <=? 999999).
Definition civil_ok (c : civil) : bool := valid_civil (c_y c) (c_m c) (c_d c).
(* a tzinfo suds can have produced or Python accepts: |offset| < 24h, whole minutes;
   a FixedOffsetTimezone of zero is TzUtc as far as the UTC offset goes *)
Definition tz_ok (tz : tzr) : bool :=
  match tz with TzFixed m => (-1440 <? m) && (m <? 1440) && negb (m =? 0) | _ => true end.

(* UTC offset in minutes, None for naive values *)
Definition tz_offset (tz : tzr) : option Z :=
  match tz with TzNone => None | TzUtc => Some 0 | TzFixed m => Some m end.

(* ------------------------------------------------------------------ *)
(* specification side                                                  *)
(* ------------------------------------------------------------------ *)
(* exact value of the seconds fraction 0.d1d2...dn scaled: F / 10^n *)

(* round-half-up of F * 10^6 / 10^n to an integer number of microseconds *)
Definition round_half_up_us (sub : str) : Z :=
  let n := length sub in
  (2 * dval sub * 1000000 + pow10 n) / (2 * pow10 n).

(* exact microsecond count the lexical time-of-day denotes, rounded half-up *)
Definition spec_us_of_fields (f : time_f) : Z :=
  ((dval (f_h f) * 60 + dval (f_mi f)) * 60 + dval (f_s f)) * 1000000 +
  match f_sub f with Some sub => round_half_up_us sub | None => 0 end.

(* proleptic Gregorian day number (days since 0001-01-01 = 0) *)
Definition days_before_year (y : Z) : Z :=
  let p := y - 1 in p * 365 + p / 4 - p / 100 + p / 400.
Fixpoint days_before_month_n (y : Z) (m : nat) : Z :=
  match m with
  | O => 0
  | S m' => days_before_month_n y m' + days_in_month y (Z.of_nat m)
  end.
Definition day_number (c : civil) : Z :=
  days_before_year (c_y c) + days_before_month_n (c_y c) (Z.to_nat (c_m c - 1)) + (c_d c - 1).

(* ------------------------------------------------------------------ *)
(* correspondence predicates                                           *)
(* ------------------------------------------------------------------ *)
Definition tzr_eqb (a b : tzr) : bool :=
  match a, b with
  | TzNone, TzNone | TzUtc, TzUtc => true
  | TzFixed x, TzFixed y => x =? y
  | _, _ => false
  end.
Definition tod_eqb (a b : tod) : bool :=
  (t_h a =? t_h b) && (t_m a =? t_m b) && (t_s a =? t_s b) && (t_us a =? t_us b).
Definition civil_eqb (a b : civil) : bool :=
  (c_y a =? c_y b) && (c_m a =? c_m b) && (c_d a =? c_d b).

Definition res_eqb {A} (eqb : A -> A -> bool) (a b : res A) : bool :=
  match a, b with
  | Ok x, Ok y => eqb x y
  | ErrValue, ErrValue | ErrOther, ErrOther => true
  | _, _ => false
  end.

(* parse cases: (kind, text, implementation result) *)
Inductive pres :=
| PTime (r : res (tod * tzr))
| PDate (r : res civil)
| PDateTime (r : res (civil * tod * tzr)).

Definition parse_agrees (c : str * pres) : bool :=
  let '(s, r) := c in
  match r with
  | PTime r => res_eqb (fun a b => tod_eqb (fst a) (fst b) && tzr_eqb (snd a) (snd b)) (parse_time s) r
  | PDate r => res_eqb civil_eqb (parse_date s) r
  | PDateTime r =>
      res_eqb (fun a b => civil_eqb (fst (fst a)) (fst (fst b)) && tod_eqb (snd (fst a)) (snd (fst b))
                          && tzr_eqb (snd a) (snd b)) (parse_datetime s) r
  end.

(* write cases: value, text produced by the implementation *)
Inductive wval :=
| WTime (t : tod) (tz : tzr)
| WDate (c : civil)
| WDateTime (c : civil) (t : tod) (tz : tzr).

Definition write_agrees (c : wval * str) : bool :=
  let '(v, out) := c in
  match v with
  | WTime t tz => str_eqb (iso_time t tz) out
  | WDate d => str_eqb (iso_date d) out
  | WDateTime d t tz => str_eqb (iso_datetime d t tz) out
  end.

(* ------------------------------------------------------------------ *)
(* executable specification applied to the implementation's results    *)
(* ------------------------------------------------------------------ *)
Fixpoint all_zero (s : str) : bool :=
  match s with [] => true | c :: s' => N.eqb c ch_0 && all_zero s' end.

(* 24:00:00 with an all-zero fraction is a valid XSD lexical form (the instant ending the day) -- see below *)
Definition hour24 (f : time_f) : bool :=
  (dval (f_h f) =? 24) && (dval (f_mi f) =? 0) && (dval (f_s f) =? 0) &&
  match f_sub f with Some sub => all_zero sub | None => true end.

Definition spec_tz (z : zone_f) : option tzr :=
  match z with
  | ZAbsent => Some TzNone
  | ZUtc => Some TzUtc
  | ZOff neg h m =>
      let mins := 60 * dval h + match m with Some m => dval m | None => 0 end in
      if 24 <=? dval h then None
      else Some (if mins =? 0 then TzUtc else TzFixed (if neg then - mins else mins))
  end.

Definition time_fields_valid (f : time_f) : bool := (dval (f_h f) <=? 23) || hour24 f.

Definition spec_time_ok (s : str) (r : res (tod * tzr)) : bool :=
  match scan_time s with
  | None => match r with ErrValue => true | _ => false end
  | Some (tf, zf) =>
      match spec_tz zf with
      | Some tz =>
          if time_fields_valid tf then
            match r with
            | Ok (t, tz') => tod_ok t && (us_of_tod t =? spec_us_of_fields tf mod day_us) && tzr_eqb tz tz'
            | _ => false
            end
          else match r with ErrValue => true | _ => false end
      | None => match r with ErrValue => true | _ => false end
      end
  end.

Definition date_fields_status (f : date_f) : Z :=      (* 0 valid, 1 impossible, 2 beyond Python *)
  let y := dval (f_y f) in let m := dval (f_mo f) in let d := dval (f_d f) in
  if valid_civil y m d then 0
  else if (9999 <? y) && (1 <=? m) && (m <=? 12) && (1 <=? d) && (d <=? days_in_month y m) then 2
  else 1.

Definition spec_date_ok (s : str) (r : res civil) : bool :=
  match scan_date s with
  | None => match r with ErrValue => true | _ => false end
  | Some (df, _) =>
      match date_fields_status df with
      | 0 => match r with
             | Ok c => civil_eqb c (mkCivil (dval (f_y df)) (dval (f_mo df)) (dval (f_d df)))
             | _ => false
             end
      | 1 => match r with ErrValue => true | _ => false end
      | _ => match r with Ok _ => false | _ => true end
      end
  end.

Definition max_day : Z := 3652058.      (* day_number of 9999-12-31 *)

Definition spec_datetime_ok (s : str) (r : res (civil * tod * tzr)) : bool :=
  match scan_datetime s with
  | None => match r with ErrValue => true | _ => false end
  | Some (df, tf, zf) =>
      match date_fields_status df with
      | 0 =>
          match spec_tz zf with
          | Some tz =>
              if time_fields_valid tf then
                let c := mkCivil (dval (f_y df)) (dval (f_mo df)) (dval (f_d df)) in
                let total := day_number c * day_us + spec_us_of_fields tf in
                if total <? (max_day + 1) * day_us then
                  match r with
                  | Ok (c', t', tz') =>
                      civil_ok c' && tod_ok t' &&
                      (day_number c' * day_us + us_of_tod t' =? total) && tzr_eqb tz tz'
                  | _ => false
                  end
                else match r with Ok _ => false | _ => true end
              else match r with ErrValue => true | _ => false end
          | None => match r with ErrValue => true | _ => false end
          end
      | 1 => match r with ErrValue => true | _ => false end
      | _ => match r with Ok _ => false | _ => true end
      end
  end.

Definition parse_spec_ok (c : str * pres) : bool :=
  let '(s, r) := c in
  match r with
  | PTime r => spec_time_ok s r
  | PDate r => spec_date_ok s r
  | PDateTime r => spec_datetime_ok s r
  end.

(* strict XSD lexical forms for what is written *)
Definition len2 (s : str) : bool := match s with [_; _] => true | _ => false end.
Definition strict_time_f (f : time_f) : bool := len2 (f_h f) && len2 (f_mi f) && len2 (f_s f).
Definition strict_zone_f (z : zone_f) : bool :=
  match z with
  | ZAbsent | ZUtc => true
  | ZOff _ h (Some m) => len2 h && len2 m && (dval h <=? 14)
  | ZOff _ _ None => false
  end.
Definition strict_date_f (f : date_f) : bool :=
  (4 <=? length (f_y f))%nat && len2 (f_mo f) && len2 (f_d f).
Definition no_newline (s : str) : bool := negb (existsb (N.eqb 10) s).

(* XSD limits zone hours to 14; Python tzinfo allows up to 23:59 — the zone
   range is therefore checked separately (zone_in_xsd_range) *)
Definition strict_zone_shape (z : zone_f) : bool :=
  match z with
  | ZAbsent | ZUtc => true
  | ZOff _ h (Some m) => len2 h && len2 m
  | ZOff _ _ None => false
  end.

Definition write_spec_ok (c : wval * str) : bool :=
  let '(v, out) := c in
  no_newline out &&
  match v with
  | WTime t tz =>
      match scan_time out with
      | Some (tf, zf) => strict_time_f tf && strict_zone_shape zf &&
          res_eqb (fun a b => tod_eqb (fst a) (fst b) &&
                              opt_eqb Z.eqb (tz_offset (snd a)) (tz_offset (snd b)))
                  (parse_time out) (Ok (t, tz))
      | None => false
      end
  | WDate d =>
      match scan_date out with
      | Some (df, zf) => strict_date_f df && strict_zone_shape zf &&
          res_eqb civil_eqb (parse_date out) (Ok d)
      | None => false
      end
  | WDateTime d t tz =>
      match scan_datetime out with
      | Some (df, tf, zf) =>
          strict_date_f df && strict_time_f tf && strict_zone_shape zf &&
          existsb (N.eqb 84) out &&
          res_eqb (fun a b => civil_eqb (fst (fst a)) (fst (fst b)) &&
                              tod_eqb (snd (fst a)) (snd (fst b)) &&
                              opt_eqb Z.eqb (tz_offset (snd a)) (tz_offset (snd b)))
                  (parse_datetime out) (Ok (d, t, tz))
      | None => false
      end
  end.
