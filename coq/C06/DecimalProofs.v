From SV Require Import Lib.Base C06.Decimal.
From Coq Require Import ZifyBool ZifyNat ZifyN.

Local Open Scope Z_scope.

(* ---------- digit characters ---------- *)
Lemma digit_chr_is_digit d : digit_ok d = true -> is_digit (digit_chr d) = true.
Proof. unfold digit_ok, is_digit, digit_chr. lia. Qed.

Lemma digit_val_chr d : digit_ok d = true -> digit_val (digit_chr d) = d.
Proof. unfold digit_ok, digit_val, digit_chr. lia. Qed.

Lemma digit_not_dot c : is_digit c = true -> N.eqb c ch_dot = false.
Proof. unfold is_digit, ch_dot. lia. Qed.

Lemma digit_not_sign c : is_digit c = true -> N.eqb c ch_minus = false /\ N.eqb c ch_plus = false.
Proof. unfold is_digit, ch_minus, ch_plus. lia. Qed.

Lemma digit_not_E c : is_digit c = true -> (N.eqb c 69 || N.eqb c 101) = false.
Proof. unfold is_digit. lia. Qed.

Lemma all_digits_app a b : all_digits (a ++ b) = all_digits a && all_digits b.
Proof. induction a as [|c a IH]; cbn; [reflexivity|]. rewrite IH. apply andb_assoc. Qed.

Lemma all_digits_dchars ds : forallb digit_ok ds = true -> all_digits (dchars ds) = true.
Proof.
  induction ds as [|d ds IH]; [reflexivity|]. intro H.
  cbn [forallb] in H. apply andb_true_iff in H as [H1 H2].
  change (dchars (d :: ds)) with (digit_chr d :: dchars ds). cbn [all_digits].
  rewrite digit_chr_is_digit, IH; auto.
Qed.

Lemma all_digits_zeros n : all_digits (zeros n) = true.
Proof. induction n; cbn; auto. Qed.

Lemma split_dot_digits a : all_digits a = true -> split_dot a = (a, None).
Proof.
  induction a as [|c a IH]; cbn; [reflexivity|]. intro H.
  apply andb_true_iff in H as [H1 H2]. rewrite (digit_not_dot _ H1), (IH H2). reflexivity.
Qed.

Lemma split_dot_mid a b : all_digits a = true -> split_dot (a ++ ch_dot :: b) = (a, Some b).
Proof.
  induction a as [|c a IH]; cbn; [reflexivity|]. intro H.
  apply andb_true_iff in H as [H1 H2]. rewrite (digit_not_dot _ H1), (IH H2). reflexivity.
Qed.

Lemma existsb_E_digits a : all_digits a = true -> has_exponent a = false.
Proof.
  unfold has_exponent. induction a as [|c a IH]; cbn; [reflexivity|]. intro H.
  apply andb_true_iff in H as [H1 H2]. rewrite (digit_not_E _ H1), (IH H2). reflexivity.
Qed.

Lemma has_exponent_app a b : has_exponent (a ++ b) = has_exponent a || has_exponent b.
Proof. unfold has_exponent. apply existsb_app. Qed.

(* ---------- values of digit strings ---------- *)
Lemma fold_dval_acc s : forall a,
  fold_left (fun a c => 10 * a + digit_val c) s a = a * pow10 (length s) + dval s.
Proof.
  unfold dval, pow10. induction s as [|c s IH]; intro a.
  - cbn. lia.
  - cbn [fold_left length]. rewrite IH. rewrite (IH (10 * 0 + digit_val c)).
    rewrite Nat2Z.inj_succ, Z.pow_succ_r by lia. lia.
Qed.

Lemma dval_app a b : dval (a ++ b) = dval a * pow10 (length b) + dval b.
Proof. unfold dval at 1. rewrite fold_left_app. apply fold_dval_acc. Qed.

Lemma fold_nval_acc s : forall a,
  fold_left (fun a d => 10 * a + d) s a = a * pow10 (length s) + nval s.
Proof.
  unfold nval, pow10. induction s as [|c s IH]; intro a.
  - cbn. lia.
  - cbn [fold_left length]. rewrite IH. rewrite (IH (10 * 0 + c)).
    rewrite Nat2Z.inj_succ, Z.pow_succ_r by lia. lia.
Qed.

Lemma nval_app a b : nval (a ++ b) = nval a * pow10 (length b) + nval b.
Proof. unfold nval at 1. rewrite fold_left_app. apply fold_nval_acc. Qed.

Lemma dval_dchars ds : forallb digit_ok ds = true -> dval (dchars ds) = nval ds.
Proof.
  induction ds as [|d ds IH] using rev_ind; [reflexivity|]. intro H.
  rewrite forallb_app in H. apply andb_true_iff in H as [H1 H2].
  cbn in H2. rewrite andb_true_r in H2.
  unfold dchars. rewrite map_app. cbn [map]. rewrite dval_app, nval_app.
  fold (dchars ds). rewrite (IH H1). cbn [length].
  unfold dval, nval. cbn. rewrite (digit_val_chr _ H2). reflexivity.
Qed.

Lemma dval_zeros n : dval (zeros n) = 0.
Proof.
  induction n as [|n IH]; [reflexivity|].
  change (zeros (S n)) with ([ch_0] ++ zeros n). rewrite dval_app, IH. reflexivity.
Qed.

Lemma nval_zeros n : nval (repeat 0 n) = 0.
Proof.
  induction n as [|n IH]; [reflexivity|].
  change (repeat 0 (S n)) with ([0] ++ repeat 0 n). rewrite nval_app, IH. reflexivity.
Qed.

Lemma length_zeros n : length (zeros n) = n.
Proof. apply repeat_length. Qed.

Lemma length_dchars ds : length (dchars ds) = length ds.
Proof. apply map_length. Qed.

Lemma pow10_add a b : pow10 (a + b) = pow10 a * pow10 b.
Proof. unfold pow10. rewrite Nat2Z.inj_add, Z.pow_add_r by lia. reflexivity. Qed.

Lemma pow10_0 : pow10 0 = 1.
Proof. reflexivity. Qed.

Lemma pow10_pos n : 0 < pow10 n.
Proof. unfold pow10. apply Z.pow_pos_nonneg; lia. Qed.

(* ---------- the trimming loop ---------- *)
Lemma drop_zeros_spec k r :
  exists t, (t <= k)%nat /\ r = repeat 0 t ++ drop_zeros k r.
Proof.
  revert r; induction k as [|k IH]; intro r.
  - exists 0%nat. split; [lia|reflexivity].
  - destruct r as [|d r]; [exists 0%nat; split; [lia|reflexivity]|].
    cbn [drop_zeros]. destruct (Z.eqb_spec d 0) as [->|Hd].
    + destruct (IH r) as [t [Ht Hr]]. exists (S t). split; [lia|].
      cbn [repeat app]. f_equal. exact Hr.
    + exists 0%nat. split; [lia|reflexivity].
Qed.

Lemma rev_repeat {A} (x : A) n : rev (repeat x n) = repeat x n.
Proof.
  induction n as [|n IH]; [reflexivity|]. cbn [repeat rev]. rewrite IH.
  clear IH. induction n as [|n IH]; [reflexivity|]. cbn. f_equal. exact IH.
Qed.

Lemma trimmed_spec ds e :
  exists t, (t <= Nat.min (length ds) (Z.to_nat (- e)))%nat /\
            ds = trimmed ds e ++ repeat 0 t.
Proof.
  unfold trimmed.
  destruct (drop_zeros_spec (Nat.min (length ds) (Z.to_nat (- e))) (rev ds)) as [t [Ht Hr]].
  exists t. split; [exact Ht|].
  rewrite <- (rev_involutive ds) at 1. rewrite Hr at 1.
  rewrite rev_app_distr, rev_repeat. reflexivity.
Qed.

Lemma forallb_trimmed ds e : forallb digit_ok ds = true -> forallb digit_ok (trimmed ds e) = true.
Proof.
  intro H. destruct (trimmed_spec ds e) as [t [_ Hd]]. rewrite Hd in H.
  rewrite forallb_app in H. apply andb_true_iff in H. tauto.
Qed.

(* ---------- sign handling ---------- *)
Definition sgn (neg : bool) : Z := if neg then -1 else 1.

Lemma strip_sign_digit c s : is_digit c = true -> strip_sign (c :: s) = (false, c :: s).
Proof. intro H. destruct (digit_not_sign _ H) as [H1 H2]. cbn. rewrite H1, H2. reflexivity. Qed.

(* Everything the three theorems need about the body (the part after the sign):
   it starts with a digit, is a valid unsigned decimal, has no exponent and
   denotes nval ds * 10^e. *)
Definition body_ok (body : str) (ds : list Z) (e : Z) : Prop :=
  (exists c s, body = c :: s /\ is_digit c = true) /\
  (let '(ip, fp) := split_dot body in
   all_digits ip = true /\
   match fp with
   | None => ip <> []
   | Some f => all_digits f = true /\ (length ip + length f <> 0)%nat
   end /\
   dval (ip ++ match fp with Some f => f | None => [] end)
     * pow10 (Z.to_nat (- e))
   = nval ds * pow10 (Z.to_nat e)
     * pow10 (length (match fp with Some f => f | None => [] end))) /\
  has_exponent body = false.

Definition body_of (ds : list Z) (e : Z) : str :=
  if (0 <=? e)%Z then dchars ds ++ zeros (Z.to_nat e)
  else
    let point_offset := (Z.of_nat (length ds) + e)%Z in
    let kept := trimmed ds e in
    if (point_offset <=? 0)%Z then
      [ch_0] ++
      (match kept with
       | [] => []
       | _ => [ch_dot] ++ zeros (Z.to_nat (- point_offset)) ++ dchars kept
       end)
    else
      let po := Z.to_nat point_offset in
      dchars (firstn po ds) ++
      (if (po <? length kept)%nat
       then [ch_dot] ++ dchars (skipn po kept) else []).

Lemma decimal_to_xsd_body neg ds e :
  decimal_to_xsd neg ds e = (if neg then [ch_minus] else []) ++ body_of ds e.
Proof. reflexivity. Qed.

Lemma ch0_digit : is_digit ch_0 = true.
Proof. reflexivity. Qed.

Lemma canonical_inv ds : canonical ds = true ->
  forallb digit_ok ds = true /\ exists d rest, ds = d :: rest /\ digit_ok d = true.
Proof.
  unfold canonical. intro H. apply andb_true_iff in H as [H1 H2]. split; [exact H1|].
  destruct ds as [|d rest]; [discriminate|]. exists d, rest. split; [reflexivity|].
  cbn in H1. apply andb_true_iff in H1. tauto.
Qed.

Lemma firstn_app_le {A} (a b : list A) n : (n <= length a)%nat -> firstn n (a ++ b) = firstn n a.
Proof.
  intro H. rewrite firstn_app. replace (n - length a)%nat with 0%nat by lia.
  cbn. apply app_nil_r.
Qed.

Lemma forallb_firstn {A} (f : A -> bool) l n : forallb f l = true -> forallb f (firstn n l) = true.
Proof.
  revert n; induction l as [|x l IH]; intros [|n] H; cbn; auto.
  cbn in H. apply andb_true_iff in H as [H1 H2]. rewrite H1, IH; auto.
Qed.

Lemma forallb_skipn {A} (f : A -> bool) l n : forallb f l = true -> forallb f (skipn n l) = true.
Proof.
  revert n; induction l as [|x l IH]; intros [|n] H; cbn; auto.
  cbn in H. apply andb_true_iff in H as [H1 H2]. apply IH; auto.
Qed.

Lemma body_ok_of ds e : canonical ds = true -> body_ok (body_of ds e) ds e.
Proof.
  intro Hc. destruct (canonical_inv _ Hc) as [Hall [d0 [rest [Hds Hd0]]]].
  unfold body_of. destruct (Z.leb_spec 0 e) as [He|He].
  - (* no fractional digits *)
    assert (Hdig : all_digits (dchars ds ++ zeros (Z.to_nat e)) = true).
    { rewrite all_digits_app, all_digits_dchars, all_digits_zeros; auto. }
    unfold body_ok. rewrite (split_dot_digits _ Hdig). repeat split.
    + subst ds. cbn. eexists _, _. split; [reflexivity|]. apply digit_chr_is_digit, Hd0.
    + exact Hdig.
    + subst ds. cbn. discriminate.
    + rewrite app_nil_r, dval_app, dval_dchars, dval_zeros, length_zeros by exact Hall.
      replace (Z.to_nat (- e)) with 0%nat by lia. cbn [length]. rewrite !pow10_0. lia.
    + apply existsb_E_digits, Hdig.
  - destruct (trimmed_spec ds e) as [t [Ht Hsplit]].
    set (kept := trimmed ds e) in *.
    assert (Hkall : forallb digit_ok kept = true) by (apply forallb_trimmed, Hall).
    assert (Hlen : length ds = (length kept + t)%nat).
    { rewrite Hsplit at 1. rewrite app_length, repeat_length. reflexivity. }
    assert (Hnv : nval ds = nval kept * pow10 t).
    { rewrite Hsplit at 1. rewrite nval_app, nval_zeros, repeat_length. lia. }
    unfold body_ok. replace (Z.to_nat e) with 0%nat by lia. rewrite pow10_0.
    destruct (Z.leb_spec (Z.of_nat (length ds) + e) 0) as [Hpo|Hpo].
    + (* no integral digits *)
      destruct kept as [|k0 krest] eqn:Hk.
      * try unfold body_ok. cbn [app split_dot]. repeat split.
        -- eexists _, _. split; [reflexivity|]. reflexivity.
        -- discriminate.
        -- cbn. rewrite Hnv. cbn. lia.
      * set (zs := zeros (Z.to_nat (- (Z.of_nat (length ds) + e)))).
        set (kk := k0 :: krest) in *.
        change ([ch_0] ++ [ch_dot] ++ zs ++ dchars kk)
          with ([ch_0] ++ ch_dot :: (zs ++ dchars kk)).
        assert (Hf : all_digits (zs ++ dchars kk) = true).
        { rewrite all_digits_app. unfold zs. rewrite all_digits_zeros, all_digits_dchars; auto. }
        try unfold body_ok. rewrite (split_dot_mid [ch_0] _ ch0_digit). repeat split.
        -- eexists _, _. split; [reflexivity|]. reflexivity.
        -- exact Hf.
        -- cbn [length]. lia.
        -- rewrite dval_app. change (dval [ch_0]) with 0.
           rewrite dval_app. unfold zs. rewrite dval_zeros, dval_dchars by exact Hkall.
           rewrite app_length, length_zeros, length_dchars.
           rewrite Hnv.
           replace (Z.to_nat (- e)) with
             (t + (Z.to_nat (- (Z.of_nat (length ds) + e)) + length kk))%nat by lia.
           rewrite !pow10_add. lia.
        -- change ([ch_0] ++ ch_dot :: zs ++ dchars kk) with ((ch_0 :: ch_dot :: nil) ++ (zs ++ dchars kk)).
           rewrite has_exponent_app. rewrite (existsb_E_digits _ Hf). reflexivity.
    + (* integral digits, maybe fractional ones *)
      set (po := Z.to_nat (Z.of_nat (length ds) + e)).
      assert (Hpok : (po <= length kept)%nat) by lia.
      assert (Hfirst : firstn po ds = firstn po kept).
      { rewrite Hsplit. apply firstn_app_le. exact Hpok. }
      assert (Hpo0 : (0 < po)%nat) by lia.
      assert (Hhead : exists c s, dchars (firstn po ds) = c :: s /\ is_digit c = true).
      { subst ds. destruct po as [|po']; [lia|]. cbn. eexists _, _. split; [reflexivity|].
        apply digit_chr_is_digit, Hd0. }
      assert (Hip : all_digits (dchars (firstn po ds)) = true).
      { apply all_digits_dchars, forallb_firstn, Hall. }
      destruct (Nat.ltb_spec po (length kept)) as [Hlt|Hge].
      * assert (Hf : all_digits (dchars (skipn po kept)) = true).
        { apply all_digits_dchars, forallb_skipn, Hkall. }
        change (dchars (firstn po ds) ++ [ch_dot] ++ dchars (skipn po kept))
          with (dchars (firstn po ds) ++ ch_dot :: dchars (skipn po kept)).
        try unfold body_ok. rewrite (split_dot_mid _ _ Hip). repeat split.
        -- destruct Hhead as [c [s [Hcs Hc']]]. rewrite Hcs. cbn. eexists _, _. split; [reflexivity|exact Hc'].
        -- exact Hip.
        -- exact Hf.
        -- rewrite length_dchars, firstn_length. lia.
        -- unfold dchars. rewrite <- map_app. fold (dchars (firstn po ds ++ skipn po kept)).
           rewrite Hfirst, firstn_skipn, dval_dchars by exact Hkall.
           rewrite map_length, skipn_length, Hnv.
           replace (Z.to_nat (- e)) with (t + (length kept - po))%nat by lia.
           rewrite pow10_add. lia.
        -- rewrite has_exponent_app. rewrite (existsb_E_digits _ Hip). cbn [orb].
           change (ch_dot :: dchars (skipn po kept)) with ([ch_dot] ++ dchars (skipn po kept)).
           rewrite has_exponent_app, (existsb_E_digits _ Hf). reflexivity.
      * rewrite app_nil_r. try unfold body_ok. rewrite (split_dot_digits _ Hip). repeat split.
        -- exact Hhead.
        -- exact Hip.
        -- destruct Hhead as [c [s [Hcs _]]]. rewrite Hcs. discriminate.
        -- rewrite app_nil_r. cbn [length]. rewrite pow10_0.
           assert (Hpe : po = length kept) by lia.
           rewrite Hfirst, Hpe, firstn_all, dval_dchars, Hnv by exact Hkall.
           replace (Z.to_nat (- e)) with t by lia. lia.
        -- apply existsb_E_digits, Hip.
Qed.

(* ---------- the three statements about the whole output ---------- *)
Lemma strip_sign_out (neg : bool) (body : str) :
  (exists c s, body = c :: s /\ is_digit c = true) ->
  strip_sign ((if neg then [ch_minus] else []) ++ body) = (neg, body).
Proof.
  intros [c [s [-> Hc]]]. destruct neg; cbn [app].
  - reflexivity.
  - apply strip_sign_digit, Hc.
Qed.

Lemma decimal_lexical_l neg ds e :
  canonical ds = true -> lex_decimal (decimal_to_xsd neg ds e) = true.
Proof.
  intro Hc. rewrite decimal_to_xsd_body. pose proof (body_ok_of ds e Hc) as [Hh [Hb _]].
  unfold lex_decimal. rewrite (strip_sign_out neg _ Hh).
  destruct (split_dot (body_of ds e)) as [ip [f|]].
  - destruct Hb as [H1 [[H2 H3] _]]. rewrite H1, H2. cbn.
    destruct (Nat.eqb_spec (length ip + length f) 0); [contradiction|reflexivity].
  - destruct Hb as [H1 [H2 _]]. rewrite H1. cbn.
    destruct ip; [contradiction|reflexivity].
Qed.

Lemma decimal_no_exponent_l neg ds e :
  canonical ds = true -> has_exponent (decimal_to_xsd neg ds e) = false.
Proof.
  intro Hc. rewrite decimal_to_xsd_body. pose proof (body_ok_of ds e Hc) as [_ [_ Hx]].
  rewrite has_exponent_app, Hx. destruct neg; reflexivity.
Qed.

Lemma decimal_exact_l neg ds e :
  canonical ds = true -> denotes (decimal_to_xsd neg ds e) neg ds e.
Proof.
  intro Hc. rewrite decimal_to_xsd_body. pose proof (body_ok_of ds e Hc) as [Hh [Hb _]].
  unfold denotes, dec_value. rewrite (strip_sign_out neg _ Hh).
  destruct (split_dot (body_of ds e)) as [ip fp].
  destruct Hb as [_ [_ Hv]].
  set (f := match fp with Some f => f | None => [] end) in *.
  set (sg := if neg then -1 else 1).
  replace (sg * dval (ip ++ f) * pow10 (Z.to_nat (- e)))
    with (sg * (dval (ip ++ f) * pow10 (Z.to_nat (- e)))) by ring.
  change (dval (ip ++ f) * pow10 (Z.to_nat (- e)) = nval ds * pow10 (Z.to_nat e) * pow10 (length f)) in Hv. rewrite Hv. ring.
Qed.

Lemma denotes_b_iff out neg ds e : denotes_b out neg ds e = true <-> denotes out neg ds e.
Proof. unfold denotes_b, denotes. destruct (dec_value out). apply Z.eqb_eq. Qed.
