(* XBoolean: the two dictionaries, regenerated from the source, against the
   xsd:boolean lexical space. *)
From SV Require Import Lib.Base C06.Floats Gen.C06Tables.

Fixpoint assoc_str {B} (k : str) (l : list (str * B)) : option B :=
  match l with
  | [] => None
  | (k', v) :: l' => if str_eqb k k' then Some v else assoc_str k l'
  end.

Definition xml_to_bool (s : str) : option bool := assoc_str s xml_to_bool_tbl.
Definition bool_to_xml (b : bool) : option str :=
  match filter (fun p => Bool.eqb (fst p) b) bool_to_xml_tbl with
  | (_, s) :: _ => Some s
  | [] => None
  end.

Lemma bool_roundtrip_l : forall b, exists s, bool_to_xml b = Some s /\ xml_to_bool s = Some b.
Proof. intros [|]; eexists; split; vm_compute; reflexivity. Qed.

Lemma bool_lexical_l : forall b, exists s, bool_to_xml b = Some s /\ lex_boolean_value s = Some b.
Proof. intros [|]; eexists; split; vm_compute; reflexivity. Qed.

Lemma bool_reads_all_l : forall s b, lex_boolean_value s = Some b -> xml_to_bool s = Some b.
Proof.
  intros s b. unfold lex_boolean_value.
  destruct (str_eqb s s_true) eqn:E1.
  { apply str_eqb_eq in E1. subst s. cbn. intro H. inversion H. vm_compute. reflexivity. }
  destruct (str_eqb s [49%N]) eqn:E2.
  { apply str_eqb_eq in E2. subst s. cbn. intro H. inversion H. vm_compute. reflexivity. }
  cbn [orb].
  destruct (str_eqb s s_false) eqn:E3.
  { apply str_eqb_eq in E3. subst s. cbn. intro H. inversion H. vm_compute. reflexivity. }
  destruct (str_eqb s [48%N]) eqn:E4.
  { apply str_eqb_eq in E4. subst s. cbn. intro H. inversion H. vm_compute. reflexivity. }
  cbn. discriminate.
Qed.
