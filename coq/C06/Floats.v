(* Lexical spaces of xsd:double/float, xsd:integer and xsd:boolean, applied to
   the text suds sends for Python float / int / bool values. *)
From SV Require Import Lib.Base C06.Decimal.
Local Open Scope Z_scope.

Inductive fkind := FFloat | FInt (z : Z) | FBool (b : bool).

Fixpoint split_E (s : str) : str * option str :=
  match s with
  | [] => ([], None)
  | c :: s' => if N.eqb c 69 || N.eqb c 101 then ([], Some s')
               else let '(a, b) := split_E s' in (c :: a, b)
  end.

Definition lex_integer (s : str) : bool :=
  let '(_, body) := strip_sign s in
  all_digits body && negb (Nat.eqb (length body) 0).

Definition s_INF : str := [73; 78; 70]%N.
Definition s_mINF : str := [45; 73; 78; 70]%N.
Definition s_NaN : str := [78; 97; 78]%N.

(* XSD 1.0 double: decimal mantissa, optional E integer exponent, or INF / -INF / NaN *)
Definition lex_double (s : str) : bool :=
  str_eqb s s_INF || str_eqb s s_mINF || str_eqb s s_NaN ||
  let '(m, e) := split_E s in
  lex_decimal m && match e with None => true | Some e => lex_integer e end.

Definition int_value (s : str) : Z :=
  let '(neg, body) := strip_sign s in (if neg then -1 else 1) * dval body.

Definition s_true : str := [116; 114; 117; 101]%N.
Definition s_false : str := [102; 97; 108; 115; 101]%N.

Definition lex_boolean_value (s : str) : option bool :=
  if str_eqb s s_true || str_eqb s [49%N] then Some true
  else if str_eqb s s_false || str_eqb s [48%N] then Some false
  else None.

Definition prim_spec_ok (c : fkind * str) : bool :=
  let '(k, out) := c in
  match k with
  | FFloat => lex_double out
  | FInt z => lex_integer out && (int_value out =? z)
  | FBool b => match lex_boolean_value out with Some b' => Bool.eqb b b' | None => false end
  end.
