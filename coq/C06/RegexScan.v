(* What suds.sax.date reads out of a match object (_date_from_match,
   _time_from_match, _tzinfo_from_match use group(name) only), as functions from
   the captures of C06/Regex.v to the field records of the scanner model, and
   the boolean predicates the harness evaluates.  Definitions only. *)
From SV Require Import Lib.Base C06.Decimal C06.DateTime C06.Regex Gen.C06Tables.

Definition n_year : str := [121;101;97;114]%N.
Definition n_month : str := [109;111;110;116;104]%N.
Definition n_day : str := [100;97;121]%N.
Definition n_hour : str := [104;111;117;114]%N.
Definition n_minute : str := [109;105;110;117;116;101]%N.
Definition n_second : str := [115;101;99;111;110;100]%N.
Definition n_subsecond : str := [115;117;98;115;101;99;111;110;100]%N.
Definition n_tz_sign : str := [116;122;95;115;105;103;110]%N.
Definition n_tz_hour : str := [116;122;95;104;111;117;114]%N.
Definition n_tz_minute : str := [116;122;95;109;105;110;117;116;101]%N.
Definition n_tz_utc : str := [116;122;95;117;116;99]%N.

(* group(name), with "" for a group that is unset *)
Definition get (n : str) (e : caps) : str :=
  match lookup n e with Some v => v | None => [] end.

(* _date_from_match *)
Definition date_of_caps (e : caps) : date_f :=
  mkDF (get n_year e) (get n_month e) (get n_day e).

(* _time_from_match *)
Definition time_of_caps (e : caps) : time_f :=
  mkTF (get n_hour e) (get n_minute e) (get n_second e) (lookup n_subsecond e).

(* _tzinfo_from_match: tz_utc truthy -> UTC; tz_sign falsy -> none;
   otherwise sign == "-", tz_hour, tz_minute *)
Definition zone_of_caps (e : caps) : zone_f :=
  match lookup n_tz_utc e with
  | Some (_ :: _) => ZUtc
  | _ => match lookup n_tz_sign e with
         | Some (c :: sg) => ZOff (str_eqb (c :: sg) [ch_minus]) (get n_tz_hour e) (lookup n_tz_minute e)
         | _ => ZAbsent
         end
  end.

Definition date_fields_of_caps (e : caps) : date_f * zone_f := (date_of_caps e, zone_of_caps e).
Definition time_fields_of_caps (e : caps) : time_f * zone_f := (time_of_caps e, zone_of_caps e).
Definition datetime_fields_of_caps (e : caps) : date_f * time_f * zone_f :=
  (date_of_caps e, time_of_caps e, zone_of_caps e).

(* ------------------------------------------------------------------ *)
(* harness predicates                                                  *)
(* ------------------------------------------------------------------ *)
(* a case: which pattern (0 time, 1 date, 2 dateTime), the subject, and what
   CPython's compiled pattern answered: None | Some (Match.groups()) *)
Definition rcase := (N * str * option (list (option str)))%type.

Definition re_of_kind (k : N) : re :=
  match k with 0%N => re_time | 1%N => re_date | _ => re_datetime end.

(* the regex semantics model (run on the AST regenerated from the source)
   answers what CPython's engine answers *)
Definition regex_agrees (c : rcase) : bool :=
  let '(k, s, py) := c in
  opt_eqb (list_eqb (opt_eqb str_eqb)) (exec_groups (re_of_kind k) s) py.

Definition zone_f_eqb (a b : zone_f) : bool :=
  match a, b with
  | ZAbsent, ZAbsent | ZUtc, ZUtc => true
  | ZOff n h m, ZOff n' h' m' => Bool.eqb n n' && str_eqb h h' && opt_eqb str_eqb m m'
  | _, _ => false
  end.
Definition date_f_eqb (a b : date_f) : bool :=
  str_eqb (f_y a) (f_y b) && str_eqb (f_mo a) (f_mo b) && str_eqb (f_d a) (f_d b).
Definition time_f_eqb (a b : time_f) : bool :=
  str_eqb (f_h a) (f_h b) && str_eqb (f_mi a) (f_mi b) && str_eqb (f_s a) (f_s b) &&
  opt_eqb str_eqb (f_sub a) (f_sub b).

(* the hand-written scanner answers what the regenerated regex answers (this is
   what scanner_is_python_match proves for all strings; evaluated here so that a
   changed pattern yields a concrete witness) *)
Definition scanner_regex_agrees (c : rcase) : bool :=
  let '(k, s, _) := c in
  match k with
  | 0%N => opt_eqb (fun a b => time_f_eqb (fst a) (fst b) && zone_f_eqb (snd a) (snd b))
             (scan_time s) (option_map time_fields_of_caps (exec_match re_time s))
  | 1%N => opt_eqb (fun a b => date_f_eqb (fst a) (fst b) && zone_f_eqb (snd a) (snd b))
             (scan_date s) (option_map date_fields_of_caps (exec_match re_date s))
  | _ => opt_eqb (fun a b => date_f_eqb (fst (fst a)) (fst (fst b)) &&
                             time_f_eqb (snd (fst a)) (snd (fst b)) && zone_f_eqb (snd a) (snd b))
             (scan_datetime s) (option_map datetime_fields_of_caps (exec_match re_datetime s))
  end.

(* the same checks packed with the parse cases of the harness (the text is
   written once): (text, implementation result of the parser, what
   pattern.match answered as spans of the groups) *)
Definition sub (s : str) (a b : nat) : str := firstn (b - a) (skipn a s).
Definition xcase := (str * pres * option (list (option (nat * nat))))%type.
Definition kind_of (r : pres) : N :=
  match r with PTime _ => 0%N | PDate _ => 1%N | PDateTime _ => 2%N end.
Definition spans_to_groups (s : str) (py : option (list (option (nat * nat))))
  : option (list (option str)) :=
  option_map (map (option_map (fun ab => sub s (fst ab) (snd ab)))) py.

Definition x_parse_agrees (c : xcase) : bool := parse_agrees (fst c).
Definition x_parse_spec_ok (c : xcase) : bool := parse_spec_ok (fst c).
Definition x_regex_agrees (c : xcase) : bool :=
  let '(s, r, py) := c in regex_agrees (kind_of r, s, spans_to_groups s py).
Definition x_scanner_regex_agrees (c : xcase) : bool :=
  let '(s, r, py) := c in scanner_regex_agrees (kind_of r, s, None).
