(* Model of suds.xsd.sxbuiltin.XDecimal._decimal_to_xsd_format and the XSD
   decimal lexical space / value map it has to meet.  Definitions only. *)
From SV Require Import Lib.Base.

(* ---------- model (mirrors the Python branch by branch) ---------- *)

(* digits are 0..9 as Z; a Decimal is (negative, digits, exponent) *)
Definition dchars (ds : list Z) : str := map digit_chr ds.
Definition zeros (n : nat) : str := repeat ch_0 n.

(* the `while fractional_digit_count and digits[digit_count-1] == 0` loop,
   run on the reversed digit list with k = fractional_digit_count *)
Fixpoint drop_zeros (k : nat) (r : list Z) : list Z :=
  match k, r with
  | S k', d :: r' => if Z.eqb d 0 then drop_zeros k' r' else r
  | _, _ => r
  end.

Definition trimmed (ds : list Z) (e : Z) : list Z :=
  rev (drop_zeros (Nat.min (length ds) (Z.to_nat (- e))) (rev ds)).

Definition decimal_to_xsd (neg : bool) (ds : list Z) (e : Z) : str :=
  (if neg then [ch_minus] else []) ++
  if (0 <=? e)%Z then dchars ds ++ zeros (Z.to_nat e)
  else
    let point_offset := (Z.of_nat (length ds) + e)%Z in
    let kept := trimmed ds e in                       (* digits[:digit_count] *)
    if (point_offset <=? 0)%Z then
      [ch_0] ++
      (match kept with
       | [] => []
       | _ => [ch_dot] ++ zeros (Z.to_nat (- point_offset)) ++ dchars kept
       end)
    else
      let po := Z.to_nat point_offset in
      dchars (firstn po ds) ++
      (if (po <? length kept)%nat
       then [ch_dot] ++ dchars (skipn po kept) else []).

(* the shape Decimal.as_tuple() guarantees and the asserts demand *)
Definition digit_ok (d : Z) : bool := (0 <=? d)%Z && (d <=? 9)%Z.
Definition canonical (ds : list Z) : bool :=
  forallb digit_ok ds &&
  match ds with
  | [] => false
  | d :: rest => negb (Z.eqb d 0) || match rest with [] => true | _ => false end
  end.

(* ---------- specification: XSD 1.0 part 2, 3.2.3.1 ---------- *)

Fixpoint all_digits (s : str) : bool :=
  match s with [] => true | c :: s' => is_digit c && all_digits s' end.

(* split at the first '.' *)
Fixpoint split_dot (s : str) : str * option str :=
  match s with
  | [] => ([], None)
  | c :: s' => if N.eqb c ch_dot then ([], Some s')
               else let '(a, b) := split_dot s' in (c :: a, b)
  end.

Definition strip_sign (s : str) : bool * str :=
  match s with
  | c :: s' => if N.eqb c ch_minus then (true, s')
               else if N.eqb c ch_plus then (false, s') else (false, s)
  | [] => (false, [])
  end.

(* optional sign, then  digits [ '.' digits-or-nothing ]  or  '.' digits *)
Definition lex_decimal (s : str) : bool :=
  let '(_, body) := strip_sign s in
  let '(ip, fp) := split_dot body in
  all_digits ip &&
  match fp with
  | None => negb (Nat.eqb (length ip) 0)
  | Some f => all_digits f && negb (Nat.eqb (length ip + length f) 0)
  end.

Definition has_exponent (s : str) : bool :=
  existsb (fun c => N.eqb c 69 || N.eqb c 101) s.      (* 'E' 'e' *)

(* value of a digit string, most significant first *)
Definition dval (s : str) : Z := fold_left (fun a c => (10 * a + digit_val c)%Z) s 0%Z.
Definition nval (ds : list Z) : Z := fold_left (fun a d => (10 * a + d)%Z) ds 0%Z.

(* the number a lexical form denotes: (mantissa, scale) = mantissa * 10^-scale *)
Definition dec_value (s : str) : Z * nat :=
  let '(neg, body) := strip_sign s in
  let '(ip, fp) := split_dot body in
  let f := match fp with Some f => f | None => [] end in
  ((if neg then -1 else 1) * dval (ip ++ f), length f)%Z.

Definition pow10 (n : nat) : Z := (10 ^ Z.of_nat n)%Z.

(* out denotes exactly  (-1)^neg * nval ds * 10^e  *)
Definition denotes (out : str) (neg : bool) (ds : list Z) (e : Z) : Prop :=
  let '(m, k) := dec_value out in
  (m * pow10 (Z.to_nat (- e)) =
   (if neg then -1 else 1) * nval ds * pow10 (Z.to_nat e) * pow10 k)%Z.

Definition denotes_b (out : str) (neg : bool) (ds : list Z) (e : Z) : bool :=
  let '(m, k) := dec_value out in
  (m * pow10 (Z.to_nat (- e)) =?
   (if neg then -1 else 1) * nval ds * pow10 (Z.to_nat e) * pow10 k)%Z.

(* ---------- correspondence predicates (evaluated by the harness) ---------- *)
(* case = ((neg, digits, exponent), text the implementation produced) *)
Definition dcase := ((bool * list Z * Z) * str)%type.

Definition dec_agrees (c : dcase) : bool :=
  let '((neg, ds, e), out) := c in str_eqb (decimal_to_xsd neg ds e) out.

Definition dec_spec_ok (c : dcase) : bool :=
  let '((neg, ds, e), out) := c in
  lex_decimal out && negb (has_exponent out) && denotes_b out neg ds e.
