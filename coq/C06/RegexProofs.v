(* Lemmas for the regular expressions of suds.sax.date:
   1. the executable matcher of C06/Regex.v enumerates exactly the matches of
      the denotational semantics (any regex);
   2. the three patterns REGENERATED from the source (Gen/C06Tables.v:
      re_date, re_time, re_datetime) denote exactly what the hand-written
      scanner of C06/DateTime.v accepts, with the same fields, and their
      capture groups are forced (one match at most). *)
From SV Require Import Lib.Base C06.Decimal C06.DateTime C06.TimeProofs C06.Regex C06.RegexScan
  Gen.C06Tables.
From Coq Require Import ZifyBool ZifyNat ZifyN.

(* ------------------------------------------------------------------ *)
(* 1. matcher = semantics                                              *)
(* ------------------------------------------------------------------ *)
Lemma is_nil_app {A} (a b : list A) : is_nil (a ++ b) = is_nil a && is_nil b.
Proof. destruct a; reflexivity. Qed.

Lemma in_stop (mn : nat) (s w r : str) :
  In (w, r) (if Nat.eqb mn 0 then [([], s)] else []) <-> (mn = 0 /\ w = [] /\ r = s).
Proof.
  destruct (Nat.eqb_spec mn 0) as [->|Hmn]; cbn [In]; split.
  - intros [H|[]]. inversion H; subst. auto.
  - intros (_ & -> & ->). left; reflexivity.
  - intros [].
  - intros (H & _). contradiction.
Qed.

Lemma le_max_0 mx : le_max 0 mx.
Proof. destruct mx; cbn; [lia|exact I]. Qed.

Lemma rep_run_spec rs : forall s mn mx w r,
  In (w, r) (rep_run rs mn mx s) <->
  (s = w ++ r /\ forallb (in_cls rs) w = true /\ mn <= length w /\ le_max (length w) mx).
Proof.
  induction s as [|c s IH]; intros mn mx w r; cbn [rep_run].
  - rewrite in_stop. split.
    + intros (-> & -> & ->). cbn. repeat split; [lia|apply le_max_0].
    + intros (H & _ & Hl & _). destruct w; [|discriminate]. cbn in H, Hl. subst. repeat split. lia.
  - destruct (in_cls rs c && negb match mx with Some 0 => true | _ => false end) eqn:Hc.
    + apply andb_true_iff in Hc as [Hc1 Hc2].
      rewrite in_app_iff, in_map_iff, in_stop. split.
      * intros [((w', r') & Heq & Hin) | (-> & -> & ->)].
        -- cbn [fst snd] in Heq. inversion Heq; subst. apply IH in Hin as (-> & Hf & Hmn & Hmx).
           split; [reflexivity|]. cbn [forallb length]. rewrite Hc1, Hf.
           split; [reflexivity|]. split; [lia|].
           destruct mx as [[|m]|]; cbn in *; try discriminate; try exact I; lia.
        -- cbn. repeat split; [lia|apply le_max_0].
      * intros (Hs & Hf & Hmn & Hmx). destruct w as [|x w'].
        -- right. cbn in Hs, Hmn. repeat split; [lia|congruence].
        -- left. cbn in Hs. inversion Hs; subst. exists (w', r). split; [reflexivity|].
           apply IH. cbn [forallb] in Hf. apply andb_true_iff in Hf as [_ Hf].
           cbn [length] in Hmn, Hmx. repeat split; [assumption|lia|].
           destruct mx as [[|m]|]; cbn in *; try exact I; lia.
    + rewrite in_stop. split.
      * intros (-> & -> & ->). cbn. repeat split; [lia|apply le_max_0].
      * intros (Hs & Hf & Hmn & Hmx). destruct w as [|x w'].
        -- cbn in Hs, Hmn. repeat split; [lia|congruence].
        -- exfalso. cbn in Hs. inversion Hs; subst. cbn [forallb] in Hf.
           apply andb_true_iff in Hf as [Hf1 _]. rewrite Hf1 in Hc. cbn [andb] in Hc.
           cbn [length] in Hmx. destruct mx as [[|m]|]; cbn in *; try discriminate; lia.
Qed.

(* the matcher enumerates exactly the matches of the semantics *)
Lemma run_spec : forall r pre s w rest e,
  In (w, rest, e) (run r (is_nil pre) s) <-> (s = w ++ rest /\ M r pre w rest e).
Proof.
  induction r as [| | |c|rs|mn mx rs|a IHa|a IHa b IHb|a IHa b IHb|n a IHa];
    intros pre s w rest e; cbn [run M].
  - (* Eps *) split.
    + intros [H|[]]. inversion H; subst. auto.
    + intros (-> & -> & ->). left; reflexivity.
  - (* Bol *) destruct pre as [|p pre]; cbn [is_nil]; split.
    + intros [H|[]]. inversion H; subst. auto.
    + intros (-> & _ & -> & ->). left; reflexivity.
    + intros [].
    + intros (_ & H & _). discriminate.
  - (* Eol *) destruct s as [|c [|c' s']].
    + split.
      * intros [H|[]]. inversion H; subst. auto.
      * intros (H & -> & -> & _). cbn in H. subst. left; reflexivity.
    + destruct (N.eqb_spec c 10) as [->|Hc]; split.
      * intros [H|[]]. inversion H; subst. auto.
      * intros (H & -> & -> & _). cbn in H. subst. left; reflexivity.
      * intros [].
      * intros (H & -> & _ & [->| ->]); cbn in H; [discriminate|]. inversion H. contradiction.
    + split; [intros []|]. intros (H & -> & _ & [->| ->]); cbn in H; discriminate.
  - (* Chr *) destruct s as [|x s']; [|destruct (N.eqb_spec x c) as [->|Hx]]; split.
    + intros [].
    + intros (H & -> & _). discriminate.
    + intros [H|[]]. inversion H; subst. auto.
    + intros (H & -> & ->). cbn in H. inversion H; subst. left; reflexivity.
    + intros [].
    + intros (H & -> & _). cbn in H. inversion H. contradiction.
  - (* Cls *) destruct s as [|x s']; [|destruct (in_cls rs x) eqn:Hx]; split.
    + intros [].
    + intros (H & c & -> & _). discriminate.
    + intros [H|[]]. inversion H; subst. split; [reflexivity|]. exists x. auto.
    + intros (H & c & -> & _ & ->). cbn in H. inversion H; subst. left; reflexivity.
    + intros [].
    + intros (H & c & -> & Hc & _). cbn in H. inversion H; subst. congruence.
  - (* Rep *) rewrite in_map_iff. split.
    + intros ((w', r') & Heq & Hin). cbn [fst snd] in Heq. inversion Heq; subst.
      apply rep_run_spec in Hin. tauto.
    + intros (Hs & Hf & Hmn & Hmx & ->). exists (w, rest). split; [reflexivity|].
      apply rep_run_spec. tauto.
  - (* Opt *) rewrite in_app_iff, IHa. split.
    + intros [[Hs HM]|[H|[]]]; [tauto|]. inversion H; subst. auto.
    + intros (Hs & [HM|(-> & ->)]); [tauto|]. right. cbn in Hs. subst. left; reflexivity.
  - (* Cat *) rewrite in_flat_map. split.
    + intros ([[w1 s1] e1] & Hin1 & Hin2). apply in_map_iff in Hin2 as ([[w2 s2] e2] & Heq & Hin2).
      inversion Heq; subst. apply IHa in Hin1 as (-> & HM1).
      rewrite <- is_nil_app in Hin2. apply IHb in Hin2 as (-> & HM2).
      split; [apply app_assoc|]. exists w1, w2, e1, e2. auto.
    + intros (Hs & w1 & w2 & e1 & e2 & -> & -> & HM1 & HM2).
      exists (w1, w2 ++ rest, e1). split.
      * apply IHa. split; [rewrite Hs; symmetry; apply app_assoc|assumption].
      * apply in_map_iff. exists (w2, rest, e2). split; [reflexivity|].
        rewrite <- is_nil_app. apply IHb. auto.
  - (* Alt *) rewrite in_app_iff, IHa, IHb. tauto.
  - (* Grp *) rewrite in_map_iff. split.
    + intros ([[w' s'] e'] & Heq & Hin). inversion Heq; subst. apply IHa in Hin as (-> & HM).
      split; [reflexivity|]. exists e'. auto.
    + intros (Hs & e1 & HM & ->). exists (w, rest, e1). split; [reflexivity|]. apply IHa. auto.
Qed.

(* pattern.match(s): Some captures of a match of the semantics, None iff there is none *)
Lemma exec_match_correct_l : forall r s,
  match exec_match r s with
  | Some e => re_matches r s e
  | None => forall e, ~ re_matches r s e
  end.
Proof.
  intros r s. unfold exec_match. destruct (run r true s) as [|[[w rest] e] l] eqn:E.
  - intros e (w & post & Hs & HM).
    assert (H : In (w, post, e) (run r (is_nil []) s)) by (apply run_spec; auto).
    cbn [is_nil] in H. rewrite E in H. destruct H.
  - exists w, rest. apply (run_spec r [] s). cbn [is_nil]. rewrite E. left; reflexivity.
Qed.

(* every match of the semantics is found by the enumeration, and conversely *)
Lemma run_enumerates_l : forall r s e,
  re_matches r s e <-> exists w rest, In (w, rest, e) (run r true s).
Proof.
  intros r s e. split.
  - intros (w & post & Hs & HM). exists w, post. apply (run_spec r [] s). auto.
  - intros (w & rest & H). apply (run_spec r [] s) in H. exists w, rest. exact H.
Qed.

(* ------------------------------------------------------------------ *)
(* 2. the patterns of the source                                       *)
(* ------------------------------------------------------------------ *)
(* the shape the scanner was written for, in pieces *)
Definition dig : cset := [(48, 57)]%N.
Definition r_d12 : re := Rep 1 (Some 2) dig.                       (* \d{1,2} *)
Definition r_d1 : re := Rep 1 None dig.                            (* \d{1,} and \d+ *)
Definition r_f59 : re := Cat (Rep 0 (Some 1) [(48, 53)]%N) (Cls dig).   (* [0-5]?[0-9] *)

Definition r_zone : re :=
  Alt (Cat (Grp n_tz_sign (Cls [(45, 45); (43, 43)]%N))
           (Cat (Grp n_tz_hour r_d12)
                (Opt (Cat (Chr 58) (Grp n_tz_minute r_f59)))))
      (Grp n_tz_utc (Cls [(90, 90); (122, 122)]%N)).
Definition r_tail : re := Cat (Opt r_zone) Eol.

Definition ymd_then (k : re) : re :=
  Cat (Grp n_year r_d1) (Cat (Chr 45) (Cat (Grp n_month r_d12) (Cat (Chr 45) (Cat (Grp n_day r_d12) k)))).
Definition hms_then (k : re) : re :=
  Cat (Grp n_hour r_d12) (Cat (Chr 58) (Cat (Grp n_minute r_f59) (Cat (Chr 58) (Cat (Grp n_second r_f59)
    (Cat (Opt (Cat (Chr 46) (Grp n_subsecond r_d1))) k))))).

(* the regenerated patterns ARE these pieces put together; this is the step
   that fails when the source patterns (or their flags) change *)
Lemma re_date_shape : re_date = Cat Bol (ymd_then r_tail).
Proof. reflexivity. Qed.
Lemma re_time_shape : re_time = Cat Bol (hms_then r_tail).
Proof. reflexivity. Qed.
Lemma re_datetime_shape :
  re_datetime = Cat Bol (ymd_then (Cat (Cls [(84, 84); (32, 32)]%N) (hms_then r_tail))).
Proof. reflexivity. Qed.

(* --- character sets ------------------------------------------------ *)
Lemma in_dig c : in_cls dig c = is_digit c.
Proof. unfold in_cls, dig, is_digit. cbn [existsb fst snd]. apply orb_false_r. Qed.

Lemma forallb_dig w : forallb (in_cls dig) w = all_digits w.
Proof. induction w as [|c w IH]; cbn [forallb all_digits]; [reflexivity|]. rewrite in_dig, IH. reflexivity. Qed.

Lemma len12_length w : len12 w = true <-> 1 <= length w <= 2.
Proof.
  destruct w as [|a [|b [|c w]]]; cbn; split; intros H; try lia; try reflexivity; discriminate.
Qed.

Lemma at_end_cases s : at_end s = true <-> (s = [] \/ s = [10%N]).
Proof.
  destruct s as [|c [|c' s]]; cbn; split; intros H; auto; try discriminate.
  - apply N.eqb_eq in H. subst. auto.
  - destruct H as [H|H]; [discriminate|]. inversion H. reflexivity.
  - destruct H as [H|H]; discriminate.
Qed.

(* --- the field pieces ----------------------------------------------- *)
Lemma M_d12 pre w post e : M r_d12 pre w post e <-> ((all_digits w = true /\ len12 w = true) /\ e = []).
Proof. unfold r_d12. cbn [M le_max]. rewrite forallb_dig, len12_length. tauto. Qed.

Lemma M_d1 pre w post e : M r_d1 pre w post e <-> ((all_digits w = true /\ w <> []) /\ e = []).
Proof.
  unfold r_d1. cbn [M le_max]. rewrite forallb_dig. destruct w; cbn [length]; split.
  - intros (_ & H & _). lia.
  - intros ((_ & H) & _). contradiction.
  - intros (H & _ & _ & He). repeat split; [assumption|discriminate|assumption].
  - intros ((H & _) & He). repeat split; [assumption|lia|assumption].
Qed.

Lemma M_f59 pre w post e : M r_f59 pre w post e <-> ((all_digits w = true /\ f59 w = true) /\ e = []).
Proof.
  unfold r_f59. cbn [M le_max]. split.
  - intros (w1 & w2 & e1 & e2 & -> & -> & (Hf & _ & Hl & ->) & c & -> & Hc & ->).
    rewrite in_dig in Hc. split; [|reflexivity].
    destruct w1 as [|a [|b w1]]; cbn [length] in Hl; [| |lia].
    + cbn. rewrite Hc. auto.
    + cbn [forallb] in Hf. unfold in_cls in Hf. cbn [existsb fst snd] in Hf.
      cbn [app all_digits f59]. rewrite Hc. unfold is_digit. split; lia.
  - intros ((Hd & Hf) & ->). destruct w as [|a [|b [|c w]]]; try discriminate.
    + exists [], [a], [], []. cbn [all_digits] in Hd. rewrite andb_true_r in Hd.
      split; [reflexivity|]. split; [reflexivity|]. split.
      * cbn [forallb length]. repeat split; lia.
      * exists a. rewrite in_dig. auto.
    + exists [a], [b], [], []. cbn [all_digits f59] in Hd, Hf.
      split; [reflexivity|]. split; [reflexivity|]. split.
      * cbn [forallb length]. unfold in_cls. cbn [existsb fst snd]. unfold is_digit in Hd.
        repeat split; lia.
      * exists b. rewrite in_dig. unfold is_digit in *. repeat split. lia.
Qed.

(* a named field followed by the rest of the pattern *)
Lemma M_field_then n F (P : str -> Prop) k :
  (forall pre w post e, M F pre w post e <-> (P w /\ e = [])) ->
  forall pre w post e,
    M (Cat (Grp n F) k) pre w post e <->
    exists w1 w2 e2, w = w1 ++ w2 /\ P w1 /\ M k (pre ++ w1) w2 post e2 /\ e = (n, w1) :: e2.
Proof.
  intros HF pre w post e. cbn [M]. split.
  - intros (w1 & w2 & e1 & e2 & -> & -> & (e0 & H0 & ->) & Hk).
    apply HF in H0 as (HP & ->). exists w1, w2, e2. auto.
  - intros (w1 & w2 & e2 & -> & HP & Hk & ->).
    exists w1, w2, [(n, w1)], e2. repeat split; [|assumption].
    exists []. split; [|reflexivity]. apply HF. auto.
Qed.

Lemma M_chr_then c k pre w post e :
  M (Cat (Chr c) k) pre w post e <-> exists w2, w = c :: w2 /\ M k (pre ++ [c]) w2 post e.
Proof.
  cbn [M]. split.
  - intros (w1 & w2 & e1 & e2 & -> & -> & (-> & ->) & Hk). exists w2. auto.
  - intros (w2 & -> & Hk). exists [c], w2, [], e. auto.
Qed.

(* --- year-month-day -------------------------------------------------- *)
Definition ymd_env (f : date_f) : caps := [(n_year, f_y f); (n_month, f_mo f); (n_day, f_d f)].

Lemma ymd_then_inv k pre w post e :
  M (ymd_then k) pre w post e ->
  exists y mo d w' e' pre',
    w = y ++ ch_minus :: mo ++ ch_minus :: d ++ w' /\
    all_digits y = true /\ y <> [] /\ all_digits mo = true /\ len12 mo = true /\
    all_digits d = true /\ len12 d = true /\
    M k pre' w' post e' /\ e = ymd_env (mkDF y mo d) ++ e'.
Proof.
  unfold ymd_then. intro H.
  apply (M_field_then _ _ _ _ M_d1) in H as (y & w2 & e2 & -> & (Hy1 & Hy2) & H & ->).
  apply M_chr_then in H as (w3 & -> & H).
  apply (M_field_then _ _ _ _ M_d12) in H as (mo & w4 & e4 & -> & (Hm1 & Hm2) & H & ->).
  apply M_chr_then in H as (w5 & -> & H).
  apply (M_field_then _ _ _ _ M_d12) in H as (d & w' & e' & -> & (Hd1 & Hd2) & H & ->).
  exists y, mo, d, w', e'. eexists. repeat split; try eassumption.
Qed.

Lemma ymd_then_intro k pre y mo d w' post e' :
  all_digits y = true -> y <> [] -> all_digits mo = true -> len12 mo = true ->
  all_digits d = true -> len12 d = true ->
  (forall pre', M k pre' w' post e') ->
  M (ymd_then k) pre (y ++ ch_minus :: mo ++ ch_minus :: d ++ w') post (ymd_env (mkDF y mo d) ++ e').
Proof.
  intros Hy1 Hy2 Hm1 Hm2 Hd1 Hd2 Hk. unfold ymd_then.
  apply (M_field_then _ _ _ _ M_d1). eexists y, _, _. repeat split; try eassumption.
  apply M_chr_then. eexists. split; [reflexivity|].
  apply (M_field_then _ _ _ _ M_d12). eexists mo, _, _. repeat split; try eassumption.
  apply M_chr_then. eexists. split; [reflexivity|].
  apply (M_field_then _ _ _ _ M_d12). eexists d, _, _. repeat split; try eassumption.
  apply Hk.
Qed.

(* --- hour:minute:second(.fraction)? ---------------------------------- *)
Definition sub_text (o : option str) : str := match o with Some sub => ch_dot :: sub | None => [] end.
Definition hms_env (f : time_f) : caps :=
  [(n_hour, f_h f); (n_minute, f_mi f); (n_second, f_s f)] ++
  match f_sub f with Some sub => [(n_subsecond, sub)] | None => [] end.

Definition sub_ok (o : option str) : Prop :=
  match o with Some sub => all_digits sub = true /\ sub <> [] | None => True end.

Lemma hms_then_inv k pre w post e :
  M (hms_then k) pre w post e ->
  exists h mi sec osub w' e' pre',
    w = h ++ ch_colon :: mi ++ ch_colon :: sec ++ sub_text osub ++ w' /\
    all_digits h = true /\ len12 h = true /\ all_digits mi = true /\ f59 mi = true /\
    all_digits sec = true /\ f59 sec = true /\ sub_ok osub /\
    M k pre' w' post e' /\ e = hms_env (mkTF h mi sec osub) ++ e'.
Proof.
  unfold hms_then. intro H.
  apply (M_field_then _ _ _ _ M_d12) in H as (h & w2 & e2 & -> & (Hh1 & Hh2) & H & ->).
  apply M_chr_then in H as (w3 & -> & H).
  apply (M_field_then _ _ _ _ M_f59) in H as (mi & w4 & e4 & -> & (Hm1 & Hm2) & H & ->).
  apply M_chr_then in H as (w5 & -> & H).
  apply (M_field_then _ _ _ _ M_f59) in H as (sec & w6 & e6 & -> & (Hs1 & Hs2) & H & ->).
  cbn [M] in H. destruct H as (w7 & w' & e7 & e' & -> & -> & [H7|(-> & ->)] & Hk).
  - destruct H7 as (x1 & x2 & f1 & f2 & -> & -> & (-> & ->) & (f0 & H0 & ->)).
    change (M r_d1 ((((((pre ++ h) ++ [58%N]) ++ mi) ++ [58%N]) ++ sec) ++ [46%N]) x2 (w' ++ post) f0) in H0.
    apply M_d1 in H0 as ((Hx1 & Hx2) & ->).
    exists h, mi, sec, (Some x2), w', e'. eexists. cbn [sub_text sub_ok].
    repeat split; try eassumption.
  - exists h, mi, sec, None, w', e'. eexists. cbn [sub_text sub_ok].
    repeat split; try eassumption.
Qed.

Lemma hms_then_intro k pre h mi sec osub w' post e' :
  all_digits h = true -> len12 h = true -> all_digits mi = true -> f59 mi = true ->
  all_digits sec = true -> f59 sec = true -> sub_ok osub ->
  (forall pre', M k pre' w' post e') ->
  M (hms_then k) pre (h ++ ch_colon :: mi ++ ch_colon :: sec ++ sub_text osub ++ w') post
    (hms_env (mkTF h mi sec osub) ++ e').
Proof.
  intros Hh1 Hh2 Hm1 Hm2 Hs1 Hs2 Hsub Hk. unfold hms_then.
  apply (M_field_then _ _ _ _ M_d12). eexists h, _, _. repeat split; try eassumption.
  apply M_chr_then. eexists. split; [reflexivity|].
  apply (M_field_then _ _ _ _ M_f59). eexists mi, _, _. repeat split; try eassumption.
  apply M_chr_then. eexists. split; [reflexivity|].
  apply (M_field_then _ _ _ _ M_f59). eexists sec, _, _. repeat split; try eassumption.
  cbn [M]. destruct osub as [sub|]; cbn [sub_text sub_ok f_sub hms_env app] in *.
  - destruct Hsub as [Hx1 Hx2].
    exists (ch_dot :: sub), w', [(n_subsecond, sub)], e'. repeat split; [|apply Hk].
    left. exists [ch_dot], sub, [], [(n_subsecond, sub)]. repeat split.
    exists []. split; [|reflexivity]. apply M_d1. auto.
  - exists [], w', [], e'. repeat split; [|apply Hk]. right. auto.
Qed.

(* --- zone designator and the end of the text -------------------------- *)
Definition zcaps (z : zone_f) (c : N) : caps :=
  match z with
  | ZAbsent => []
  | ZUtc => [(n_tz_utc, [c])]
  | ZOff _ h None => [(n_tz_sign, [c]); (n_tz_hour, h)]
  | ZOff _ h (Some m) => [(n_tz_sign, [c]); (n_tz_hour, h); (n_tz_minute, m)]
  end.

(* ztail zr z e: zr (everything after the date/time fields) is a zone
   designator z followed by the end of the text, binding the groups e *)
Inductive ztail : str -> zone_f -> caps -> Prop :=
| ZT_none post : at_end post = true -> ztail post ZAbsent []
| ZT_utc c post : (c = 90 \/ c = 122)%N -> at_end post = true ->
    ztail (c :: post) ZUtc [(n_tz_utc, [c])]
| ZT_h c h post : (c = ch_plus \/ c = ch_minus) -> all_digits h = true -> len12 h = true ->
    at_end post = true ->
    ztail (c :: h ++ post) (ZOff (N.eqb c ch_minus) h None) [(n_tz_sign, [c]); (n_tz_hour, h)]
| ZT_hm c h m post : (c = ch_plus \/ c = ch_minus) -> all_digits h = true -> len12 h = true ->
    all_digits m = true -> f59 m = true -> at_end post = true ->
    ztail (c :: h ++ ch_colon :: m ++ post) (ZOff (N.eqb c ch_minus) h (Some m))
          [(n_tz_sign, [c]); (n_tz_hour, h); (n_tz_minute, m)].

Lemma M_cls rs pre w post e :
  M (Cls rs) pre w post e <-> ((exists c, w = [c] /\ in_cls rs c = true) /\ e = []).
Proof.
  cbn [M]. split.
  - intros (c & -> & Hc & ->). split; [exists c; auto|reflexivity].
  - intros ((c & -> & Hc) & ->). exists c. auto.
Qed.

Lemma in_pm c : in_cls [(45, 45); (43, 43)]%N c = true <-> (c = ch_plus \/ c = ch_minus).
Proof. unfold in_cls, ch_plus, ch_minus. cbn [existsb fst snd]. lia. Qed.

Lemma in_zz c : in_cls [(90, 90); (122, 122)]%N c = true <-> (c = 90 \/ c = 122)%N.
Proof. unfold in_cls. cbn [existsb fst snd]. lia. Qed.

Lemma M_zone_inv pre w post e : M r_zone pre w post e ->
  (exists c, w = [c] /\ (c = 90 \/ c = 122)%N /\ e = [(n_tz_utc, [c])]) \/
  (exists c h, w = c :: h /\ (c = ch_plus \/ c = ch_minus) /\ all_digits h = true /\ len12 h = true /\
               e = [(n_tz_sign, [c]); (n_tz_hour, h)]) \/
  (exists c h m, w = c :: h ++ ch_colon :: m /\ (c = ch_plus \/ c = ch_minus) /\
                 all_digits h = true /\ len12 h = true /\ all_digits m = true /\ f59 m = true /\
                 e = [(n_tz_sign, [c]); (n_tz_hour, h); (n_tz_minute, m)]).
Proof.
  unfold r_zone. intros [H|H].
  - right.
    apply (M_field_then _ _ _ _ (M_cls _)) in H as (w1 & w2 & e2 & -> & (c & -> & Hc) & H & ->).
    apply in_pm in Hc.
    apply (M_field_then _ _ _ _ M_d12) in H as (h & w4 & e4 & -> & (Hh1 & Hh2) & H & ->).
    destruct H as [H|(-> & ->)].
    + right. apply M_chr_then in H as (m & -> & (e1 & H & ->)).
      apply M_f59 in H as ((Hm1 & Hm2) & ->).
      exists c, h, m. repeat split; assumption.
    + left. exists c, h. rewrite app_nil_r. repeat split; assumption.
  - left. destruct H as (e1 & H & ->). apply M_cls in H as ((c & -> & Hc) & ->).
    apply in_zz in Hc. exists c. auto.
Qed.

Lemma M_zone_utc pre c post : (c = 90 \/ c = 122)%N -> M r_zone pre [c] post [(n_tz_utc, [c])].
Proof.
  intro Hc. unfold r_zone. right. exists []. split; [|reflexivity].
  apply M_cls. split; [|reflexivity]. exists c. split; [reflexivity|]. apply in_zz. exact Hc.
Qed.

Lemma M_zone_h pre c h post : (c = ch_plus \/ c = ch_minus) -> all_digits h = true -> len12 h = true ->
  M r_zone pre (c :: h) post [(n_tz_sign, [c]); (n_tz_hour, h)].
Proof.
  intros Hc Hh1 Hh2. unfold r_zone. left.
  apply (M_field_then _ _ _ _ (M_cls _)). exists [c], h, [(n_tz_hour, h)].
  repeat split; [exists c; split; [reflexivity|apply in_pm; exact Hc]|].
  apply (M_field_then _ _ _ _ M_d12). exists h, [], []. rewrite app_nil_r.
  repeat split; try assumption. right. auto.
Qed.

Lemma M_zone_hm pre c h m post : (c = ch_plus \/ c = ch_minus) -> all_digits h = true -> len12 h = true ->
  all_digits m = true -> f59 m = true ->
  M r_zone pre (c :: h ++ ch_colon :: m) post [(n_tz_sign, [c]); (n_tz_hour, h); (n_tz_minute, m)].
Proof.
  intros Hc Hh1 Hh2 Hm1 Hm2. unfold r_zone. left.
  apply (M_field_then _ _ _ _ (M_cls _)). exists [c], (h ++ ch_colon :: m), [(n_tz_hour, h); (n_tz_minute, m)].
  repeat split; [exists c; split; [reflexivity|apply in_pm; exact Hc]|].
  apply (M_field_then _ _ _ _ M_d12). exists h, (ch_colon :: m), [(n_tz_minute, m)].
  repeat split; try assumption. left.
  apply M_chr_then. exists m. split; [reflexivity|]. exists []. split; [|reflexivity].
  apply M_f59. auto.
Qed.

Lemma M_tail_intro pre w post e : at_end post = true ->
  (M r_zone pre w post e \/ (w = [] /\ e = [])) -> M r_tail pre w post e.
Proof.
  intros Hp Hz. unfold r_tail. exists w, [], e, []. rewrite !app_nil_r.
  repeat split; [exact Hz|]. apply at_end_cases. exact Hp.
Qed.

Lemma ztail_of_M pre w post e : M r_tail pre w post e -> exists z, ztail (w ++ post) z e.
Proof.
  unfold r_tail. intros (w1 & w2 & e1 & e2 & -> & -> & Hz & (-> & -> & Hp)).
  apply at_end_cases in Hp. rewrite !app_nil_r. cbn [app] in Hz.
  destruct Hz as [Hz|(-> & ->)].
  - apply M_zone_inv in Hz as [(c & -> & Hc & ->)|[(c & h & -> & Hc & Hh1 & Hh2 & ->)|
                                (c & h & m & -> & Hc & Hh1 & Hh2 & Hm1 & Hm2 & ->)]].
    + eexists. apply ZT_utc; assumption.
    + eexists. cbn [app]. apply ZT_h; assumption.
    + eexists. cbn [app]. rewrite <- app_assoc. cbn [app]. apply ZT_hm; assumption.
  - eexists. apply ZT_none. exact Hp.
Qed.

Lemma M_of_ztail zr z e : ztail zr z e ->
  exists w post, zr = w ++ post /\ forall pre, M r_tail pre w post e.
Proof.
  intros [post Hp|c post Hc Hp|c h post Hc Hh1 Hh2 Hp|c h m post Hc Hh1 Hh2 Hm1 Hm2 Hp].
  - exists [], post. split; [reflexivity|]. intro pre. apply M_tail_intro; auto.
  - exists [c], post. split; [reflexivity|]. intro pre. apply M_tail_intro; [assumption|].
    left. apply M_zone_utc. exact Hc.
  - exists (c :: h), post. split; [reflexivity|]. intro pre. apply M_tail_intro; [assumption|].
    left. apply M_zone_h; assumption.
  - exists (c :: h ++ ch_colon :: m), post. split; [cbn [app]; rewrite <- app_assoc; reflexivity|].
    intro pre. apply M_tail_intro; [assumption|]. left. apply M_zone_hm; assumption.
Qed.

Lemma at_end_nodot p : at_end p = true -> head_nd_nodot p = true.
Proof. intro H. apply at_end_cases in H as [->| ->]; reflexivity. Qed.

Lemma sign_facts c : (c = ch_plus \/ c = ch_minus) ->
  (N.eqb c 90 || N.eqb c 122) = false /\ (N.eqb c ch_plus || N.eqb c ch_minus) = true /\
  (negb (is_digit c) && negb (N.eqb c ch_dot)) = true.
Proof. intros [->| ->]; repeat split; reflexivity. Qed.

(* the scanner accepts a zone tail, with these fields; the captures are a
   function of the text *)
Lemma ztail_scan zr z e : ztail zr z e ->
  scan_zone zr = Some z /\ e = zcaps z (hd 0%N zr) /\ head_nd_nodot zr = true.
Proof.
  intros [post Hp|c post Hc Hp|c h post Hc Hh1 Hh2 Hp|c h m post Hc Hh1 Hh2 Hm1 Hm2 Hp].
  - unfold scan_zone. rewrite Hp. repeat split. apply at_end_nodot. exact Hp.
  - apply at_end_cases in Hp. destruct Hc as [->| ->]; destruct Hp as [->| ->]; repeat split; reflexivity.
  - destruct (sign_facts c Hc) as (E2 & E3 & E4).
    assert (Hat : at_end (c :: h ++ post) = false) by (destruct h; [discriminate|reflexivity]).
    repeat split; [|cbn [head_nd_nodot]; exact E4].
    unfold scan_zone. rewrite Hat, E2, E3.
    rewrite (span_digits_app h post Hh1 (head_nd_nodot_nd _ (at_end_nodot _ Hp))). cbn beta iota.
    rewrite Hh2, Hp. reflexivity.
  - destruct (sign_facts c Hc) as (E2 & E3 & E4).
    assert (Hat : at_end (c :: h ++ ch_colon :: m ++ post) = false) by (destruct h; [discriminate|reflexivity]).
    assert (Hat2 : at_end (ch_colon :: m ++ post) = false) by (destruct m; [discriminate|reflexivity]).
    repeat split; [|cbn [head_nd_nodot]; exact E4].
    unfold scan_zone. rewrite Hat, E2, E3.
    rewrite (span_digits_app h (ch_colon :: m ++ post) Hh1 eq_refl). cbn beta iota.
    rewrite Hh2, Hat2, N.eqb_refl.
    rewrite (span_digits_app m post Hm1 (head_nd_nodot_nd _ (at_end_nodot _ Hp))). cbn beta iota.
    rewrite Hm2, Hp. reflexivity.
Qed.

(* --- inverting the scanner ------------------------------------------- *)
Lemma span_digits_inv : forall s a b, span_digits s = (a, b) ->
  s = a ++ b /\ all_digits a = true /\ head_nd b = true.
Proof.
  induction s as [|c s IH]; intros a b H; cbn [span_digits] in H.
  - inversion H; subst. auto.
  - destruct (is_digit c) eqn:Hc.
    + destruct (span_digits s) as [a' b'] eqn:E. inversion H; subst.
      destruct (IH _ _ eq_refl) as (-> & Ha & Hb). cbn [all_digits]. rewrite Hc, Ha. auto.
    + inversion H; subst. cbn. rewrite Hc. auto.
Qed.

Lemma orb_sign c : (N.eqb c ch_plus || N.eqb c ch_minus) = true -> (c = ch_plus \/ c = ch_minus).
Proof. intro H. apply orb_true_iff in H as [H|H]; apply N.eqb_eq in H; auto. Qed.

Lemma scan_zone_inv zr z : scan_zone zr = Some z -> exists e, ztail zr z e.
Proof.
  unfold scan_zone. destruct (at_end zr) eqn:Hat.
  - intro H. inversion H; subst. eexists. apply ZT_none. exact Hat.
  - destruct zr as [|c r]; [discriminate|].
    destruct (N.eqb c 90 || N.eqb c 122) eqn:Hz.
    + destruct (at_end r) eqn:Hr; [|discriminate]. intro H. inversion H; subst.
      eexists. apply ZT_utc; [|exact Hr].
      apply orb_true_iff in Hz as [Hz|Hz]; apply N.eqb_eq in Hz; auto.
    + destruct (N.eqb c ch_plus || N.eqb c ch_minus) eqn:Hs; [|discriminate].
      apply orb_sign in Hs.
      destruct (span_digits r) as [h r1] eqn:E. apply span_digits_inv in E as (-> & Hh1 & _).
      destruct (len12 h) eqn:Hh2; [|discriminate].
      destruct (at_end r1) eqn:Hr1.
      * intro H. inversion H; subst. eexists. apply ZT_h; assumption.
      * destruct r1 as [|c1 r2]; [discriminate|].
        destruct (N.eqb_spec c1 ch_colon) as [->|Hc1]; [|discriminate].
        destruct (span_digits r2) as [m r3] eqn:E. apply span_digits_inv in E as (-> & Hm1 & _).
        destruct (f59 m && at_end r3) eqn:Hm; [|discriminate].
        apply andb_true_iff in Hm as [Hm2 Hr3].
        intro H. inversion H; subst. eexists. apply ZT_hm; assumption.
Qed.

Lemma scan_ymd_inv s f r : scan_ymd s = Some (f, r) ->
  s = f_y f ++ ch_minus :: f_mo f ++ ch_minus :: f_d f ++ r /\
  all_digits (f_y f) = true /\ f_y f <> [] /\ all_digits (f_mo f) = true /\ len12 (f_mo f) = true /\
  all_digits (f_d f) = true /\ len12 (f_d f) = true.
Proof.
  unfold scan_ymd. destruct (span_digits s) as [y r1] eqn:E. apply span_digits_inv in E as (-> & Hy & _).
  destruct y as [|y0 y]; [discriminate|]. destruct r1 as [|c1 r2]; [discriminate|].
  destruct (N.eqb_spec c1 ch_minus) as [->|Hc1]; [|discriminate]. cbn [negb].
  destruct (span_digits r2) as [mo r3] eqn:E. apply span_digits_inv in E as (-> & Hmo & _).
  destruct (len12 mo) eqn:Lmo; [|discriminate]. cbn [negb].
  destruct r3 as [|c3 r4]; [discriminate|].
  destruct (N.eqb_spec c3 ch_minus) as [->|Hc3]; [|discriminate]. cbn [negb].
  destruct (span_digits r4) as [d r5] eqn:E. apply span_digits_inv in E as (-> & Hd & _).
  destruct (len12 d) eqn:Ld; [|discriminate]. cbn [negb].
  intro H. inversion H; subst. cbn [f_y f_mo f_d]. repeat split; try assumption. discriminate.
Qed.

Lemma scan_hms_inv s f r : scan_hms s = Some (f, r) ->
  s = f_h f ++ ch_colon :: f_mi f ++ ch_colon :: f_s f ++ sub_text (f_sub f) ++ r /\
  all_digits (f_h f) = true /\ len12 (f_h f) = true /\ all_digits (f_mi f) = true /\ f59 (f_mi f) = true /\
  all_digits (f_s f) = true /\ f59 (f_s f) = true /\ sub_ok (f_sub f).
Proof.
  unfold scan_hms. destruct (span_digits s) as [h r1] eqn:E. apply span_digits_inv in E as (-> & Hh & _).
  destruct (len12 h) eqn:Lh; [|discriminate]. cbn [negb].
  destruct r1 as [|c1 r2]; [discriminate|].
  destruct (N.eqb_spec c1 ch_colon) as [->|Hc1]; [|discriminate]. cbn [negb].
  destruct (span_digits r2) as [mi r3] eqn:E. apply span_digits_inv in E as (-> & Hmi & _).
  destruct (f59 mi) eqn:Fmi; [|discriminate]. cbn [negb].
  destruct r3 as [|c3 r4]; [discriminate|].
  destruct (N.eqb_spec c3 ch_colon) as [->|Hc3]; [|discriminate]. cbn [negb].
  destruct (span_digits r4) as [sec r5] eqn:E. apply span_digits_inv in E as (-> & Hsec & _).
  destruct (f59 sec) eqn:Fsec; [|discriminate]. cbn [negb].
  destruct r5 as [|c5 r6].
  - intro H. inversion H; subst. cbn [f_h f_mi f_s f_sub sub_text sub_ok app]. repeat split; assumption.
  - destruct (N.eqb_spec c5 ch_dot) as [->|Hc5].
    + destruct (span_digits r6) as [sub r7] eqn:E. apply span_digits_inv in E as (-> & Hsub & _).
      destruct sub as [|s0 sub]; [discriminate|].
      intro H. inversion H; subst. cbn [f_h f_mi f_s f_sub sub_text sub_ok].
      repeat split; try assumption. discriminate.
    + intro H. inversion H; subst. cbn [f_h f_mi f_s f_sub sub_text sub_ok app]. repeat split; assumption.
Qed.

(* --- the three patterns ------------------------------------------------ *)
(* the captures of a match, as a function of the text: field boundaries are forced *)
Definition zone_env (r : str) : caps :=
  match scan_zone r with Some z => zcaps z (hd 0%N r) | None => [] end.
Definition date_env (s : str) : caps :=
  match scan_ymd s with Some (df, r) => ymd_env df ++ zone_env r | None => [] end.
Definition time_env (s : str) : caps :=
  match scan_hms s with Some (tf, r) => hms_env tf ++ zone_env r | None => [] end.
Definition datetime_env (s : str) : caps :=
  match scan_ymd s with
  | Some (df, _ :: r) =>
      match scan_hms r with
      | Some (tf, r') => ymd_env df ++ hms_env tf ++ zone_env r'
      | None => []
      end
  | _ => []
  end.

Lemma zone_env_ok r z ez : ztail r z ez -> scan_zone r = Some z /\ zone_env r = ez.
Proof.
  intro Hz. destruct (ztail_scan _ _ _ Hz) as (Hs & He & _). split; [exact Hs|].
  unfold zone_env. rewrite Hs. symmetry. exact He.
Qed.

Lemma date_caps_ok y mo d r z ez : ztail r z ez ->
  date_fields_of_caps (ymd_env (mkDF y mo d) ++ ez) = (mkDF y mo d, z).
Proof. intros [post Hp|c post Hc Hp|c h post Hc Hh1 Hh2 Hp|c h m post Hc Hh1 Hh2 Hm1 Hm2 Hp];
  try destruct Hc as [->| ->]; reflexivity. Qed.

Lemma time_caps_ok h mi sec osub r z ez : ztail r z ez ->
  time_fields_of_caps (hms_env (mkTF h mi sec osub) ++ ez) = (mkTF h mi sec osub, z).
Proof. intros [post Hp|c post Hc Hp|c h0 post Hc Hh1 Hh2 Hp|c h0 m post Hc Hh1 Hh2 Hm1 Hm2 Hp];
  try destruct Hc as [->| ->]; destruct osub; reflexivity. Qed.

Lemma datetime_caps_ok y mo d h mi sec osub r z ez : ztail r z ez ->
  datetime_fields_of_caps (ymd_env (mkDF y mo d) ++ hms_env (mkTF h mi sec osub) ++ ez)
  = (mkDF y mo d, mkTF h mi sec osub, z).
Proof. intros [post Hp|c post Hc Hp|c h0 post Hc Hh1 Hh2 Hp|c h0 m post Hc Hh1 Hh2 Hm1 Hm2 Hp];
  try destruct Hc as [->| ->]; destruct osub; reflexivity. Qed.

Lemma reassoc_ymd (y mo d t p : str) :
  (y ++ ch_minus :: mo ++ ch_minus :: d ++ t) ++ p = y ++ ch_minus :: mo ++ ch_minus :: d ++ (t ++ p).
Proof. repeat (rewrite <- app_assoc; cbn [app]). reflexivity. Qed.

Lemma reassoc_hms (h mi sec u t p : str) :
  (h ++ ch_colon :: mi ++ ch_colon :: sec ++ u ++ t) ++ p = h ++ ch_colon :: mi ++ ch_colon :: sec ++ u ++ (t ++ p).
Proof. repeat (rewrite <- app_assoc; cbn [app]). reflexivity. Qed.

(* hour:minute:second, zone, end *)
Lemma hms_tail_RS pre w post e : M (hms_then r_tail) pre w post e ->
  exists h mi sec osub r z ez,
    scan_hms (w ++ post) = Some (mkTF h mi sec osub, r) /\ ztail r z ez /\
    e = hms_env (mkTF h mi sec osub) ++ ez.
Proof.
  intro H.
  apply hms_then_inv in H as (h & mi & sec & osub & w' & e' & pre' & -> & Hh1 & Hh2 & Hm1 & Hm2 &
                              Hs1 & Hs2 & Hsub & Hk & ->).
  apply ztail_of_M in Hk as (z & Hz).
  destruct (ztail_scan _ _ _ Hz) as (_ & _ & Hnd).
  exists h, mi, sec, osub, (w' ++ post), z, e'. split; [|auto].
  rewrite reassoc_hms. destruct osub as [sub|]; cbn [sub_text sub_ok app] in *.
  - destruct Hsub as [Hx1 Hx2]. apply scan_hms_shape_sub; auto. apply head_nd_nodot_nd. exact Hnd.
  - apply scan_hms_shape_nosub; auto.
Qed.

Lemma hms_tail_SR s tf r z ez : scan_hms s = Some (tf, r) -> ztail r z ez ->
  exists w post, s = w ++ post /\ forall pre, M (hms_then r_tail) pre w post (hms_env tf ++ ez).
Proof.
  intros E Hz. apply scan_hms_inv in E as (-> & Hh1 & Hh2 & Hm1 & Hm2 & Hs1 & Hs2 & Hsub).
  destruct (M_of_ztail _ _ _ Hz) as (w & post & -> & HM).
  exists (f_h tf ++ ch_colon :: f_mi tf ++ ch_colon :: f_s tf ++ sub_text (f_sub tf) ++ w), post.
  split; [symmetry; apply reassoc_hms|].
  intro pre. destruct tf as [h mi sec osub]; cbn [f_h f_mi f_s f_sub] in *.
  apply hms_then_intro; auto.
Qed.

(* date *)
Lemma date_RS s e : re_matches re_date s e ->
  scan_date s = Some (date_fields_of_caps e) /\ e = date_env s.
Proof.
  intros (w & post & -> & H). rewrite re_date_shape in H.
  destruct H as (w1 & w2 & e1 & e2 & -> & -> & (_ & -> & ->) & H). cbn [app] in *.
  apply ymd_then_inv in H as (y & mo & d & w' & e' & pre' & -> & Hy1 & Hy2 & Hm1 & Hm2 & Hd1 & Hd2 & Hk & ->).
  apply ztail_of_M in Hk as (z & Hz).
  destruct (ztail_scan _ _ _ Hz) as (_ & _ & Hnd).
  destruct (zone_env_ok _ _ _ Hz) as (Hsz & Hze).
  assert (Hs : scan_ymd ((y ++ ch_minus :: mo ++ ch_minus :: d ++ w') ++ post) = Some (mkDF y mo d, w' ++ post)).
  { rewrite reassoc_ymd. apply scan_ymd_shape; auto. apply head_nd_nodot_nd. exact Hnd. }
  split.
  - unfold scan_date. rewrite Hs, Hsz, (date_caps_ok _ _ _ _ _ _ Hz). reflexivity.
  - unfold date_env. rewrite Hs, Hze. reflexivity.
Qed.

Lemma date_SR s f : scan_date s = Some f -> re_matches re_date s (date_env s).
Proof.
  unfold scan_date, date_env. destruct (scan_ymd s) as [[df r]|] eqn:E; [|discriminate].
  destruct (scan_zone r) as [z|] eqn:Ez; [|discriminate]. intros _.
  apply scan_ymd_inv in E as (-> & Hy1 & Hy2 & Hm1 & Hm2 & Hd1 & Hd2).
  destruct (scan_zone_inv _ _ Ez) as (ez & Hz).
  destruct (zone_env_ok _ _ _ Hz) as (_ & ->).
  destruct (M_of_ztail _ _ _ Hz) as (w & post & -> & HM).
  exists (f_y df ++ ch_minus :: f_mo df ++ ch_minus :: f_d df ++ w), post.
  split; [symmetry; apply reassoc_ymd|].
  rewrite re_date_shape. eexists [], _, [], _. split; [reflexivity|]. split; [reflexivity|].
  split; [repeat split|]. cbn [app].
  destruct df as [y mo d]; cbn [f_y f_mo f_d] in *. apply ymd_then_intro; auto.
Qed.

(* time *)
Lemma time_RS s e : re_matches re_time s e ->
  scan_time s = Some (time_fields_of_caps e) /\ e = time_env s.
Proof.
  intros (w & post & -> & H). rewrite re_time_shape in H.
  destruct H as (w1 & w2 & e1 & e2 & -> & -> & (_ & -> & ->) & H). cbn [app] in *.
  apply hms_tail_RS in H as (h & mi & sec & osub & r & z & ez & Hs & Hz & ->).
  destruct (zone_env_ok _ _ _ Hz) as (Hsz & Hze).
  split.
  - unfold scan_time. rewrite Hs, Hsz, (time_caps_ok _ _ _ _ _ _ _ Hz). reflexivity.
  - unfold time_env. rewrite Hs, Hze. reflexivity.
Qed.

Lemma time_SR s f : scan_time s = Some f -> re_matches re_time s (time_env s).
Proof.
  unfold scan_time, time_env. destruct (scan_hms s) as [[tf r]|] eqn:E; [|discriminate].
  destruct (scan_zone r) as [z|] eqn:Ez; [|discriminate]. intros _.
  destruct (scan_zone_inv _ _ Ez) as (ez & Hz).
  destruct (zone_env_ok _ _ _ Hz) as (_ & ->).
  destruct (hms_tail_SR _ _ _ _ _ E Hz) as (w & post & -> & HM).
  exists w, post. split; [reflexivity|].
  rewrite re_time_shape. eexists [], _, [], _. split; [reflexivity|]. split; [reflexivity|].
  split; [repeat split|]. apply HM.
Qed.

(* dateTime *)
Lemma in_ts c : in_cls [(84, 84); (32, 32)]%N c = true <-> (N.eqb c 84 || N.eqb c 32) = true.
Proof. unfold in_cls. cbn [existsb fst snd]. lia. Qed.

Lemma datetime_RS s e : re_matches re_datetime s e ->
  scan_datetime s = Some (datetime_fields_of_caps e) /\ e = datetime_env s.
Proof.
  intros (w & post & -> & H). rewrite re_datetime_shape in H.
  destruct H as (w1 & w2 & e1 & e2 & -> & -> & (_ & -> & ->) & H). cbn [app] in *.
  apply ymd_then_inv in H as (y & mo & d & w' & e' & pre' & -> & Hy1 & Hy2 & Hm1 & Hm2 & Hd1 & Hd2 & Hk & ->).
  destruct Hk as (x1 & x2 & f1 & f2 & -> & -> & (c & -> & Hc & ->) & Hk).
  apply hms_tail_RS in Hk as (h & mi & sec & osub & r & z & ez & Hs2 & Hz & ->).
  destruct (zone_env_ok _ _ _ Hz) as (Hsz & Hze).
  apply in_ts in Hc. cbn [app].
  assert (Hs : scan_ymd ((y ++ ch_minus :: mo ++ ch_minus :: d ++ c :: x2) ++ post)
               = Some (mkDF y mo d, c :: x2 ++ post)).
  { rewrite reassoc_ymd. apply scan_ymd_shape; auto. cbn [app head_nd].
    apply orb_true_iff in Hc as [Hc|Hc]; apply N.eqb_eq in Hc; subst; reflexivity. }
  split.
  - unfold scan_datetime. rewrite Hs, Hc, Hs2, Hsz, (datetime_caps_ok _ _ _ _ _ _ _ _ _ _ Hz). reflexivity.
  - unfold datetime_env. rewrite Hs, Hs2, Hze. reflexivity.
Qed.

Lemma datetime_SR s f : scan_datetime s = Some f -> re_matches re_datetime s (datetime_env s).
Proof.
  unfold scan_datetime, datetime_env. destruct (scan_ymd s) as [[df [|c r]]|] eqn:E; try discriminate.
  destruct (N.eqb c 84 || N.eqb c 32) eqn:Hc; [|discriminate].
  destruct (scan_hms r) as [[tf r']|] eqn:E2; [|discriminate].
  destruct (scan_zone r') as [z|] eqn:Ez; [|discriminate]. intros _.
  apply scan_ymd_inv in E as (-> & Hy1 & Hy2 & Hm1 & Hm2 & Hd1 & Hd2).
  destruct (scan_zone_inv _ _ Ez) as (ez & Hz).
  destruct (zone_env_ok _ _ _ Hz) as (_ & ->).
  destruct (hms_tail_SR _ _ _ _ _ E2 Hz) as (w & post & -> & HM).
  exists (f_y df ++ ch_minus :: f_mo df ++ ch_minus :: f_d df ++ ([c] ++ w)), post.
  split; [symmetry; apply reassoc_ymd|].
  rewrite re_datetime_shape. eexists [], _, [], _. split; [reflexivity|]. split; [reflexivity|].
  split; [repeat split|]. cbn [app].
  destruct df as [y mo d]; cbn [f_y f_mo f_d] in *.
  apply (ymd_then_intro _ _ y mo d (c :: w)); auto.
  intro pre'. exists [c], w, [], (hms_env tf ++ ez). repeat split; [|apply HM].
  exists c. repeat split. apply in_ts. exact Hc.
Qed.

(* --- assembling ------------------------------------------------------- *)
Lemma assemble {F} (scan : str -> option F) (r : re) (of_caps : caps -> F) (env : str -> caps) :
  (forall s e, re_matches r s e -> scan s = Some (of_caps e) /\ e = env s) ->
  (forall s f, scan s = Some f -> re_matches r s (env s)) ->
  forall s,
    match scan s with
    | Some f => exists e, re_matches r s e /\ of_caps e = f /\ forall e', re_matches r s e' -> e' = e
    | None => forall e, ~ re_matches r s e
    end.
Proof.
  intros H1 H2 s. destruct (scan s) as [f|] eqn:E.
  - exists (env s). pose proof (H2 s f E) as Hm. split; [exact Hm|]. split.
    + destruct (H1 _ _ Hm) as [Hs _]. rewrite E in Hs. inversion Hs. reflexivity.
    + intros e' He'. apply H1 in He'. tauto.
  - intros e He. apply H1 in He as [Hs _]. congruence.
Qed.

Lemma scanner_is_regex_date_l : forall s,
  match scan_date s with
  | Some f => exists e, re_matches re_date s e /\ date_fields_of_caps e = f /\
                        forall e', re_matches re_date s e' -> e' = e
  | None => forall e, ~ re_matches re_date s e
  end.
Proof. exact (assemble scan_date re_date date_fields_of_caps date_env date_RS date_SR). Qed.

Lemma scanner_is_regex_time_l : forall s,
  match scan_time s with
  | Some f => exists e, re_matches re_time s e /\ time_fields_of_caps e = f /\
                        forall e', re_matches re_time s e' -> e' = e
  | None => forall e, ~ re_matches re_time s e
  end.
Proof. exact (assemble scan_time re_time time_fields_of_caps time_env time_RS time_SR). Qed.

Lemma scanner_is_regex_datetime_l : forall s,
  match scan_datetime s with
  | Some f => exists e, re_matches re_datetime s e /\ datetime_fields_of_caps e = f /\
                        forall e', re_matches re_datetime s e' -> e' = e
  | None => forall e, ~ re_matches re_datetime s e
  end.
Proof.
  exact (assemble scan_datetime re_datetime datetime_fields_of_caps datetime_env datetime_RS datetime_SR).
Qed.

(* what Python computes: the first match in backtracking order, read through
   group(name), is the scanner's answer *)
Lemma exec_is_scan {F} (scan : str -> option F) (r : re) (of_caps : caps -> F) :
  (forall s,
    match scan s with
    | Some f => exists e, re_matches r s e /\ of_caps e = f /\ forall e', re_matches r s e' -> e' = e
    | None => forall e, ~ re_matches r s e
    end) ->
  forall s, option_map of_caps (exec_match r s) = scan s.
Proof.
  intros H s. specialize (H s). pose proof (exec_match_correct_l r s) as Hx.
  destruct (exec_match r s) as [e|]; destruct (scan s) as [f|]; cbn [option_map].
  - destruct H as (e0 & _ & <- & Hu). rewrite (Hu e Hx). reflexivity.
  - exfalso. exact (H e Hx).
  - exfalso. destruct H as (e0 & Hm & _). exact (Hx e0 Hm).
  - reflexivity.
Qed.

Lemma scanner_is_python_match_l : forall s,
  option_map date_fields_of_caps (exec_match re_date s) = scan_date s /\
  option_map time_fields_of_caps (exec_match re_time s) = scan_time s /\
  option_map datetime_fields_of_caps (exec_match re_datetime s) = scan_datetime s.
Proof.
  intro s. repeat split.
  - apply (exec_is_scan _ _ _ scanner_is_regex_date_l).
  - apply (exec_is_scan _ _ _ scanner_is_regex_time_l).
  - apply (exec_is_scan _ _ _ scanner_is_regex_datetime_l).
Qed.
