(* Proofs about the model of suds.sax.date in C06/DateTime.v. *)
From SV Require Import Lib.Base C06.Decimal C06.DecimalProofs C06.DateTime.
From Coq Require Import ZifyBool ZifyNat ZifyN.

Local Open Scope Z_scope.
Local Ltac Zify.zify_post_hook ::= Z.div_mod_to_equations.

(* ------------------------------------------------------------------ *)
(* digits and digit strings                                            *)
(* ------------------------------------------------------------------ *)
Lemma digit_val_range c : is_digit c = true -> 0 <= digit_val c <= 9.
Proof. unfold is_digit, digit_val. lia. Qed.

Lemma dval_nil : dval [] = 0.
Proof. reflexivity. Qed.

Lemma dval_one c : dval [c] = digit_val c.
Proof. unfold dval. cbn [fold_left]. lia. Qed.

Lemma pow10_S n : pow10 (S n) = 10 * pow10 n.
Proof. change (S n) with (1 + n)%nat. rewrite pow10_add. reflexivity. Qed.

Lemma dval_cons c s : dval (c :: s) = digit_val c * pow10 (length s) + dval s.
Proof. change (c :: s) with ([c] ++ s). rewrite dval_app, dval_one. reflexivity. Qed.

Lemma dval_bound s : all_digits s = true -> 0 <= dval s < pow10 (length s).
Proof.
  induction s as [|c s IH]; intro H.
  - rewrite dval_nil. cbn [length]. rewrite pow10_0. lia.
  - cbn [all_digits] in H. apply andb_true_iff in H as [H1 H2].
    rewrite dval_cons. cbn [length]. rewrite pow10_S.
    pose proof (digit_val_range _ H1) as Hd. specialize (IH H2).
    assert (digit_val c * pow10 (length s) <= 9 * pow10 (length s))
      by (apply Z.mul_le_mono_nonneg_r; lia).
    assert (0 <= digit_val c * pow10 (length s)) by (apply Z.mul_nonneg_nonneg; lia).
    lia.
Qed.

Definition head_nd (s : str) : bool :=
  match s with [] => true | c :: _ => negb (is_digit c) end.

Lemma span_digits_app a rest :
  all_digits a = true -> head_nd rest = true -> span_digits (a ++ rest) = (a, rest).
Proof.
  induction a as [|c a IH].
  - intros _ H. destruct rest as [|c r]; [reflexivity|].
    cbn in H. apply negb_true_iff in H. cbn. rewrite H. reflexivity.
  - intros H Hr. cbn [all_digits] in H. apply andb_true_iff in H as [H1 H2].
    cbn [app span_digits]. rewrite H1, (IH H2 Hr). reflexivity.
Qed.

Lemma span_digits_digits s : forall a b, span_digits s = (a, b) -> all_digits a = true.
Proof.
  induction s as [|c s IH]; intros a b H.
  - cbn in H. inversion H. reflexivity.
  - cbn [span_digits] in H. destruct (is_digit c) eqn:Hc.
    + destruct (span_digits s) as [a' b'] eqn:E. inversion H; subst.
      cbn [all_digits]. rewrite Hc, (IH _ _ eq_refl). reflexivity.
    + inversion H. reflexivity.
Qed.

Lemma f59_bound s : all_digits s = true -> f59 s = true -> 0 <= dval s <= 59.
Proof.
  destruct s as [|a [|b [|c s]]]; cbn [f59]; try discriminate.
  - intros H _. rewrite dval_one. cbn [all_digits] in H.
    apply andb_true_iff in H as [H _]. pose proof (digit_val_range _ H). lia.
  - intros H Ha. cbn [all_digits] in H.
    apply andb_true_iff in H as [H1 H2]. apply andb_true_iff in H2 as [H2 _].
    rewrite dval_cons, dval_one. cbn [length]. change (pow10 1) with 10.
    unfold is_digit, digit_val in *. lia.
Qed.

(* ------------------------------------------------------------------ *)
(* lexical well-formedness of scanned fields                           *)
(* ------------------------------------------------------------------ *)
Definition time_f_lex (f : time_f) : bool :=
  all_digits (f_h f) && all_digits (f_mi f) && all_digits (f_s f) &&
  (dval (f_mi f) <=? 59)%Z && (dval (f_s f) <=? 59)%Z &&
  match f_sub f with Some sub => all_digits sub && negb (Nat.eqb (length sub) 0) | None => true end.

Lemma time_f_lex_intro h mi sec osub :
  all_digits h = true -> all_digits mi = true -> f59 mi = true ->
  all_digits sec = true -> f59 sec = true ->
  match osub with Some sub => all_digits sub = true /\ sub <> [] | None => True end ->
  time_f_lex (mkTF h mi sec osub) = true.
Proof.
  intros Hh Hm Fm Hs Fs Hsub. unfold time_f_lex. cbn [f_h f_mi f_s f_sub].
  rewrite Hh, Hm, Hs. cbn [andb].
  pose proof (f59_bound _ Hm Fm). pose proof (f59_bound _ Hs Fs).
  replace (dval mi <=? 59) with true by lia. replace (dval sec <=? 59) with true by lia.
  cbn [andb]. destruct osub as [sub|]; [|reflexivity].
  destruct Hsub as [H1 H2]. rewrite H1. destruct sub; [contradiction|reflexivity].
Qed.

Lemma scan_hms_lex : forall s f r, scan_hms s = Some (f, r) -> time_f_lex f = true.
Proof.
  intros s f r. unfold scan_hms.
  destruct (span_digits s) as [h r1] eqn:E1.
  destruct (len12 h); cbn [negb]; [|discriminate].
  destruct r1 as [|c1 r2]; [discriminate|].
  destruct (N.eqb c1 ch_colon); cbn [negb]; [|discriminate].
  destruct (span_digits r2) as [mi r3] eqn:E2.
  destruct (f59 mi) eqn:Fm; cbn [negb]; [|discriminate].
  destruct r3 as [|c3 r4]; [discriminate|].
  destruct (N.eqb c3 ch_colon); cbn [negb]; [|discriminate].
  destruct (span_digits r4) as [sec r5] eqn:E3.
  destruct (f59 sec) eqn:Fs; cbn [negb]; [|discriminate].
  pose proof (span_digits_digits _ _ _ E1) as Hh.
  pose proof (span_digits_digits _ _ _ E2) as Hm.
  pose proof (span_digits_digits _ _ _ E3) as Hs.
  destruct r5 as [|c5 r6].
  - intro H; inversion H; subst. apply time_f_lex_intro; auto.
  - destruct (N.eqb c5 ch_dot).
    + destruct (span_digits r6) as [sub r7] eqn:E4.
      pose proof (span_digits_digits _ _ _ E4) as Hsub.
      destruct sub as [|x sub]; [discriminate|].
      intro H; inversion H; subst. apply time_f_lex_intro; auto.
      split; [exact Hsub|discriminate].
    + intro H; inversion H; subst. apply time_f_lex_intro; auto.
Qed.

(* ------------------------------------------------------------------ *)
(* 1. half-up rounding                                                 *)
(* ------------------------------------------------------------------ *)
Lemma digit_val_ch0 : digit_val ch_0 = 0.
Proof. reflexivity. Qed.

Ltac eval_pow10 :=
  change (pow10 0) with 1 in *; change (pow10 1) with 10 in *;
  change (pow10 2) with 100 in *; change (pow10 3) with 1000 in *;
  change (pow10 4) with 10000 in *; change (pow10 5) with 100000 in *;
  change (pow10 6) with 1000000 in *; change (pow10 7) with 10000000 in *.

Lemma round_half_up_digits : forall sub, all_digits sub = true -> sub <> [] ->
  (dval (pad6 6 sub) + (if seventh_ge5 sub then 1 else 0) = round_half_up_us sub)%Z.
Proof.
  intros sub Hd Hne.
  destruct sub as [|c1 [|c2 [|c3 [|c4 [|c5 [|c6 [|c7 rest]]]]]]]; [contradiction|..].
  1-6: unfold round_half_up_us, seventh_ge5, dval;
       cbn [pad6 nth_error length fold_left]; rewrite ?digit_val_ch0; eval_pow10; lia.
  (* seven or more digits *)
  unfold round_half_up_us, seventh_ge5. cbn [pad6 nth_error].
  change (c1 :: c2 :: c3 :: c4 :: c5 :: c6 :: c7 :: rest)
    with ([c1; c2; c3; c4; c5; c6] ++ [c7] ++ rest).
  assert (H7 : is_digit c7 = true /\ all_digits rest = true).
  { cbn [all_digits] in Hd. repeat (apply andb_true_iff in Hd as [? Hd]).
    split; assumption. }
  destruct H7 as [H7 Hr].
  rewrite !dval_app, !app_length, !pow10_add. cbn [length].
  rewrite dval_one. eval_pow10.
  set (A := dval [c1; c2; c3; c4; c5; c6]).
  pose proof (dval_bound _ Hr) as HB.
  set (B := dval rest) in *. set (P := pow10 (length rest)) in *.
  pose proof (digit_val_range _ H7) as H7r.
  assert (Hc : (53 <=? c7)%N = (5 <=? digit_val c7)).
  { unfold digit_val. lia. }
  rewrite Hc. set (d := digit_val c7) in *. clearbody d A B P. clear - HB H7r.
  assert (Hd : d = 0 \/ d = 1 \/ d = 2 \/ d = 3 \/ d = 4 \/ d = 5 \/ d = 6 \/ d = 7 \/ d = 8 \/ d = 9) by lia.
  destruct (Z.leb_spec 5 d).
  - apply Z.div_unique with (r := 2 * (d * P + B) * 1000000 + 10000000 * P - 20000000 * P);
      [left|]; destruct Hd as [->|[->|[->|[->|[->|[->|[->|[->|[->| ->]]]]]]]]]; lia.
  - apply Z.div_unique with (r := 2 * (d * P + B) * 1000000 + 10000000 * P);
      [left|]; destruct Hd as [->|[->|[->|[->|[->|[->|[->|[->|[->| ->]]]]]]]]]; lia.
Qed.

Lemma pad6_digits n : forall s, all_digits s = true ->
  all_digits (pad6 n s) = true /\ length (pad6 n s) = n.
Proof.
  induction n as [|n IH]; intros s H; [split; reflexivity|].
  destruct s as [|c s]; cbn [pad6 all_digits length].
  - destruct (IH [] eq_refl) as [H1 H2]. rewrite H1, H2. split; reflexivity.
  - cbn [all_digits] in H. apply andb_true_iff in H as [Hc Hs].
    destruct (IH s Hs) as [H1 H2]. rewrite Hc, H1, H2. split; reflexivity.
Qed.

Lemma pad6_bound s : all_digits s = true -> 0 <= dval (pad6 6 s) <= 999999.
Proof.
  intro H. destruct (pad6_digits 6 s H) as [H1 H2].
  pose proof (dval_bound _ H1) as Hb. rewrite H2 in Hb. eval_pow10. lia.
Qed.

Lemma us_of_tod_of_us v : 0 <= v < day_us -> us_of_tod (tod_of_us v) = v.
Proof.
  unfold day_us, us_of_tod, tod_of_us. cbn [t_h t_m t_s t_us]. intro H. lia.
Qed.

(* what the fields of a lexically well-formed time denote, before any carry *)
Lemma time_of_fields_spec f t up :
  time_f_lex f = true -> time_of_fields f = Ok (t, up) ->
  tod_ok t = true /\
  us_of_tod t + (if up then 1 else 0) = spec_us_of_fields f.
Proof.
  destruct f as [h mi sec osub]. unfold time_f_lex, time_of_fields, spec_us_of_fields.
  cbn [f_h f_mi f_s f_sub]. intros Hlex.
  repeat (apply andb_true_iff in Hlex as [Hlex ?]).
  pose proof (dval_bound _ Hlex) as Bh.
  match goal with H : all_digits mi = true |- _ => pose proof (dval_bound _ H) as Bm end.
  match goal with H : all_digits sec = true |- _ => pose proof (dval_bound _ H) as Bs end.
  assert (Hsub : exists us up', (match osub with
                    | Some sub => (dval (pad6 6 sub), seventh_ge5 sub)
                    | None => (0, false) end) = (us, up') /\ 0 <= us <= 999999 /\
                    us + (if up' then 1 else 0) =
                    match osub with Some sub => round_half_up_us sub | None => 0 end).
  { destruct osub as [sub|].
    - match goal with H : _ && _ = true |- _ => apply andb_true_iff in H as [Hs1 Hs2] end.
      eexists _, _. split; [reflexivity|]. split; [apply pad6_bound, Hs1|].
      apply round_half_up_digits; [exact Hs1|]. destruct sub; [discriminate|discriminate].
    - exists 0, false. split; [reflexivity|]. lia. }
  destruct Hsub as [us [up' [E [Bus Hr]]]]. rewrite E.
  destruct (Z.leb_spec (dval h) 23); [|discriminate].
  intros [= <- <-]. unfold tod_ok, us_of_tod. cbn [t_h t_m t_s t_us]. split; lia.
Qed.

Lemma tod_ok_bound t : tod_ok t = true -> 0 <= us_of_tod t < day_us.
Proof.
  unfold tod_ok, us_of_tod, day_us. intro H. lia.
Qed.

Lemma time_round_half_up_l : forall f t up,
  time_f_lex f = true -> time_of_fields f = Ok (t, up) ->
  (us_of_tod (if up then bump_time t else t) = spec_us_of_fields f mod day_us)%Z.
Proof.
  intros f t up Hlex Ht.
  destruct (time_of_fields_spec _ _ _ Hlex Ht) as [Hok Hs].
  pose proof (tod_ok_bound _ Hok) as Hb. rewrite <- Hs.
  destruct up.
  - unfold bump_time. rewrite us_of_tod_of_us; [reflexivity|].
    apply Z.mod_pos_bound. reflexivity.
  - rewrite Z.add_0_r. symmetry. apply Z.mod_small. exact Hb.
Qed.

(* ------------------------------------------------------------------ *)
(* 2. zones                                                            *)
(* ------------------------------------------------------------------ *)
Definition zone_f_lex (z : zone_f) : bool :=
  match z with
  | ZOff _ h m => all_digits h && match m with Some m => all_digits m | None => true end
  | _ => true
  end.

Lemma at_end_nil : at_end [] = true.
Proof. reflexivity. Qed.

Lemma scan_zone_lex s z : scan_zone s = Some z -> zone_f_lex z = true.
Proof.
  unfold scan_zone. destruct (at_end s); [intros [= <-]; reflexivity|].
  destruct s as [|c r]; [discriminate|].
  destruct (N.eqb c 90 || N.eqb c 122).
  { destruct (at_end r); [intros [= <-]; reflexivity|discriminate]. }
  destruct (N.eqb c ch_plus || N.eqb c ch_minus); [|discriminate].
  destruct (span_digits r) as [h r1] eqn:E1.
  pose proof (span_digits_digits _ _ _ E1) as Hh.
  destruct (len12 h); [|discriminate].
  destruct (at_end r1).
  { intros [= <-]. cbn. rewrite Hh. reflexivity. }
  destruct r1 as [|c1 r2]; [discriminate|].
  destruct (N.eqb c1 ch_colon); [|discriminate].
  destruct (span_digits r2) as [m r3] eqn:E2.
  pose proof (span_digits_digits _ _ _ E2) as Hm.
  destruct (f59 m && at_end r3); [|discriminate].
  intros [= <-]. cbn. rewrite Hh, Hm. reflexivity.
Qed.

(* The unconditioned statement is false: h = "/" (value -1), m = "60" gives
   60*h+m = 0 with h <> 0.  It holds whenever both numbers are non-negative,
   in particular for every zone the scanner produces. *)
Lemma zone_exact_nonneg : forall z,
  match z with
  | ZOff _ h m => 0 <= dval h /\ 0 <= match m with Some m => dval m | None => 0 end
  | _ => True
  end ->
  tz_of_fields z = match spec_tz z with Some tz => Ok tz | None => ErrValue end.
Proof.
  intros [| |neg h m]; [reflexivity|reflexivity|]. intros [Hh Hm].
  unfold tz_of_fields, spec_tz.
  set (hv := dval h) in *. set (mv := match m with Some m0 => dval m0 | None => 0 end) in *.
  destruct (Z.eqb_spec hv 0) as [E0|E0]; cbn [andb].
  - destruct (Z.eqb_spec mv 0) as [E1|E1].
    + rewrite E0, E1. reflexivity.
    + destruct (Z.leb_spec 24 hv); [reflexivity|].
      destruct (Z.eqb_spec (60 * hv + mv) 0); [lia|].
      destruct neg; f_equal; f_equal; lia.
  - destruct (Z.leb_spec 24 hv); [reflexivity|].
    destruct (Z.eqb_spec (60 * hv + mv) 0); [lia|].
    destruct neg; f_equal; f_equal; lia.
Qed.

Lemma zone_exact_l : forall z, zone_f_lex z = true ->
  tz_of_fields z = match spec_tz z with Some tz => Ok tz | None => ErrValue end.
Proof.
  intros z Hz. apply zone_exact_nonneg. destruct z as [| |neg h m]; [exact I|exact I|].
  cbn in Hz. apply andb_true_iff in Hz as [Hh Hm]. split.
  - apply dval_bound, Hh.
  - destruct m as [m|]; [apply dval_bound, Hm|lia].
Qed.

Lemma zone_exact_scanned : forall s z, scan_zone s = Some z ->
  tz_of_fields z = match spec_tz z with Some tz => Ok tz | None => ErrValue end.
Proof. intros s z H. apply zone_exact_l, (scan_zone_lex _ _ H). Qed.

Lemma zone_offset_l : forall neg h m tz, tz_of_fields (ZOff neg h m) = Ok tz ->
  tz_offset tz = Some ((if neg then -1 else 1) * (60 * dval h + match m with Some m => dval m | None => 0 end))%Z
  /\ (dval h < 24)%Z.
Proof.
  intros neg h m tz. unfold tz_of_fields.
  set (hv := dval h). set (mv := match m with Some m0 => dval m0 | None => 0 end).
  destruct (Z.eqb_spec hv 0) as [E0|E0]; cbn [andb].
  - destruct (Z.eqb_spec mv 0) as [E1|E1].
    + intros [= <-]. cbn [tz_offset]. split; [f_equal|]; destruct neg; lia.
    + destruct (Z.leb_spec 24 hv); [discriminate|].
      intros [= <-]. cbn [tz_offset]. split; [reflexivity|lia].
  - destruct (Z.leb_spec 24 hv); [discriminate|].
    intros [= <-]. cbn [tz_offset]. split; [reflexivity|lia].
Qed.

Lemma zone_exact_unconditioned_is_false :
  let z := ZOff false [47%N] (Some [54%N; 48%N]) in
  tz_of_fields z = Ok (TzFixed 0) /\ spec_tz z = Some TzUtc.
Proof. split; reflexivity. Qed.

(* ------------------------------------------------------------------ *)
(* 3. what is written reads back                                       *)
(* ------------------------------------------------------------------ *)
Lemma d2_digits n : 0 <= n <= 99 -> all_digits (d2 n) = true.
Proof. intro H. unfold d2, all_digits, is_digit, digit_chr. lia. Qed.

Lemma d2_val n : 0 <= n <= 99 -> dval (d2 n) = n.
Proof.
  intro H. unfold d2, dval. cbn [fold_left]. unfold digit_val, digit_chr. lia.
Qed.

Lemma d2_f59 n : 0 <= n <= 59 -> f59 (d2 n) = true.
Proof. intro H. unfold d2, f59, digit_chr. lia. Qed.

Lemma d4_digits n : 0 <= n <= 9999 -> all_digits (d4 n) = true.
Proof. intro H. unfold d4, all_digits, is_digit, digit_chr. lia. Qed.

Lemma d4_val n : 0 <= n <= 9999 -> dval (d4 n) = n.
Proof.
  intro H. unfold d4, dval. cbn [fold_left]. unfold digit_val, digit_chr. lia.
Qed.

Lemma d6_digits n : 0 <= n <= 999999 -> all_digits (d6 n) = true.
Proof. intro H. unfold d6, all_digits, is_digit, digit_chr. lia. Qed.

Lemma d6_val n : 0 <= n <= 999999 -> dval (d6 n) = n.
Proof.
  intro H. unfold d6, dval. cbn [fold_left]. unfold digit_val, digit_chr. lia.
Qed.

Definition head_nd_nodot (s : str) : bool :=
  match s with [] => true | c :: _ => negb (is_digit c) && negb (N.eqb c ch_dot) end.

Lemma head_nd_nodot_nd s : head_nd_nodot s = true -> head_nd s = true.
Proof. destruct s; cbn; [reflexivity|]. intro H. apply andb_true_iff in H. tauto. Qed.

Lemma scan_hms_shape_nosub h mi sec rest :
  all_digits h = true -> len12 h = true ->
  all_digits mi = true -> f59 mi = true ->
  all_digits sec = true -> f59 sec = true ->
  head_nd_nodot rest = true ->
  scan_hms (h ++ ch_colon :: mi ++ ch_colon :: sec ++ rest) = Some (mkTF h mi sec None, rest).
Proof.
  intros Hh Lh Hm Fm Hs Fs Hr. unfold scan_hms.
  rewrite (span_digits_app h) by (assumption || reflexivity). cbn beta iota. rewrite Lh. cbn [negb].
  rewrite N.eqb_refl. cbn [negb].
  rewrite (span_digits_app mi) by (assumption || reflexivity). cbn beta iota. rewrite Fm. cbn [negb].
  rewrite N.eqb_refl. cbn [negb].
  pose proof (head_nd_nodot_nd _ Hr) as Hr'.
  rewrite (span_digits_app sec) by (assumption || reflexivity). cbn beta iota. rewrite Fs. cbn [negb].
  destruct rest as [|c r]; [reflexivity|].
  cbn in Hr. apply andb_true_iff in Hr as [_ Hr]. apply negb_true_iff in Hr. rewrite Hr.
  reflexivity.
Qed.

Lemma scan_hms_shape_sub h mi sec sub rest :
  all_digits h = true -> len12 h = true ->
  all_digits mi = true -> f59 mi = true ->
  all_digits sec = true -> f59 sec = true ->
  all_digits sub = true -> sub <> [] ->
  head_nd rest = true ->
  scan_hms (h ++ ch_colon :: mi ++ ch_colon :: sec ++ ch_dot :: sub ++ rest)
  = Some (mkTF h mi sec (Some sub), rest).
Proof.
  intros Hh Lh Hm Fm Hs Fs Hsub Hne Hr. unfold scan_hms.
  rewrite (span_digits_app h) by (assumption || reflexivity). cbn beta iota. rewrite Lh. cbn [negb].
  rewrite N.eqb_refl. cbn [negb].
  rewrite (span_digits_app mi) by (assumption || reflexivity). cbn beta iota. rewrite Fm. cbn [negb].
  rewrite N.eqb_refl. cbn [negb].
  rewrite (span_digits_app sec) by (assumption || reflexivity). cbn beta iota. rewrite Fs. cbn [negb].
  rewrite N.eqb_refl.
  rewrite (span_digits_app sub) by (assumption || reflexivity). cbn beta iota.
  destruct sub; [contradiction|reflexivity].
Qed.

Lemma scan_ymd_shape y mo d rest :
  all_digits y = true -> y <> [] ->
  all_digits mo = true -> len12 mo = true ->
  all_digits d = true -> len12 d = true ->
  head_nd rest = true ->
  scan_ymd (y ++ ch_minus :: mo ++ ch_minus :: d ++ rest) = Some (mkDF y mo d, rest).
Proof.
  intros Hy Hne Hm Lm Hd Ld Hr. unfold scan_ymd.
  rewrite (span_digits_app y) by (assumption || reflexivity). cbn beta iota.
  destruct y as [|y0 y']; [contradiction|].
  rewrite N.eqb_refl. cbn [negb].
  rewrite (span_digits_app mo) by (assumption || reflexivity). cbn beta iota. rewrite Lm. cbn [negb].
  rewrite N.eqb_refl. cbn [negb].
  rewrite (span_digits_app d) by (assumption || reflexivity). cbn beta iota. rewrite Ld. reflexivity.
Qed.

Lemma scan_zone_shape sg h m :
  (sg = ch_plus \/ sg = ch_minus) ->
  all_digits h = true -> len12 h = true ->
  all_digits m = true -> f59 m = true ->
  scan_zone (sg :: h ++ ch_colon :: m) = Some (ZOff (N.eqb sg ch_minus) h (Some m)).
Proof.
  intros Hsg Hh Lh Hm Fm. unfold scan_zone.
  assert (E1 : at_end (sg :: h ++ ch_colon :: m) = false).
  { destruct h as [|a [|b h]]; reflexivity. }
  rewrite E1.
  assert (E2 : (N.eqb sg 90 || N.eqb sg 122) = false) by (destruct Hsg; subst; reflexivity).
  assert (E3 : (N.eqb sg ch_plus || N.eqb sg ch_minus) = true) by (destruct Hsg; subst; reflexivity).
  rewrite E2, E3.
  rewrite (span_digits_app h) by (assumption || reflexivity). cbn beta iota. rewrite Lh.
  assert (E4 : at_end (ch_colon :: m) = false).
  { destruct m as [|a m]; [discriminate|reflexivity]. }
  rewrite E4, N.eqb_refl.
  rewrite <- (app_nil_r m) at 1. rewrite (span_digits_app m []) by (assumption || reflexivity). cbn beta iota.
  rewrite Fm. reflexivity.
Qed.

Lemma len12_d2 n : len12 (d2 n) = true.
Proof. reflexivity. Qed.

Definition iso_time_f (t : tod) : time_f :=
  mkTF (d2 (t_h t)) (d2 (t_m t)) (d2 (t_s t)) (if t_us t =? 0 then None else Some (d6 (t_us t))).

Lemma scan_hms_iso t rest : tod_ok t = true -> head_nd_nodot rest = true ->
  scan_hms (iso_tod t ++ rest) = Some (iso_time_f t, rest).
Proof.
  intros Hok Hr. unfold iso_tod, iso_time_f. unfold tod_ok in Hok.
  assert (Hh : all_digits (d2 (t_h t)) = true) by (apply d2_digits; lia).
  assert (Hm : all_digits (d2 (t_m t)) = true) by (apply d2_digits; lia).
  assert (Hs : all_digits (d2 (t_s t)) = true) by (apply d2_digits; lia).
  assert (Fm : f59 (d2 (t_m t)) = true) by (apply d2_f59; lia).
  assert (Fs : f59 (d2 (t_s t)) = true) by (apply d2_f59; lia).
  rewrite <- !app_assoc. destruct (Z.eqb_spec (t_us t) 0) as [E|E]; cbn [app].
  - apply scan_hms_shape_nosub; auto.
  - apply scan_hms_shape_sub; auto.
    + apply d6_digits. lia.
    + discriminate.
    + apply head_nd_nodot_nd, Hr.
Qed.

Lemma time_of_fields_iso t : tod_ok t = true -> time_of_fields (iso_time_f t) = Ok (t, false).
Proof.
  intro Hok. unfold tod_ok in Hok. destruct t as [h m s us]. cbn [t_h t_m t_s t_us] in *.
  unfold time_of_fields, iso_time_f. cbn [f_h f_mi f_s f_sub t_h t_m t_s t_us].
  rewrite !d2_val by lia.
  replace (h <=? 23) with true by lia.
  destruct (Z.eqb_spec us 0) as [E|E].
  - subst us. reflexivity.
  - change (pad6 6 (d6 us)) with (d6 us). change (seventh_ge5 (d6 us)) with false.
    rewrite d6_val by lia. reflexivity.
Qed.

Lemma iso_tz_head tz : head_nd_nodot (iso_tz tz) = true.
Proof.
  destruct tz as [| |m]; [reflexivity|reflexivity|].
  unfold iso_tz. destruct (m <? 0); reflexivity.
Qed.

Lemma zone_roundtrip tz : tz_ok tz = true ->
  exists zf, scan_zone (iso_tz tz) = Some zf /\ tz_of_fields zf = Ok tz.
Proof.
  destruct tz as [| |m]; intro Hok.
  - exists ZAbsent. split; reflexivity.
  - eexists. split; [reflexivity|]. reflexivity.
  - cbn [tz_ok] in Hok. unfold iso_tz.
    set (a := Z.abs m). set (sg := if m <? 0 then ch_minus else ch_plus).
    change ([sg] ++ d2 (a / 60) ++ [ch_colon] ++ d2 (a mod 60))
      with (sg :: d2 (a / 60) ++ ch_colon :: d2 (a mod 60)).
    assert (Ha : 0 < a < 1440) by (unfold a; lia).
    eexists. split.
    + apply scan_zone_shape.
      * unfold sg. destruct (m <? 0); auto.
      * apply d2_digits. lia.
      * reflexivity.
      * apply d2_digits. lia.
      * apply d2_f59. lia.
    + unfold tz_of_fields. rewrite !d2_val by lia.
      destruct (Z.eqb_spec (a / 60) 0) as [E0|E0]; cbn [andb].
      * destruct (Z.eqb_spec (a mod 60) 0) as [E1|E1]; [lia|].
        replace (24 <=? a / 60) with false by lia. f_equal. f_equal.
        unfold sg, a. destruct (Z.ltb_spec m 0); cbn [N.eqb ch_minus ch_plus Pos.eqb]; lia.
      * replace (24 <=? a / 60) with false by lia. f_equal. f_equal.
        unfold sg, a. destruct (Z.ltb_spec m 0); cbn [N.eqb ch_minus ch_plus Pos.eqb]; lia.
Qed.

Lemma time_roundtrip_l : forall t tz, tod_ok t = true -> tz_ok tz = true ->
  exists tz', parse_time (iso_time t tz) = Ok (t, tz') /\ tz_offset tz' = tz_offset tz.
Proof.
  intros t tz Ht Hz. exists tz. split; [|reflexivity].
  destruct (zone_roundtrip tz Hz) as [zf [Hscan Htz]].
  unfold parse_time, iso_time, scan_time.
  rewrite (scan_hms_iso t _ Ht (iso_tz_head tz)), Hscan, (time_of_fields_iso t Ht), Htz.
  reflexivity.
Qed.

Lemma dim_range y m : 28 <= days_in_month y m <= 31.
Proof.
  unfold days_in_month. destruct (m =? 2); [destruct (is_leap y); lia|].
  destruct ((m =? 4) || (m =? 6) || (m =? 9) || (m =? 11)); lia.
Qed.

Lemma civil_ok_range c : civil_ok c = true ->
  1 <= c_y c <= 9999 /\ 1 <= c_m c <= 12 /\ 1 <= c_d c <= days_in_month (c_y c) (c_m c).
Proof. unfold civil_ok, valid_civil. intro H. lia. Qed.

Definition iso_date_f (c : civil) : date_f := mkDF (d4 (c_y c)) (d2 (c_m c)) (d2 (c_d c)).

Lemma scan_ymd_iso c rest : civil_ok c = true -> head_nd rest = true ->
  scan_ymd (iso_date c ++ rest) = Some (iso_date_f c, rest).
Proof.
  intros Hok Hr. apply civil_ok_range in Hok.
  pose proof (dim_range (c_y c) (c_m c)).
  unfold iso_date, iso_date_f. rewrite <- !app_assoc. cbn [app].
  apply scan_ymd_shape; auto.
  - apply d4_digits. lia.
  - discriminate.
  - apply d2_digits. lia.
  - apply d2_digits. lia.
Qed.

Lemma date_of_fields_iso c : civil_ok c = true -> date_of_fields (iso_date_f c) = Ok c.
Proof.
  intro Hok. pose proof (civil_ok_range _ Hok) as Hr.
  pose proof (dim_range (c_y c) (c_m c)).
  destruct c as [y m d]. cbn [c_y c_m c_d] in *.
  unfold date_of_fields, iso_date_f. cbn [f_y f_mo f_d c_y c_m c_d].
  rewrite d4_val, !d2_val by lia.
  unfold civil_ok in Hok. cbn [c_y c_m c_d] in Hok. rewrite Hok.
  replace (c_int_max <? y) with false by (unfold c_int_max; lia). reflexivity.
Qed.

Lemma date_roundtrip_l : forall c, civil_ok c = true -> parse_date (iso_date c) = Ok c.
Proof.
  intros c Hok. unfold parse_date, scan_date.
  rewrite <- (app_nil_r (iso_date c)). rewrite (scan_ymd_iso c [] Hok eq_refl).
  cbn [scan_zone at_end]. apply date_of_fields_iso, Hok.
Qed.

Lemma datetime_roundtrip_l : forall c t tz, civil_ok c = true -> tod_ok t = true -> tz_ok tz = true ->
  exists tz', parse_datetime (iso_datetime c t tz) = Ok (c, t, tz') /\ tz_offset tz' = tz_offset tz.
Proof.
  intros c t tz Hc Ht Hz. exists tz. split; [|reflexivity].
  destruct (zone_roundtrip tz Hz) as [zf [Hscan Htz]].
  unfold parse_datetime, iso_datetime, scan_datetime.
  rewrite (scan_ymd_iso c) by (assumption || reflexivity). cbn [app].
  change (N.eqb 84 84 || N.eqb 84 32) with true. cbn iota.
  rewrite (scan_hms_iso t _ Ht (iso_tz_head tz)), Hscan.
  rewrite (date_of_fields_iso c Hc), (time_of_fields_iso t Ht), Htz.
  reflexivity.
Qed.

(* ------------------------------------------------------------------ *)
(* 4. the carry                                                        *)
(* ------------------------------------------------------------------ *)
Lemma dby_succ y : days_before_year (y + 1) = days_before_year y + (if is_leap y then 366 else 365).
Proof.
  unfold days_before_year, is_leap. replace (y + 1 - 1) with y by lia.
  destruct (Z.eqb_spec (y mod 4) 0), (Z.eqb_spec (y mod 100) 0), (Z.eqb_spec (y mod 400) 0);
    cbn [andb orb negb]; lia.
Qed.

Lemma dbm_11 y : days_before_month_n y 11 = if is_leap y then 335 else 334.
Proof.
  unfold days_before_month_n, days_in_month.
  change (Z.of_nat 1) with 1; change (Z.of_nat 2) with 2; change (Z.of_nat 3) with 3;
  change (Z.of_nat 4) with 4; change (Z.of_nat 5) with 5; change (Z.of_nat 6) with 6;
  change (Z.of_nat 7) with 7; change (Z.of_nat 8) with 8; change (Z.of_nat 9) with 9;
  change (Z.of_nat 10) with 10; change (Z.of_nat 11) with 11.
  cbn [Z.eqb Pos.eqb orb]. destruct (is_leap y); reflexivity.
Qed.

Lemma next_day_number : forall c c', civil_ok c = true -> next_day c = Some c' ->
  civil_ok c' = true /\ (day_number c' = day_number c + 1)%Z.
Proof.
  intros c c' Hok. pose proof (civil_ok_range _ Hok) as Hr. clear Hok.
  destruct c as [y m d]. cbn [c_y c_m c_d] in Hr.
  unfold next_day, civil_ok, valid_civil, day_number. cbn [c_y c_m c_d].
  destruct (Z.ltb_spec d (days_in_month y m)).
  - intros [= <-]. cbn [c_y c_m c_d]. split; lia.
  - destruct (Z.ltb_spec m 12).
    + intros [= <-]. cbn [c_y c_m c_d]. pose proof (dim_range y (m + 1)). split; [lia|].
      replace (Z.to_nat (m + 1 - 1)) with (S (Z.to_nat (m - 1))) by lia.
      cbn [days_before_month_n].
      replace (Z.of_nat (S (Z.to_nat (m - 1)))) with m by lia. lia.
    + destruct (Z.ltb_spec y 9999); [|discriminate].
      intros [= <-]. cbn [c_y c_m c_d]. assert (m = 12) by lia. subst m.
      change (days_in_month y 12) with 31 in *.
      change (days_in_month (y + 1) 1) with 31.
      change (Z.to_nat (1 - 1)) with 0%nat. change (Z.to_nat (12 - 1)) with 11%nat.
      rewrite dbm_11, dby_succ. cbn [days_before_month_n].
      split; [lia|]. destruct (is_leap y); lia.
Qed.

Lemma scan_datetime_lex s df tf zf :
  scan_datetime s = Some (df, tf, zf) -> time_f_lex tf = true /\ zone_f_lex zf = true.
Proof.
  unfold scan_datetime. destruct (scan_ymd s) as [[d [|c r]]|]; try discriminate.
  destruct (N.eqb c 84 || N.eqb c 32); [|discriminate].
  destruct (scan_hms r) as [[t r']|] eqn:E; [|discriminate].
  destruct (scan_zone r') as [z|] eqn:Ez; [|discriminate].
  intros [= <- <- <-]. split; [apply (scan_hms_lex _ _ _ E)|apply (scan_zone_lex _ _ Ez)].
Qed.

Lemma scan_time_lex s tf zf :
  scan_time s = Some (tf, zf) -> time_f_lex tf = true /\ zone_f_lex zf = true.
Proof.
  unfold scan_time. destruct (scan_hms s) as [[t r']|] eqn:E; [|discriminate].
  destruct (scan_zone r') as [z|] eqn:Ez; [|discriminate].
  intros [= <- <-]. split; [apply (scan_hms_lex _ _ _ E)|apply (scan_zone_lex _ _ Ez)].
Qed.

Lemma date_of_fields_ok df c : date_of_fields df = Ok c -> civil_ok c = true.
Proof.
  unfold date_of_fields. destruct (c_int_max <? dval (f_y df)); [discriminate|].
  destruct (valid_civil _ _ _) eqn:E; [|discriminate]. intros [= <-]. exact E.
Qed.

Lemma datetime_carry_l : forall s df tf zf c t tz,
  scan_datetime s = Some (df, tf, zf) -> parse_datetime s = Ok (c, t, tz) ->
  exists c0, date_of_fields df = Ok c0 /\
  (day_number c * day_us + us_of_tod t = day_number c0 * day_us + spec_us_of_fields tf)%Z.
Proof.
  intros s df tf zf c t tz Hscan Hp.
  destruct (scan_datetime_lex _ _ _ _ Hscan) as [Hlex _].
  unfold parse_datetime in Hp. rewrite Hscan in Hp.
  destruct (date_of_fields df) as [c0| |] eqn:Ed; try discriminate.
  exists c0. split; [reflexivity|].
  pose proof (date_of_fields_ok _ _ Ed) as Hc0.
  destruct (time_of_fields tf) as [[t0 up]| |] eqn:Et; try discriminate.
  destruct (tz_of_fields zf) as [tz0| |]; try discriminate.
  destruct (time_of_fields_spec _ _ _ Hlex Et) as [Hok Hs].
  pose proof (tod_ok_bound _ Hok) as Hb. rewrite <- Hs.
  destruct up.
  - destruct (Z.ltb_spec (us_of_tod t0 + 1) day_us).
    + inversion Hp; subst. rewrite us_of_tod_of_us by lia. lia.
    + destruct (next_day c0) as [c'|] eqn:En; [|discriminate].
      inversion Hp; subst.
      destruct (next_day_number _ _ Hc0 En) as [_ Hn]. rewrite Hn.
      change (us_of_tod (mkTod 0 0 0 0)) with 0.
      assert (us_of_tod t0 + 1 = day_us) by lia. lia.
  - inversion Hp; subst. lia.
Qed.

(* the same, with the result known to be a well-formed Python value *)
Lemma datetime_carry_ok : forall s df tf zf c t tz,
  scan_datetime s = Some (df, tf, zf) -> parse_datetime s = Ok (c, t, tz) ->
  civil_ok c = true /\ tod_ok t = true.
Proof.
  intros s df tf zf c t tz Hscan Hp.
  destruct (scan_datetime_lex _ _ _ _ Hscan) as [Hlex _].
  unfold parse_datetime in Hp. rewrite Hscan in Hp.
  destruct (date_of_fields df) as [c0| |] eqn:Ed; try discriminate.
  pose proof (date_of_fields_ok _ _ Ed) as Hc0.
  destruct (time_of_fields tf) as [[t0 up]| |] eqn:Et; try discriminate.
  destruct (tz_of_fields zf) as [tz0| |]; try discriminate.
  destruct (time_of_fields_spec _ _ _ Hlex Et) as [Hok Hs].
  pose proof (tod_ok_bound _ Hok) as Hb.
  destruct up.
  - destruct (Z.ltb_spec (us_of_tod t0 + 1) day_us).
    + inversion Hp; subst. split; [exact Hc0|].
      unfold tod_ok, tod_of_us. cbn [t_h t_m t_s t_us]. unfold day_us in *. lia.
    + destruct (next_day c0) as [c'|] eqn:En; [|discriminate].
      inversion Hp; subst.
      destruct (next_day_number _ _ Hc0 En) as [Hc' _]. split; [exact Hc'|reflexivity].
  - inversion Hp; subst. split; assumption.
Qed.

(* ------------------------------------------------------------------ *)
(* 5. malformed or impossible text                                     *)
(* ------------------------------------------------------------------ *)
Lemma malformed_raises_l : forall s,
  (scan_time s = None -> parse_time s = ErrValue) /\
  (scan_date s = None -> parse_date s = ErrValue) /\
  (scan_datetime s = None -> parse_datetime s = ErrValue) /\
  (forall tf zf, scan_time s = Some (tf, zf) -> (23 < dval (f_h tf))%Z -> parse_time s = ErrValue) /\
  (forall df zf, scan_date s = Some (df, zf) ->
      valid_civil (dval (f_y df)) (dval (f_mo df)) (dval (f_d df)) = false ->
      (dval (f_y df) <= c_int_max)%Z -> parse_date s = ErrValue).
Proof.
  intro s. repeat split.
  - intro H. unfold parse_time. rewrite H. reflexivity.
  - intro H. unfold parse_date. rewrite H. reflexivity.
  - intro H. unfold parse_datetime. rewrite H. reflexivity.
  - intros tf zf H Hh. unfold parse_time. rewrite H. unfold time_of_fields.
    destruct (match f_sub tf with Some sub => _ | None => _ end) as [us up].
    replace (dval (f_h tf) <=? 23) with false by lia. reflexivity.
  - intros df zf H Hv Hy. unfold parse_date. rewrite H. unfold date_of_fields.
    replace (c_int_max <? dval (f_y df)) with false by lia. rewrite Hv. reflexivity.
Qed.
