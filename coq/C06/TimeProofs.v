(* Proofs about the model of suds.sax.date in C06/DateTime.v. *)
From SV Require Import Lib.Base C06.Decimal C06.DecimalProofs C06.DateTime.
From Coq Require Import ZifyBool ZifyNat ZifyN.

Local Open Scope Z_scope.
Local Ltac Zify.zify_post_hook ::= Z.div_mod_to_equations.

(* ------------------------------------------------------------------ *)
(* digits and digit strings                                            *)
(* ------------------------------------------------------------------ *)
Lemma digit_val_range c : is_digit c = true -> 0 <= digit_val c <= 9.
Proof. unfold is_digit, digit_val. lia. Qed.

Lemma dval_nil : dval [] = 0.
Proof. reflexivity. Qed.

Lemma dval_one c : dval [c] = digit_val c.
Proof. unfold dval. cbn [fold_left]. lia. Qed.

Lemma pow10_S n : pow10 (S n) = 10 * pow10 n.
Proof. change (S n) with (1 + n)%nat. rewrite pow10_add. reflexivity. Qed.

Lemma dval_cons c s : dval (c :: s) = digit_val c * pow10 (length s) + dval s.
Proof. change (c :: s) with ([c] ++ s). rewrite dval_app, dval_one. reflexivity. Qed.

Lemma dval_bound s : all_digits s = true -> 0 <= dval s < pow10 (length s).
Proof.
  induction s as [|c s IH]; intro H.
  - rewrite dval_nil. cbn [length]. rewrite pow10_0. lia.
  - cbn [all_digits] in H. apply andb_true_iff in H as [H1 H2].
    rewrite dval_cons. cbn [length]. rewrite pow10_S.
    pose proof (digit_val_range _ H1) as Hd. specialize (IH H2).
    assert (digit_val c * pow10 (length s) <= 9 * pow10 (length s))
      by (apply Z.mul_le_mono_nonneg_r; lia).
    assert (0 <= digit_val c * pow10 (length s)) by (apply Z.mul_nonneg_nonneg; lia).
    lia.
Qed.

Definition head_nd (s : str) : bool :=
  match s with [] => true | c :: _ => negb (is_digit c) end.

Lemma span_digits_app a rest :
  all_digits a = true -> head_nd rest = true -> span_digits (a ++ rest) = (a, rest).
Proof.
  induction a as [|c a IH].
  - intros _ H. destruct rest as [|c r]; [reflexivity|].
    cbn in H. apply negb_true_iff in H. cbn. rewrite H. reflexivity.
  - intros H Hr. cbn [all_digits] in H. apply andb_true_iff in H as [H1 H2].
    cbn [app span_digits]. rewrite H1, (IH H2 Hr). reflexivity.
Qed.

Lemma span_digits_digits s : forall a b, span_digits s = (a, b) -> all_digits a = true.
Proof.
  induction s as [|c s IH]; intros a b H.
  - cbn in H. inversion H. reflexivity.
  - cbn [span_digits] in H. destruct (is_digit c) eqn:Hc.
    + destruct (span_digits s) as [a' b'] eqn:E. inversion H; subst.
      cbn [all_digits]. rewrite Hc, (IH _ _ eq_refl). reflexivity.
    + inversion H. reflexivity.
Qed.

Lemma f59_bound s : all_digits s = true -> f59 s = true -> 0 <= dval s <= 59.
Proof.
  destruct s as [|a [|b [|c s]]]; cbn [f59]; try discriminate.
  - intros H _. rewrite dval_one. cbn [all_digits] in H.
    apply andb_true_iff in H as [H _]. pose proof (digit_val_range _ H). lia.
  - intros H Ha. cbn [all_digits] in H.
    apply andb_true_iff in H as [H1 H2]. apply andb_true_iff in H2 as [H2 _].
    rewrite dval_cons, dval_one. cbn [length]. change (pow10 1) with 10.
    unfold is_digit, digit_val in *. lia.
Qed.

(* ------------------------------------------------------------------ *)
(* lexical well-formedness of scanned fields                           *)
(* ------------------------------------------------------------------ *)
Definition time_f_lex (f : time_f) : bool :=
  all_digits (f_h f) && all_digits (f_mi f) && all_digits (f_s f) &&
  (dval (f_mi f) <=? 59)%Z && (dval (f_s f) <=? 59)%Z &&
  match f_sub f with Some sub => all_digits sub && negb (Nat.eqb (length sub) 0) | None => true end.

Lemma time_f_lex_intro h mi sec osub :
  all_digits h = true -> all_digits mi = true -> f59 mi = true ->
  all_digits sec = true -> f59 sec = true ->
  match osub with Some sub => all_digits sub = true /\ sub <> [] | None => True end ->
  time_f_lex (mkTF h mi sec osub) = true.
Proof.
  intros Hh Hm Fm Hs Fs Hsub. unfold time_f_lex. cbn [f_h f_mi f_s f_sub].
  rewrite Hh, Hm, Hs. cbn [andb].
  pose proof (f59_bound _ Hm Fm). pose proof (f59_bound _ Hs Fs).
  replace (dval mi <=? 59) with true by lia. replace (dval sec <=? 59) with true by lia.
  cbn [andb]. destruct osub as [sub|]; [|reflexivity].
  destruct Hsub as [H1 H2]. rewrite H1. destruct sub; [contradiction|reflexivity].
Qed.

Lemma scan_hms_lex : forall s f r, scan_hms s = Some (f, r) -> time_f_lex f = true.
Proof.
  intros s f r. unfold scan_hms.
  destruct (span_digits s) as [h r1] eqn:E1.
  destruct (len12 h); cbn [negb]; [|discriminate].
  destruct r1 as [|c1 r2]; [discriminate|].
  destruct (N.eqb c1 ch_colon); cbn [negb]; [|discriminate].
  destruct (span_digits r2) as [mi r3] eqn:E2.
  destruct (f59 mi) eqn:Fm; cbn [negb]; [|discriminate].
  destruct r3 as [|c3 r4]; [discriminate|].
  destruct (N.eqb c3 ch_colon); cbn [negb]; [|discriminate].
  destruct (span_digits r4) as [sec r5] eqn:E3.
  destruct (f59 sec) eqn:Fs; cbn [negb]; [|discriminate].
  pose proof (span_digits_digits _ _ _ E1) as Hh.
  pose proof (span_digits_digits _ _ _ E2) as Hm.
  pose proof (span_digits_digits _ _ _ E3) as Hs.
  destruct r5 as [|c5 r6].
  - intro H; inversion H; subst. apply time_f_lex_intro; auto.
  - destruct (N.eqb c5 ch_dot).
    + destruct (span_digits r6) as [sub r7] eqn:E4.
      pose proof (span_digits_digits _ _ _ E4) as Hsub.
      destruct sub as [|x sub]; [discriminate|].
      intro H; inversion H; subst. apply time_f_lex_intro; auto.
      split; [exact Hsub|discriminate].
    + intro H; inversion H; subst. apply time_f_lex_intro; auto.
Qed.

(* ------------------------------------------------------------------ *)
(* 1. half-up rounding                                                 *)
(* ------------------------------------------------------------------ *)
Lemma digit_val_ch0 : digit_val ch_0 = 0.
Proof. reflexivity. Qed.

Ltac eval_pow10 :=
  change (pow10 0) with 1 in *; change (pow10 1) with 10 in *;
  change (pow10 2) with 100 in *; change (pow10 3) with 1000 in *;
  change (pow10 4) with 10000 in *; change (pow10 5) with 100000 in *;
  change (pow10 6) with 1000000 in *; change (pow10 7) with 10000000 in *.

Lemma round_half_up_digits : forall sub, all_digits sub = true -> sub <> [] ->
  (dval (pad6 6 sub) + (if seventh_ge5 sub then 1 else 0) = round_half_up_us sub)%Z.
Proof.
  intros sub Hd Hne.
  destruct sub as [|c1 [|c2 [|c3 [|c4 [|c5 [|c6 [|c7 rest]]]]]]]; [contradiction|..].
  1-6: unfold round_half_up_us, seventh_ge5, dval;
       cbn [pad6 nth_error length fold_left]; rewrite ?digit_val_ch0; eval_pow10; lia.
  (* seven or more digits *)
  unfold round_half_up_us, seventh_ge5. cbn [pad6 nth_error].
  change (c1 :: c2 :: c3 :: c4 :: c5 :: c6 :: c7 :: rest)
    with ([c1; c2; c3; c4; c5; c6] ++ [c7] ++ rest).
  assert (H7 : is_digit c7 = true /\ all_digits rest = true).
  { cbn [all_digits] in Hd. repeat (apply andb_true_iff in Hd as [? Hd]).
    split; assumption. }
  destruct H7 as [H7 Hr].
  rewrite !app_length, !dval_app, !pow10_add. cbn [length].
  rewrite dval_one. eval_pow10.
  set (A := dval [c1; c2; c3; c4; c5; c6]).
  pose proof (dval_bound _ Hr) as HB.
  set (B := dval rest) in *. set (P := pow10 (length rest)) in *.
  pose proof (digit_val_range _ H7) as H7r.
  assert (Hc : (53 <=? c7)%N = (5 <=? digit_val c7)).
  { unfold digit_val. lia. }
  rewrite Hc. set (d := digit_val c7) in *. clearbody d A B P. clear - HB H7r.
  symmetry.
  assert (Hd : d = 0 \/ d = 1 \/ d = 2 \/ d = 3 \/ d = 4 \/ d = 5 \/ d = 6 \/ d = 7 \/ d = 8 \/ d = 9) by lia.
  destruct (Z.leb_spec 5 d).
  - apply Z.div_unique with (r := 2 * (d * P + B) * 1000000 + 10000000 * P - 20000000 * P);
      [left|]; destruct Hd as [->|[->|[->|[->|[->|[->|[->|[->|[->| ->]]]]]]]]]; lia.
  - apply Z.div_unique with (r := 2 * (d * P + B) * 1000000 + 10000000 * P);
      [left|]; destruct Hd as [->|[->|[->|[->|[->|[->|[->|[->|[->| ->]]]]]]]]]; lia.
Qed.
