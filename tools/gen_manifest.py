"""Writes /verif/MANIFEST.json from the table below (kept here so the file is
always regenerated consistently)."""
import json
import os

VERIF = os.path.dirname(os.path.dirname(os.path.abspath(__file__)))

BASE_NOTE = ("Trusted: Coq 8.16.1 kernel and vm_compute (no native_compute, no axioms declared; Print Assumptions "
             "of every property theorem is copied into the evidence); tools/gen_tables.py (tables regenerated "
             "from /repo on every run); the Python correspondence harness (generators, canonicalisers, expat as "
             "independent XML processor). The theorem is about the Gallina model; the model is tied to /repo by "
             "running model and implementation on the same generated inputs inside Coq (agrees) and by applying "
             "the executable specification to the implementation's own outputs (spec_ok). ")

CHECKS = {
    "C06": dict(
        text=("Machine-checked theorems (Coq) over a Gallina model of XDecimal._decimal_to_xsd_format, the XBoolean "
              "tables and the suds.sax.date scanner/rounding/zone/carry logic: for EVERY Decimal digit tuple and "
              "exponent the text sent is a valid xsd:decimal, exponent-free and value-exact; for every field "
              "assignment fractional seconds round half-up, zone offsets are exact, isoformat output reads back "
              "to the same value. The model is validated against the implementation on ~17k generated inputs per "
              "quick run (exhaustive <=4-digit Decimals x exponent -8..8 in the thorough tier)."),
        design="DESIGN.md §5 C06",
        technique="Coq proof over a Gallina model + in-Coq differential correspondence with the implementation",
        note="Modelled, not verified: CPython Decimal/float/datetime themselves. The three date/time regular "
             "expressions are TRANSLATED from /repo's compiled patterns on every run (CPython's own regex parse tree "
             "-> a Coq regex AST, fail-closed) and the hand-written scanner is proved equal to them for all strings "
             "(regex_matcher_correct, scanner_is_regex_date/_time/_datetime: the captures are forced, so the "
             "backtracking order cannot matter); the Coq regex semantics is cross-checked against CPython's engine on "
             "every generated string.",
    ),
}

CHECKS["C01"] = dict(
    text=("Machine-checked theorems (Coq) over a Gallina model of the literal marshaller (Typed.start/skip/node/"
          "encode, the appenders, GraphResolver child/attribute lookup, sudsobject.Iter ordering, Document and RPC "
          "body construction): for EVERY abstract schema and every conforming argument tree (unbounded nesting, "
          "width and list length) the request body equals the one a reference translator written from the XSD/WSDL "
          "rules prescribes — wrapper, children in schema order with inherited members first, form qualification, "
          "attributes on their owner, xsi:type for derived types, xsi:nil/default, optional values omitted — for "
          "document/literal wrapped, bare, rpc/literal and rpc/encoded (SOAP section 5: arrays with arrayType = member "
          "type[length] for every length incl. 0, every element typed), and for the whole request with WSDL-declared "
          "typed headers (request_conforms, request_body_independent_of_headers); members of an absent optional "
          "container are omitted at any depth. ~1.5k generated (WSDL, operation, arguments) cases per quick run are "
          "compared inside Coq; requests are read back with expat as an independent XML processor."),
    design="DESIGN.md §5 C01",
    technique="Coq proof (nested induction on values) over a Gallina marshaller model + in-Coq differential "
              "correspondence on generated WSDL families",
    note="Modelled at the namespace-infoset level; prefix assignment/serialisation is C05, argument binding C08, "
         "leaf lexical forms C06. rpc/encoded: arrays of arrays and None as an array member are outside the guard. Also generated and judged: element refs (incl. nillable targets), non-finite float leaves (coq/C01/Leaves.v over C06's lexical spec), schema attributes named like suds' markup attributes, a second port sharing operation names over different messages on one client.",
)

CHECKS["C09"] = dict(
    text=("Machine-checked theorems (Coq) over a Gallina model of _SoapClient.send/process_reply/__get_fault, "
          "Method.__call__, _SimClient.invoke and RequestContext.process_reply: for EVERY integer HTTP status "
          "(not the 13 sampled ones), body class, faults/retxml setting and delivery path the outcome equals the "
          "classification table written from the property statement (reply_table, paths_agree, "
          "fault_never_ordinary, transport_reply_counts_as_200 ...). Status constants are re-read from the AST of "
          "client.py on every run so that a changed constant re-opens the proof. The full product named in the "
          "quantifier (13 statuses x 17 bodies x faults x retxml x 5 paths, document and rpc clients; ~15.6k "
          "cells) is enumerated completely through real clients on every quick run; thorough adds every status "
          "100..599."),
    design="DESIGN.md §5 C09",
    technique="Coq proof of a total classification function over all integers + exhaustive in-Coq correspondence",
    note="Decoding of the fault/reply payload and XML well-formedness are judged by correspondence (expat as "
         "independent parser), payloads compared as digests.",
)

CHECKS["C14"] = dict(
    text=("Machine-checked refinement theorems (Coq) over a Gallina state-machine model of suds.properties "
          "(Properties/Link/Endpoint/Skin, provider lookup, __set with validate->nvl->store->linker), "
          "suds.options.TpLinker, Client.clone and the transports' __deepcopy__: for operation histories of ANY "
          "length every read returns the last value assigned (default after None), invalid assignments have no "
          "effect, a client is linked to exactly the transport it holds and that transport only to it, a released "
          "transport is detached and can be handed to another client, clones are independent both ways (also in what "
          "their transports use on a send), and what a transport hands to urllib on a send is what was set "
          "(send_uses_what_was_set). The option definition tables are regenerated from Options() instances of /repo "
          "on every run and proved equal to the documented ones. ~6.3k histories per quick run (exhaustive short "
          "families incl. sends interleaved with option changes for four transport classes — among them one derived "
          "directly from suds.transport.Transport — hand-over of released transports, random to length 30) are "
          "replayed on real clients; timeout, proxies, headers and credentials are observed inside urllib "
          "(OpenerDirector.open) on every send, and compared step by step inside Coq. The 'transport options follow "
          "a replaced transport' clause is false of the code: refuted with a witness (known finding), proved in "
          "guarded form."),
    design="DESIGN.md §5 C14",
    technique="Coq refinement proof (fold over histories) + in-Coq differential correspondence",
    note="Python's attribute protocol and copy.deepcopy are covered by correspondence only; giving a client a "
         "transport another client still holds is outside the theorems (boolean guard noshare; the code raises).",
)
CHECKS["C16"] = dict(
    text=("Machine-checked theorems (Coq) over a Gallina model of PluginContainer/PluginDomain/Method dispatch and "
          "the five message-hook call sites of _SoapClient.send/process_reply plus the document/init hooks: for "
          "plugin lists of ANY length the hook log is exactly the reached stages in the fixed order, each once per "
          "matching plugin in registration order; every stage consumes the previous stage's edits (dataflow); no "
          "reply hooks without a reply, no unmarshalled for a fault; a hook exception of ANY class (12 classes incl. suds.transport.TransportError, suds.WebFault, SAXParseException, a BaseException subclass) reaches the caller as the very object raised and no later hook runs (exception_class_irrelevant). ~4.5k "
          "(plugin list, settings, reply class) cases per quick run are executed on real clients with "
          "order-revealing edits and compared with the model inside Coq."),
    design="DESIGN.md §5 C16",
    technique="Coq proof by induction over plugin lists + in-Coq differential correspondence",
    note="Which documents the loader opens is taken from a recording store/cache (C12 covers the loader).",
)
CHECKS["C17"] = dict(
    text=("Machine-checked theorems (Coq) over a Gallina model of wsdl.Binding.add_operations/headpart_types (the "
          "request's declared parts are the INPUT side's soap:header children only), Binding.headercontent/mkheader "
          "(positional loop that skips surplus plain values and None, dict lookup incl. ready-made Elements as part "
          "values, one element per item of a list-valued entry, deepcopy of caller elements, setPrefix) and suds.wsse "
          "token rendering, reusing the C01 marshaller theorem for each "
          "entry: the Header holds exactly the configured entries marshalled per their schema and qualified by their "
          "own namespace (headers_as_configured, list_entry_one_element_per_item, positional_none_leaves_part_out, "
          "surplus_values_skipped_elements_kept), caller objects are never altered, repeating a call sends the same "
          "headers, one Security element carries every token, timestamps read back as the same instant (via the C06 "
          "dateTime round trip). Four defects of the original code were repaired in /repo; the old behaviours are "
          "kept as separate definitions with regression witnesses and reported as violations under their keys if "
          "they return; one departure remains (prefix rebinding inside ready-made elements, known finding). ~810 "
          "cases / 1400 calls per quick run (incl. two ports with different header declarations for one operation "
          "on one client) compared with model and reference inside Coq."),
    design="DESIGN.md §5 C17",
    technique="Coq proof (structural walk over declared parts, reuse of C01/C06 theorems) + correspondence",
    note="Header part resolution in wsdl.py, prefix assignment and nonce/created generation are covered by "
         "correspondence only (shape checks for random/time-dependent fields).",
)

CHECKS["C05"] = dict(
    text=("Machine-checked theorems (Coq) over a Gallina model of PrefixNormalizer (with the Python set iteration "
          "order as an arbitrary parameter), Element.promotePrefixes / refitPrefixes / nsdeclarations, the str and "
          "plain serialisers, ElementWrapper and Typer.genprefix on a prefix-level tree, against the "
          "Namespaces-in-XML infoset function: normalisation + promotion preserve the infoset for ALL trees and "
          "ALL hash orders under explicit boolean guards, pretty and plain print the same infoset, refit "
          "(prefixes=False) keeps well-formedness and, under a guard, the infoset; the four prefixes x pretty "
          "combinations denote one infoset; capture cases are refuted with witnesses. Each of ~150 generated "
          "requests per quick run (raw Element values, Element headers, xsi:nil, xsi:type, three binding styles) "
          "is built under all 16 option settings, parsed with expat and compared pairwise and with the model."),
    design="DESIGN.md §5 C05",
    technique="Coq proof over a prefix-level tree model + in-Coq differential correspondence over 16 settings",
    note="The marshaller that builds the pre-pass tree is C01's model; tokenisation/escaping is C04's. Requests are taken from fresh clients per setting and additionally from one client walked through the settings in shuffled order (coq/C05/History.v: history_irrelevant); control characters in text and attribute values are judged at the token level (coq/C05/Text.v).",
)

CHECKS["C18"] = dict(
    text=("Machine-checked theorems (Coq) over a heap model of MultiRef.process/build_catalog/update/"
          "replace_references (referenced children appended as the SAME nodes), RPC.replycontent, Binding.get_reply "
          "and the Encoded/Typed unmarshaller (setaty/applyaty/promote/postprocess, start, append_*): for bodies of "
          "ANY size, sharing, nesting and placement, processing terminates and every root unfolds to the in-lined "
          "tree (process_realises_inline), the client returns the decoding of the in-line reply for every out-lined "
          "form (multiref_equiv, outline_invariant), dangling hrefs stay local, empty arrays decode to [], items are "
          "typed from arrayType; the one departure of the unchanged code (unmarked multiRef before the response) is "
          "refuted with a witness and listed as a known finding. ~730 (reply value, out-lined form) cases per quick "
          "run (all 2^6 subsets of a shared-array value, 40 generated interfaces x 4 values x 4 forms; 17.8k thorough) "
          "are injected into real clients in-line and out-lined and compared with each other and with the model "
          "inside Coq."),
    design="DESIGN.md §5 C18",
    technique="Coq proof (induction on reference depth over a heap model) + in-Coq differential correspondence",
    note="multiref_equiv / outline_invariant assume only an input-side boolean condition on the parsed reply "
         "(input_ok_heap_ok derives the processed heap's well-formedness); a constructive out-liner is proved "
         "(outline_constructive); prefix handling of moved content is modelled separately (Prefix.v); prefix handling (promotePrefixes, prefixes resolved through the "
         "referrer) is covered by correspondence only; builtin translation is C06's.",
)

CHECKS["C20"] = dict(
    text=("Machine-checked theorems (Coq) over a model of the XML reader protocol suds relies on (DTD state with "
          "internal/external general and parameter entities, external subset, ATTLIST defaults, nested entities; the "
          "single external-reference gate of expatreader; suds' Handler) with the outside world as a logging ORACLE: "
          "with external general entities off the oracle is never called and the tree does not depend on it, for ALL "
          "documents, nesting depths and system identifiers (no_external_io, oracle_independent, no_external_content, "
          "marker_never_in_tree); every suds parse entry point obtains its parser from Parser.saxparser with the "
          "feature off (entry_points_flags_off, suds_no_external_io); a witness shows the gate is what protects. "
          "~3.6k documents per quick run (20 constructs x 13 system identifiers x 8 entry points, random ASTs, SOAP "
          "replies, client loads with imported/included documents) are parsed under sys.addaudithook with planted "
          "marker files and a loopback listener; flags are read back from the live parser. PARTIAL: pyexpat is C code; "
          "the theorem is about the modelled callback protocol, the audit run ties it to the real parser."),
    design="DESIGN.md §5 C20",
    technique="Coq proof of oracle non-interference over a reader model + audited differential correspondence",
    note="Trusted additionally: CPython audit events as the complete record of file/network access; the allowed set "
         "(import-system reads, the caller-named cache file). Character references, CDATA, comments, PIs and "
         "non-UTF-8 encodings are outside the document language of the model. 'Only named documents are fetched' is "
         "modelled in coq/C20/Loader.v (namespace-aware named-reference set; loader_fetches_only_named, "
         "lookalike_names_nothing_in_context) and checked against a named set computed independently by the harness; "
         "content is also delivered as bytearray/memoryview and under file:// and loopback URLs with decoys planted "
         "at the real locations; the XML declaration (standalone yes/no/absent) is a generated dimension "
         "(standalone_no_is_absent). Loads run as histories in one process over multi-directory sites with decoys at every wrongly-resolvable URL and location-less imports (reference_without_location_names_nothing, references_resolve_against_container, load_depends_on_named_documents_only); class-level tables of suds are snapshotted before/after.",
)

CHECKS["C07"] = dict(
    text=("Machine-checked theorems (Coq): (1) suds.xsd.depsort modelled statement by statement — for ALL graphs "
          "(any size, cycles, dangling edges) |g|+1 fuel suffices, the output is a permutation of the items, "
          "dependencies come first (topological, also transitively, on acyclic graphs); the docstring's stronger "
          "claim for cyclic graphs is refuted with a witness; (2) qualify/splitPrefix/resolvePrefix/"
          "SchemaObject.qualify equal the Namespaces-in-XML expansion and are invariant under every injective prefix "
          "renaming and under default-namespace vs prefix spelling; (3) a concrete-schema model (blocks, collate, "
          "element form rule, group / attributeGroup / element-ref / extension merges) whose flattened view is "
          "invariant under permutation of declarations and under group factoring, ref-vs-inline, attributeGroup "
          "factoring, with the two block-splitting departures of the code refuted and guarded. Per quick run: all "
          "digraphs <= 3 keys + 1000 random to 40 keys against dependency_sort, 1500 qualify cases, and 36 generated "
          "interfaces x 5 concrete renderings (prefixes, default namespace, order, named/anonymous, groups, refs, "
          "1-3 blocks, WSDL order) whose clients must agree pairwise and with the model on service definition, "
          "parameters, schema views, factory objects, requests and decoded replies."),
    design="DESIGN.md §5 C07",
    technique="Coq proof (graph algorithm with fuel sufficiency; rewriting invariance of a schema denotation) + "
              "rendering-equivalence correspondence",
    note="Also proved: the concrete-schema model equals the denotation for every schema inside explicit boolean guards "
         "(model_is_denotation), Schema.dereference as in-place merges over an object store in dependency_sort order "
         "equals resolution (deref_sorted_is_resolution; a wrong order is refuted), Schema.merge keeps the symbol "
         "spaces apart, WSDL linking is independent of the order of top-level children and the wrapped rule. "
         "Anonymous types are abstracted in the concrete model (correspondence only); the guards expandable / "
         "view_defined are stated as 'the fuelled expansion succeeds'.",
)

CHECKS["C15"] = dict(
    text=("Machine-checked theorems (Coq) over the pure part of the HTTP transport: RFC 4648 base64 and UTF-8 codecs "
          "(round trips for ALL byte lists / scalar-value strings), Basic credentials (the server recovers exactly "
          "user and password for all strings without ':' in the user; the alphabet table is regenerated from /repo by "
          "calling addcredentials on 64 probes and proved equal to the standard one), header assembly with urllib's "
          "capitalisation collapse (defaults delivered unless overridden, caller headers delivered), the "
          "Content-Encoding switch in any spelling (the server decoding by the label it receives gets the envelope), "
          "reply decoding, HTTPError -> TransportError(code, body) for every status, failures propagate, non-ASCII "
          "URLs rejected before any I/O, timeout choice, and the cookie jar as a state machine over histories of ANY "
          "length (set/replace/expire/other path). ~6k cases per quick run against a raw-socket loopback server "
          "(bodies to 64 KiB incl. non-UTF-8, header maps with case collisions, credentials over printable Unicode "
          "incl. astral, statuses 200..599, gzip/deflate both ways, 1-5 request sessions with cookies, 11 socket "
          "fault phases) are compared with model and specification inside Coq. PARTIAL: sockets, urllib, http.client "
          "and http.cookiejar are runtime behaviour covered by the loopback correspondence only."),
    design="DESIGN.md §5 C15",
    technique="Coq proof (codec round trips by induction, pipeline lemmas, invariant over cookie histories) + loopback "
              "differential correspondence",
    note="gzip/zlib are oracles (each case carries the harness's own decompression of the wire bytes); bodies are "
         "interned (equal id = equal bytes); HTTPS, proxies and redirects are not exercised; caller headers owned by "
         "the standard library (Content-Length, Host, Connection, Transfer-Encoding, Cookie, Expect) are never "
         "generated.",
)

CHECKS["C10"] = dict(
    text=("Machine-checked theorems (Coq) over a statement-by-statement model of ServiceSelector / PortSelector / "
          "MethodSelector (int vs name subscripts incl. negative indexes, default service/port options, "
          "single-service passthrough), Service.do_resolve (non-SOAP ports dropped), Binding.add_operations "
          "(soapAction quoting/default, style default), Definitions.add_methods (per-port method table) and "
          "_SoapClient.__location/__headers: for ANY number of services, ports, bindings and operations and selector "
          "expressions of ANY depth, what is sent satisfies the routing function written from the documented rules "
          "(select_correct); with no hypothesis every request belongs to a declared service/port/binding/operation "
          "(routed_request_is_declared); unknown names and out-of-range indexes raise ServiceNotFound / PortNotFound "
          "/ MethodNotFound and never fall through; a location option changes the URL only, for that client only. "
          "33k selections per quick run (300 WSDL shapes of 0..3 services x 0..3 ports over 2 bindings + non-SOAP "
          "ports, all expressions of depth <= 2, a slice of depth 3, option settings, set_options/clone histories) "
          "are observed through a recording transport (URL, SOAPAction, Body root) and compared inside Coq; the "
          "thorough tier enumerates all 65,641 shapes and 1.05M selections."),
    design="DESIGN.md §5 C10",
    technique="Coq proof (selectors = routing specification for all WSDL skeletons and expressions) + exhaustive "
              "small-scope correspondence",
    note="WSDL/XSD parsing up to the method table and the rest of marshalling are covered by correspondence only.",
)

CHECKS["C12"] = dict(
    text=("Machine-checked theorems (Coq) over a model of the document loaders (DocumentReader.open/__fetch with "
          "policy-0 cache, store before transport; DefinitionsReader; Definitions.__init__ with the per-load memo "
          "registered before recursing, wsdl.Import.load/import_definitions/import_schema, build_schema; "
          "SchemaCollection/Schema.open_imports, Import/Include open, locate, download, chameleon include) over an "
          "abstract document world: for EVERY finite document graph (cycles, self-imports, diamonds, relative and "
          "absolute locations), store/transport split, caching policy and cache state the load terminates "
          "(potential-function argument, fuel never exhausted), every transport request directly follows a store "
          "miss for the same URL, each memo domain fetches a URL at most once, WSDL-level fetches are reachable "
          "from the root, the cache only ever holds complete documents, a warm cache is transparent, and for every "
          "k a fault at the k-th fetch makes construction fail, caches no WSDL object, leaves the cache sound and a "
          "healthy retry equals a clean load. ~4.7k client constructions per quick run (all graphs on 1-2 documents, "
          "sampled 3-document graphs, 130 interface partitions into 1-6 documents, every fetch faulted in turn) are "
          "compared with the model on outcome, exact request sequence and cache contents. Four departures of the "
          "code (wsdl:import of an .xsd; import cycles) are refuted/guarded and listed as known findings."),
    design="DESIGN.md §5 C12",
    technique="Coq proof (termination by potential function, invariants over the loader's request log, relational "
              "lemma for two openers) + in-Coq differential correspondence with fault injection",
    note="urljoin is modelled for hierarchical http(s) URLs only; declarations, resolve, set_wrapped, add_methods and "
         "the fingerprint of the client are covered by correspondence; partition_equivalent (declaration tables of any "
         "partition equal the single document's, as key sets, under explicit guards incl. no chameleon include) and "
         "the guarded schema-level reachable-only statement are proved on the model. Each layout runs in a forked child under CPU-time and memory limits: a load that does not finish or exhausts memory is a failing input (C12:load-does-not-terminate), not a harness error. URLs with query strings/fragments, same-named element/type pairs split across documents and same-namespace roots binding one prefix to different URIs are generated.",
)

CHECKS["C02"] = dict(
    text=("Machine-checked theorems (Coq) over a model of the reply path: sax.parser.Handler (xmlns handling, "
          "character buffering, trim only with children), Element.promotePrefixes/resolvePrefix/namespace/isnil, "
          "Binding.get_reply/replylist/replycomposite, Document.replycontent/returned_types, NodeResolver, BlindQuery, "
          "umx.core append*/postprocess, umx.typed and AttrList, against a reference decoder over the namespace "
          "infoset: for documents of ANY depth, width and list length decode_value / reply_decodes show the model "
          "returns the value the reference prescribes (typed leaves, repeating members as lists even for one "
          "occurrence, xsi:nil as None, attributes under underscore names, xsi:type selecting the derived type, "
          "single value vs composite), decode_presentation_independent shows two raw documents with one infoset "
          "decode alike, chars_chunking covers any chunking of character data; six departures of the code are "
          "refuted with witnesses, guarded, and listed as known findings. ~1.3k replies per quick run, written by an "
          "independent writer under random presentations (SOAP 1.1/1.2, prefix maps, default namespace incl. "
          "xmlns='', rebinding and shadowing, entity/character references, CDATA, comments, whitespace) are injected "
          "into real clients and compared with model and reference inside Coq (16k thorough)."),
    design="DESIGN.md §5 C02",
    technique="Coq proof (induction on the document) over a Gallina model of the unmarshaller + in-Coq differential "
              "correspondence under random presentations",
    note="Covers document/literal wrapped and bare and rpc/literal replies and simpleContent types; rpc/encoded replies "
         "and multiref are C18's. Lexical-to-Python translation beyond the type tag is C06's; expat's tokenisation and "
         "entity decoding is the model's input (trusted).",
)

CHECKS["C03"] = dict(
    text=("Machine-checked theorems (Coq) over a model of Factory.create: PathResolver.split (the regex with its "
          "backtracking order), qualify, root/branch/leaf, BlindQuery, TypedContent.resolve, sxbase.Iter order after "
          "Extension.merge, Builder.build/process/add_attributes/skip_child/skip_value/ordering with the history "
          "cut-off, Object.__setattr__ and sudsobject.Iter: for EVERY interface and every well-formed spelling "
          "create_meets_spec shows the object mirrors the type (content model in order, inherited first, repeating -> "
          "[], optional -> None, choice/wildcard members absent, _attr = declared default, required complex children "
          "pre-built until the type recurs), for unbounded nesting and any cycle of types (fuel proved sufficient); "
          "spellings (plain, prefixed, {ns}, dotted) are interchangeable; unknown names — undeclared prefixes "
          "included — raise TypeNotFound and never yield a partial object; on the C01 marshaller model a typed value "
          "and its untyped dict marshal alike. ~13k cases per quick run (36 generated interfaces: every global name "
          "in every root form, members, random walks to depth 4, @attrs, 20+ kinds of unknown name, adversarial "
          "split/qualify strings, filled-object-vs-dict request pairs) are compared with model and spec inside Coq."),
    design="DESIGN.md §5 C03",
    technique="Coq proof (induction with history cut-off, regex model) + in-Coq differential correspondence",
    note="ElementQuery deep search, simpleContent/mixed types, element refs, Factory.separator and names containing "
         "'.' are neither modelled nor generated; filled object vs dict is tied to the C01 model by envelope "
         "correspondence only.",
)

CHECKS["C08"] = dict(
    text=("Machine-checked theorems (Coq) over a verbatim model of suds/argparser.py (frame stack, ancestry matching, "
          "ChoiceFrame, positional-then-keyword lookup, extra/duplicate reporting, callback log), "
          "Document.bodycontent.add_param/mkparam and RPC.bodycontent: for EVERY parameter tree of any width and "
          "depth, every argument vector and both extraArgumentErrors settings, model_meets_spec / counts_correct / "
          "reject_iff / reject_reason_sound show required/allowed counts equal the tree's (sum over sequences/all, "
          "min over choice branches), a call is rejected exactly when Python binding rules or a choice conflict "
          "require it, each TypeError names a present reason, nothing is rejected with checking off, accepted calls "
          "produce one callback per parameter in order with the bound value, equal bindings give equal requests. "
          "Proof route: simulation of the partial machine by a total ghost machine + rose-tree induction. ~40k cases "
          "per quick run (every structure with <= 2 parameters and depth <= 3 x every marking, valued subset, split "
          "point; all 3-parameter shapes; seeded 4-6 parameter structures; 42 rendered WSDLs through real clients in "
          "all call styles incl. unwrap off; rpc) are compared inside Coq; nothing may reach a recording transport on "
          "rejection. rpc bindings never run the parser: refuted with a witness, known finding."),
    design="DESIGN.md §5 C08",
    technique="Coq proof (ghost-machine simulation + rose-tree induction) + exhaustive small-scope correspondence",
    note="Document.param_defs/Iter ancestry, Typed.translate/sort, envelope bytes and TypeError texts are covered by "
         "the harness only; a bare multi-part document message is not expressed as a tree. Real-client cases include services with 2-3 ports sharing an operation name over different parameter structures and clients whose WSDL object comes from an ObjectCache filled under the opposite unwrap option; argument values range over None, falsy-but-defined and truthy (reject_depends_on_definedness_only).",
)

CHECKS["C11"] = dict(
    text=("Machine-checked theorems (Coq) over a model of suds/cache.py at system-call granularity (abstract file "
          "system, clock, put/get/purge/clear/_getf/expiry/version check with suds' exception handling; faults at "
          "open, read, write after n bytes with or without zero fill, close) and of the reader layer "
          "(Reader.mangle, both policy switches, DocumentReader.open, DefinitionsReader.open): with ser/deser/md5 "
          "universally quantified under round-trip (H1) and torn-prefix-rejection (H2) hypotheses, for histories of "
          "ANY length over any ids, instances and cache classes every lookup returns nothing or the latest fresh "
          "completed store (cache_refines_map), lookups and stores never raise, damaged/expired entries are removed, "
          "a foreign version stamp clears every class, file names are injective in (class, id); for every "
          "interleaving of any number of processes a lookup returns nothing or an object some process stored under "
          "that name (given a mixture-rejecting format, H3 — shown necessary by a witness); a warm client fetches "
          "nothing; cached WSDL objects get the current options and unwrap setting. ~12k cases per quick run "
          "(exhaustive histories to length 3 over a 15-letter alphabet, random to 12, torn-write sweep over every "
          "offset of real entries, cold/warm client fingerprints over generated document graphs x policy x cache "
          "class x options) are compared inside Coq. PARTIAL: kernel file semantics, pickle and real multi-process "
          "timing are runtime behaviour; warm = cold is decided by correspondence."),
    design="DESIGN.md §5 C11",
    technique="Coq refinement proof (invariant + simulation over histories; schedule theorem under a format "
              "hypothesis) + in-Coq differential correspondence incl. torn-write sweep",
    note="H1-H3 are theorem hypotheses (Section variables), validated empirically by the torn-write and overlay "
         "sweeps against pickle and the SAX parser; the concurrency theorem assumes whole-entry writes. coq/C11/Preempt.v: get/purge re-stated over preemptible system calls — they never raise under ANY schedule of removals/clears by other instances (get_never_raises_preempted); the harness preempts every system call of get/purge/put by a second instance's purge/clear/unlink and by failing os.remove. In-memory caches handing back live objects and DocumentPlugin hooks on cache hits are modelled (MemReader.v, parsed_hook_on_every_open).",
)

CHECKS["C19"] = dict(
    text=("Machine-checked refinement theorems (Coq, ~5k lines) over a heap model of suds.sax.element (ids, parent "
          "pointers, child lists, attributes, text, prefix maps): append/insert/remove/detach/replaceChild/"
          "detachChildren/prune/set/unset/setText/rename/setPrefix/addPrefix/clearPrefix/clone and the six lookups, "
          "statement by statement, against a reference forest that identifies nodes by identity: for edit histories "
          "of ANY length the heap stays in the simulation relation with the reference and both return the same "
          "values (edit_refines_reference, no hypothesis on sibling names), the heap stays well-formed (parent and "
          "children agree both ways, no sharing, acyclic), data edits and detach write only the node given, a clone "
          "is equal and made of fresh nodes only, lookups return exactly the document-order matches; the old "
          "equality-based removal is kept as a refuted variant. ~1.8k histories / 14k observed steps per quick run "
          "(all 1- and 2-operation histories over a small tree with repeated sibling names, sampled 3-4, random to "
          "length 25 over trees to depth 4 with mixed namespaces and prefixes) are executed on real Elements and "
          "compared after EVERY step (returned value, parent/children/fields of every object by identity, plain()) "
          "with model and reference inside Coq; 53k histories thorough."),
    design="DESIGN.md §5 C19",
    technique="Coq refinement proof (simulation relation between heap and identity forest, induction over histories) "
              "+ step-wise differential correspondence",
    note="The reference is partial (no claim for edits on pruned nodes, re-appending a node that still has a parent, "
         "etc.; the model still follows the code there and is compared with it). The internal users of tree surgery "
         "(MultiRef.replace_references incl. the WF clause it gives up, doctor Import.apply, wsdl import_schema, "
         "Document lookups) are modelled as programs over the heap operations with frame theorems and driven like "
         "the other operations. promotePrefixes/refitPrefixes/normalizePrefixes (C05), trim and setnil are not "
         "modelled.",
)

CHECKS["C04"] = dict(
    text=("Machine-checked theorems (Coq) over a model of Encoder.encode/decode (tables and character-reference "
          "chains regenerated from /repo's source and AST on every run, fail-closed), Text.escape/unescape/trim/"
          "__add__ with the escaped flag, Attribute and Element text rendering, Element.plain/str character by "
          "character, PrefixNormalizer.refitValue and Handler.characters/endElement, against XML 1.0 decoders and a "
          "Coq XML tokenizer: for EVERY legal string what is written is well-formed (unguarded) and the receiver reads "
          "the string with pre-existing entity references decoded once (text_roundtrip_exact), hence exactly the "
          "string when it contains none (_partial; witnesses for the two known departures); replies written as ANY "
          "mix of literal text, named/decimal/hex references and CDATA decode to the intended string, chunking is "
          "irrelevant, trimming only for non-leaf elements; both serialisers re-read to the same tree, proved end to "
          "end in Coq (characters -> grammar -> Handler). Bounded exhaustive theorems (forallb by vm_compute, bound in "
          "the statement) classify exactly which strings of length <= 5 over a 13-symbol alphabet survive. ~27k "
          "cases per quick run (all strings of length <= 3 over 21 symbols as text/attribute through both "
          "serialisers, random XML-Char strings incl. astral, 700 calls x 5 positions x 4 client configurations, 700 "
          "replies x 5 positions in 4 encodings from an independent writer, random trees) are compared inside Coq, "
          "with expat as the independent reader."),
    design="DESIGN.md §5 C04",
    technique="Coq proof (string induction; bounded exhaustive sweeps lifted by forallb_forall) + in-Coq differential "
              "correspondence with expat as oracle",
    note="Marshaller/appender paths, envelope construction and nsdeclarations are covered by correspondence only; "
         "Raw text, lang, comments, PIs and DTDs are not modelled; re.sub/str.replace semantics are trusted.",
)

CHECKS["C13"] = dict(
    text=("Machine-checked theorems (Coq): a generic shared-memory step semantics (threads with private state, shared "
          "cells, schedules = lists of thread indexes, footprints, value-idempotent memo cells) with "
          "drf_noninterference — for ANY number of threads and ANY schedule, if each thread keeps to its footprint "
          "and what one thread writes and another reads is at most an idempotent memo cell, every thread completes "
          "with exactly its solo result (induction on the schedule); instantiated with the statement-level program "
          "of one suds invocation (options read, memo lookups, message slots, transport proxy, send, "
          "MultiRef.process per call, body.children) whose footprint is computed from the program text "
          "(call_footprint_sound, calls_noninterference); the pre-fix shared MultiRef program is refuted by a "
          "schedule in which A returns B's reply; clones are independent and can always be made (Endpoint guard). "
          "The tie: the WRITE FOOTPRINT OF REAL CALLS IS MEASURED (snapshot/diff of ~2100 objects reachable from "
          "the client plus all suds module and class dictionaries, intermediate snapshots under sys.settrace) and "
          "must lie inside the model's declared footprint and meet the theorem's condition; a deterministic "
          "scheduler (threads gated on trace events) runs ~1100 single-preemption interleavings at call/return "
          "events and random <=3-preemption schedules among 2-4 threads over document, rpc and encoded/multiref "
          "calls on one client, clones and clones of clones, comparing each thread's request and result with its "
          "solo run (all 49 ordered scenario pairs, ~259k single-preemption interleavings, in the thorough tier); a memo-stress call with 1500+ distinct classes checks that memo cells only ever grow (memo_cells_monotone). PARTIAL: GIL, C-level atomicity of dict/list operations and the "
          "thread safety of the standard library are assumed."),
    design="DESIGN.md §5 C13",
    technique="Coq proof (data-race-freedom non-interference for all schedules) + measured footprints + "
              "deterministic-scheduler correspondence",
    note="Marshalling/unmarshalling content is compared with solo runs only; the real schedule is mapped to the "
         "model schedule by step labels read off the suspended thread's stack (exact at statement level inside the "
         "modelled functions, at function events elsewhere).",
)

PENDING = {}


def main():
    props = [json.loads(l) for l in open(os.path.join(VERIF, "properties.jsonl"))]
    checks = []
    na = []
    for p in props:
        pid = p["id"]
        if pid in CHECKS:
            c = CHECKS[pid]
            checks.append({
                "property_id": pid,
                "quick_cmd": "./check %s --tier quick" % pid,
                "thorough_cmd": "./check %s --tier thorough" % pid,
                "evidence_file": "/verif/evidence/%s.json" % pid,
                "replay_cmd_template": "./check %s --replay {path}" % pid,
                "engine": "coq-model-correspondence",
                "level_claimed": {"category": "proof", "text": c["text"], "design_ref": c["design"]},
                "level_note": BASE_NOTE + c["note"],
                "technique": c["technique"],
            })
        else:
            na.append({"property_id": pid,
                       "reason": PENDING.get(pid, "check not built yet in this development (no claim made); "
                                                  "the technique applies — see DESIGN.md §5 %s" % pid)})
    m = {
        "version": 1,
        "setup_cmd": "./check setup",
        "hooks": {
            "guard": "SUDS_VERIF",
            "enable": "no source hooks are needed: checks import suds from /repo's working tree and observe it "
                      "through its public API (nosend / __inject / recording transports); SUDS_VERIF=1 is exported "
                      "by ./check for future instrumentation",
            "baseline_off_cmd": "cd /repo && /venv/bin/python -m pytest -ra -q -p no:cacheprovider --timeout=900 "
                                "--continue-on-collection-errors",
            "source_commits": [],
            "add_only": True,
        },
        "engines": [{
            "name": "coq-model-correspondence",
            "path": "/verif/check",
            "serves_properties": sorted(CHECKS),
            "kind_free_text": "Coq 8.16 development under /verif/coq (Model/Spec/Proofs/Props per property) + "
                              "Python harness that regenerates tables from /repo, runs the implementation and "
                              "has Coq vm_compute model-vs-implementation and spec-vs-implementation on the "
                              "same cases",
        }],
        "checks": checks,
        "not_applicable": na,
        "notes": "fix: commits in /repo and known findings are listed in /verif/KNOWN_FINDINGS.json; see DESIGN.md.",
    }
    with open(os.path.join(VERIF, "MANIFEST.json"), "w") as f:
        json.dump(m, f, indent=1)
    print("MANIFEST.json: %d checks, %d not_applicable" % (len(checks), len(na)))


if __name__ == "__main__":
    main()
