#!/usr/bin/env python3
"""Confirm a seeded change and run a check against it.

usage: seedcheck.py <dir with patch.diff demo.py meta.json> <Cxx> [--keep-as NAME] [--no-tests] [--worktree]

With --worktree nothing is applied to /repo itself: a scratch git worktree of /repo's HEAD is made under
/var/tmp, the change is applied there and the check is run with SUDS_REPO pointing at it (for use while
other work depends on /repo staying unchanged); the worktree is removed afterwards and the evidence file
of the property is restored.

Steps (all against /repo, restored afterwards with `git checkout -- .`):
  1. demo on the unchanged tree must exit 0
  2. git apply patch; the pinned test-suite must pass; demo must exit != 0
  3. ./check Cxx must print a VIOLATION line for Cxx
  4. git checkout -- .
With --keep-as the directory is copied to /verif/seeded/NAME with what was run
recorded in meta.json.
"""
import json
import os
import shutil
import subprocess
import sys
import time

REPO = "/repo"
VERIF = "/verif"


def sh(cmd, **kw):
    p = subprocess.run(cmd, shell=True, stdout=subprocess.PIPE, stderr=subprocess.STDOUT, **kw)
    return p.returncode, p.stdout.decode("utf-8", "replace")


def main():
    global REPO
    d, pid = os.path.abspath(sys.argv[1]), sys.argv[2]
    wt = None
    if "--worktree" in sys.argv:
        wt = "/var/tmp/seedwt-%s-%d" % (pid, os.getpid())
        rc, out = sh("git -C /repo worktree add --detach %s HEAD" % wt)
        if rc != 0:
            print(out)
            return 2
        REPO = wt
    keep = None
    if "--keep-as" in sys.argv:
        keep = sys.argv[sys.argv.index("--keep-as") + 1]
    run_tests = "--no-tests" not in sys.argv
    env = dict(os.environ, PYTHONPATH=REPO, SUDS_ROOT=REPO)
    rc, out = sh("git -C %s status --porcelain --untracked-files=no" % REPO)
    if out.strip():
        print("refusing: /repo has local modifications\n" + out)
        return 2
    record = {"checked_at": time.strftime("%Y-%m-%dT%H:%M:%SZ", time.gmtime()), "check": pid}
    demo = os.path.join(d, "demo.py")
    rc0, out0 = sh("/venv/bin/python %s %s" % (demo, REPO), env=env)
    record["demo_unchanged_exit"] = rc0
    try:
        rc, out = sh("git -C %s apply %s" % (REPO, os.path.join(d, "patch.diff")))
        if rc != 0:
            print("patch does not apply:\n" + out)
            return 2
        if run_tests:
            rct, outt = sh("cd %s && /venv/bin/python -m pytest -q -p no:cacheprovider -x 2>&1 | tail -3" % REPO)
            record["tests"] = outt.strip().splitlines()[-1] if outt.strip() else ""
            record["tests_pass"] = " passed" in outt and " failed" not in outt and "error" not in outt.lower()
        rc1, out1 = sh("/venv/bin/python %s %s" % (demo, REPO), env=env)
        record["demo_changed_exit"] = rc1
        record["demo_changed_output"] = out1[-600:]
        t0 = time.time()
        rcc, outc = sh("cd %s && SUDS_REPO=%s ./check %s" % (VERIF, REPO, pid))
        record["check_exit"] = rcc
        record["check_wall_s"] = round(time.time() - t0, 1)
        lines = [l for l in outc.splitlines() if l.startswith("VIOLATION") or l.startswith("  (")]
        record["check_violation_lines"] = lines[:8]
        record["detected"] = rcc == 1 and any(("property=%s " % pid) in l for l in lines)
    finally:
        sh("git -C %s checkout -- ." % REPO)
        if wt:
            sh("git -C /repo worktree remove --force %s" % wt)
            sh("git -C %s checkout -- evidence/%s.json" % (VERIF, pid))
            # tables were regenerated from the changed tree: regenerate them from /repo
            sh("cd %s && PYTHONHASHSEED=0 PYTHONPATH=%s /venv/bin/python -B -c \"from tools import gen_tables as g; "
               "[g.generate(m.NAME) for m in g._modules() if m.NAME.startswith('%s')]\"" % (VERIF, VERIF, pid))
            record["mode"] = "scratch worktree of /repo HEAD, check run with SUDS_REPO=<worktree>"
    ok = record.get("demo_unchanged_exit") == 0 and record.get("demo_changed_exit", 0) != 0 and \
        record.get("tests_pass", True)
    record["confirmed"] = ok
    print(json.dumps(record, indent=1))
    if keep:
        dst = os.path.join(VERIF, "seeded", keep)
        os.makedirs(dst, exist_ok=True)
        for f in ("patch.diff", "demo.py"):
            shutil.copy(os.path.join(d, f), os.path.join(dst, f))
        meta = {}
        try:
            meta = json.load(open(os.path.join(d, "meta.json")))
        except Exception:
            pass
        meta["verification"] = record
        json.dump(meta, open(os.path.join(dst, "meta.json"), "w"), indent=1)
    return 0 if ok else 1


if __name__ == "__main__":
    sys.exit(main())
