#!/bin/bash
# usage: goal.sh file.v LINE  -> shows goals before LINE (1-based)
f=$1; n=$2
d=$(dirname $f); b=$(basename $f .v)
head -n $((n-1)) $f > $d/Tmp_$b.v
echo "Show. Abort." >> $d/Tmp_$b.v
cd /verif/coq && timeout 300 coqc -Q . SV ${d#/verif/coq/}/Tmp_$b.v 2>&1 | tail -${3:-60}
rm -f $d/Tmp_$b.v $d/Tmp_$b.vo* $d/Tmp_$b.glob $d/.Tmp_$b.aux
