"""Tables for C03: the names BlindQuery/TypeQuery treat as XSD built-ins
(suds.xsd.sxbuiltin.Factory.tags) and the namespace test of
Schema.builtin(), read by importing suds from /repo.

Never raises: anything unexpected yields an empty table, which makes the
model disagree with the implementation on built-in names (fail closed).
"""
from harness import common
from tools.gen_tables import _hdr, cstr

NAME = "C03Tables"


def gen():
    tags = []
    try:
        common.force_repo_path()
        from suds.xsd.sxbuiltin import Factory
        tags = sorted(k for k in Factory.tags if isinstance(k, str))
    except Exception:  # noqa
        tags = []
    lines = [_hdr(NAME),
             "(* suds.xsd.sxbuiltin.Factory.tags: names resolved as XSD built-ins *)",
             "Definition builtin_tags : list str := ["]
    lines.append(";\n".join("  %s" % cstr(t) for t in tags))
    lines.append("].")
    return "\n".join(lines) + "\n"
