"""Regenerate coq/Gen/*.v from /repo's current source (fail-closed).

Each gen_<name>() returns the text of coq/Gen/<Name>.v.  The tables are read
by importing suds from /repo (never a site copy) or from the AST of the
source file; anything not of the expected literal shape aborts.
"""
import ast
import os
import sys

sys.path.insert(0, os.path.dirname(os.path.dirname(os.path.abspath(__file__))))
from harness import common  # noqa: E402


def _hdr(name):
    return ("(* GENERATED from /repo on every run by tools/gen_tables.py — do not edit. *)\n"
            "From SV Require Import Lib.Base.\n")


def cstr(s):
    return common.cstr(s)


def _modules():
    """tools/tables_*.py, one per property that needs regenerated tables.
    Each defines NAME (file stem under coq/Gen) and gen() -> text."""
    import importlib
    here = os.path.dirname(os.path.abspath(__file__))
    mods = []
    for f in sorted(os.listdir(here)):
        if f.startswith("tables_") and f.endswith(".py"):
            mods.append(importlib.import_module("tools." + f[:-3]))
    return mods


# Tables that could not be translated from the current source in this process:
# [(name, reason)].  Check.finish() turns each into "the theorems stated over this table
# are no longer checked against the code" (a VIOLATION ... no-failing-input-found unless
# the correspondence run, which then proceeds on the BASELINE table, finds a failing input).
FAILURES = []
BASELINE = os.path.join(os.path.dirname(os.path.abspath(__file__)), "baseline_tables")


def generate(name):
    for m in _modules():
        if m.NAME == name:
            try:
                text = m.gen()
            except (SystemExit, Exception) as e:  # noqa  (fail-closed translator)
                base = os.path.join(BASELINE, name + ".v")
                if not os.path.exists(base):
                    raise
                FAILURES.append((name, str(e) or repr(e)))
                with open(base) as f:
                    text = f.read()
            common.write_if_changed(os.path.join(common.COQ, "Gen", name + ".v"), text)
            return text
    raise KeyError(name)


def generate_all():
    for m in _modules():
        generate(m.NAME)


def write_baseline():
    """Snapshot of the tables of the unchanged tree (committed): what the correspondence run
    falls back to when the translator refuses the current source."""
    os.makedirs(BASELINE, exist_ok=True)
    for m in _modules():
        with open(os.path.join(BASELINE, m.NAME + ".v"), "w") as f:
            f.write(m.gen())


if __name__ == "__main__":
    if "--baseline" in sys.argv:
        write_baseline()
    else:
        generate_all()
