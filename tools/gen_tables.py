"""Regenerate coq/Gen/*.v from /repo's current source (fail-closed).

Each gen_<name>() returns the text of coq/Gen/<Name>.v.  The tables are read
by importing suds from /repo (never a site copy) or from the AST of the
source file; anything not of the expected literal shape aborts.
"""
import ast
import os
import sys

sys.path.insert(0, os.path.dirname(os.path.dirname(os.path.abspath(__file__))))
from harness import common  # noqa: E402


def _hdr(name):
    return ("(* GENERATED from /repo on every run by tools/gen_tables.py — do not edit. *)\n"
            "From SV Require Import Lib.Base.\n")


def cstr(s):
    return common.cstr(s)


def _modules():
    """tools/tables_*.py, one per property that needs regenerated tables.
    Each defines NAME (file stem under coq/Gen) and gen() -> text."""
    import importlib
    here = os.path.dirname(os.path.abspath(__file__))
    mods = []
    for f in sorted(os.listdir(here)):
        if f.startswith("tables_") and f.endswith(".py"):
            mods.append(importlib.import_module("tools." + f[:-3]))
    return mods


def generate(name):
    for m in _modules():
        if m.NAME == name:
            text = m.gen()
            common.write_if_changed(os.path.join(common.COQ, "Gen", name + ".v"), text)
            return text
    raise KeyError(name)


def generate_all():
    for m in _modules():
        generate(m.NAME)


if __name__ == "__main__":
    generate_all()
