(* GENERATED from /repo on every run by tools/gen_tables.py — do not edit. *)
From SV Require Import Lib.Base.

Definition impl_alphabet : list N := [65;66;67;68;69;70;71;72;73;74;75;76;77;78;79;80;81;82;83;84;85;86;87;88;89;90;97;98;99;100;101;102;103;104;105;106;107;108;109;110;111;112;113;114;115;116;117;118;119;120;121;122;48;49;50;51;52;53;54;55;56;57;43;47]%N.
Definition impl_auth_prefix : list N := [66;97;115;105;99;32]%N.
Definition impl_ct_name : list N := [67;111;110;116;101;110;116;45;84;121;112;101]%N.
Definition impl_ct_value : list N := [116;101;120;116;47;120;109;108;59;32;99;104;97;114;115;101;116;61;117;116;102;45;56]%N.
Definition impl_sa_name : list N := [83;79;65;80;65;99;116;105;111;110]%N.
