(* GENERATED from /repo on every run by tools/gen_tables.py — do not edit. *)
From SV Require Import Lib.Base.

(* status constants of suds/client.py, from its AST; -1 is the sentinel for
   a statement that no longer has the expected shape *)
Definition tables_shape_ok : bool := true.
Definition st_default : Z := (200)%Z.        (* if status is None: status = ... *)
Definition st_silent : list Z := [(202)%Z; (204)%Z].   (* if status in (...): return *)
Definition st_parsed : list Z := [(200)%Z; (500)%Z].   (* if status in (...): parse + fault lookup *)
Definition st_fault_ret : Z := (500)%Z.      (* return ..., fault *)
Definition st_ok_gate : Z := (200)%Z.        (* if status != ...: raise/return (status, description) *)
Definition st_ok_ret : Z := (200)%Z.         (* return ..., result *)
Definition st_call_fault_ret : Z := (500)%Z. (* Method.__call__: return ..., e *)
Definition inject_default_desc : str := [105;110;106;101;99;116;101;100;32;114;101;112;108;121]%N.
