(* GENERATED from /repo/suds/sax/enc.py on every run by tools/tables_c04.py - do not edit. *)
From SV Require Import Lib.Base.
Inductive enc_pat := PatChar (c : N) | PatAmpNot (names : list str).
Definition encodings : list (enc_pat * str) := [(PatAmpNot [[97;109;112]%N; [108;116]%N; [103;116]%N; [113;117;111;116]%N; [97;112;111;115]%N], [38;97;109;112;59]%N); (PatChar 60, [38;108;116;59]%N); (PatChar 62, [38;103;116;59]%N); (PatChar 34, [38;113;117;111;116;59]%N); (PatChar 39, [38;97;112;111;115;59]%N)].
Definition decodings : list (str * str) := [([38;108;116;59]%N, [60]%N); ([38;103;116;59]%N, [62]%N); ([38;113;117;111;116;59]%N, [34]%N); ([38;97;112;111;115;59]%N, [39]%N); ([38;97;109;112;59]%N, [38]%N)].
Definition special : list N := [38; 60; 62; 34; 39]%N.
Definition text_charrefs : list (N * str) := [(13%N, [38;35;49;51;59]%N)].
Definition attr_charrefs : list (N * str) := [(9%N, [38;35;57;59]%N); (10%N, [38;35;49;48;59]%N); (13%N, [38;35;49;51;59]%N)].
Definition py_space : list N := [9; 10; 11; 12; 13; 28; 29; 30; 31; 32; 133; 160; 5760; 8192; 8193; 8194; 8195; 8196; 8197; 8198; 8199; 8200; 8201; 8202; 8232; 8233; 8239; 8287; 12288]%N.
