(* GENERATED from /repo on every run by tools/gen_tables.py — do not edit. *)
From SV Require Import Lib.Base.

(* option names: 1=cache, 2=documentStore, 3=extraArgumentErrors, 4=allowUnknownMessageParts, 5=faults, 6=transport, 7=service, 8=port, 9=location, 10=soapheaders, 11=wsse, 12=doctor, 13=xstq, 14=prefixes, 15=retxml, 16=prettyxml, 17=autoblend, 18=cachingpolicy, 19=plugins, 20=nosend, 21=unwrap, 22=sortNamespaces, 31=proxy, 32=timeout, 33=headers, 34=username, 35=password *)
(* definition classes: 1=suds.cache.Cache, 2=suds.store.DocumentStore, 3=builtins.bool, 4=suds.transport.Transport, 5=builtins.int, 6=builtins.str, 7=suds.wsse.Security, 8=suds.xsd.doctor.Doctor, 9=builtins.list, 10=builtins.tuple, 11=builtins.dict, 12=builtins.float *)
Definition client_defs : list (N * list N * (N * N) * bool) :=
  [(1, [1], (10, 0), false)%N;
  (2, [2], (12, 0), false)%N;
  (3, [3], (1, 1), false)%N;
  (4, [3], (1, 0), false)%N;
  (5, [3], (1, 1), false)%N;
  (6, [4], (0, 0), true)%N;
  (7, [5; 6], (0, 0), false)%N;
  (8, [5; 6], (0, 0), false)%N;
  (9, [6], (0, 0), false)%N;
  (10, (@nil N), (8, 0), false)%N;
  (11, [7], (0, 0), false)%N;
  (12, [8], (0, 0), false)%N;
  (13, [3], (1, 1), false)%N;
  (14, [3], (1, 1), false)%N;
  (15, [3], (1, 0), false)%N;
  (16, [3], (1, 0), false)%N;
  (17, [3], (1, 0), false)%N;
  (18, [5], (2, 0), false)%N;
  (19, [9; 10], (7, 0), false)%N;
  (20, [3], (1, 0), false)%N;
  (21, [3], (1, 1), false)%N;
  (22, [3], (1, 1), false)%N].
Definition transport_defs : list (N * list N * (N * N) * bool) :=
  [(31, [11], (6, 0), false)%N;
  (32, [5; 12], (2, 90), false)%N;
  (33, [11], (6, 0), false)%N;
  (34, [6], (0, 0), false)%N;
  (35, [6], (0, 0), false)%N].
Definition isa_tbl : list (N * list N) :=
  [(1, [3; 5])%N;
   (2, [5])%N;
   (3, [12])%N;
   (4, [6])%N;
   (5, (@nil N))%N;
   (6, [11])%N;
   (7, [9])%N;
   (8, [10])%N;
   (9, (@nil N))%N;
   (10, [1])%N;
   (11, [1])%N;
   (12, [2])%N;
   (13, [7])%N;
   (14, [8])%N;
   (15, [4])%N;
   (16, [4])%N;
   (17, [4])%N;
   (18, [4])%N].
(* header names: 1=content-type, 2=soapaction, 3=http, 4=https, 5=x-a, 6=x-b; header values are interned in sorted order, 0 = the value suds sets *)
Definition header_pool : list (N * list (N * N)) :=
  [(0, (@nil (N * N)))%N;
   (1, [(3, 11)])%N;
   (2, [(5, 4)])%N;
   (3, [(5, 5); (6, 6)])%N;
   (4, [(4, 9); (3, 10)])%N;
   (5, [(1, 8)])%N;
   (6, [(1, 7); (2, 2)])%N;
   (7, [(2, 3); (5, 4)])%N;
   (8, [(1, 12); (2, 1)])%N].
Definition cls_transport : N := 4%N.
Definition domains_distinct : bool := true.
