#!/bin/bash
# Re-run every kept seed against its check (scratch worktrees; several properties in parallel, one seed per
# property at a time) and refresh seeded/<id>/meta.json.  usage: tools/seedall.sh [lanes]
cd "$(dirname "$0")/.." || exit 2
lanes=${1:-5}
ls -d seeded/C??-? | sed 's|seeded/||' | cut -d- -f1 | sort -u | xargs -P "$lanes" -I{} bash -c '
  for d in seeded/{}-?; do s=$(basename $d);
    if grep -q "\"obsolete\"" $d/meta.json; then echo "$s obsolete"; continue; fi
    rm -rf /var/tmp/sa_$s; cp -r $d /var/tmp/sa_$s
    r=$(python3 tools/seedcheck.py /var/tmp/sa_$s {} --worktree --no-tests --keep-as $s 2>&1 | grep -E "\"(check_exit|detected)\"" | tr -d " \n")
    rm -rf /var/tmp/sa_$s; echo "$s $r"; done'
