"""Tables for C09: the HTTP status constants the reply classification of
suds/client.py compares against, read from the AST of the source file.

Never raises: a statement that is not of the expected shape yields the
sentinel value -1 (or an empty list), which makes the C09 theorems about the
status table unprovable, so that the run fails closed without crashing.
"""
import ast
import http.client
import os

from harness import common
from tools.gen_tables import _hdr

NAME = "C09Tables"
SENTINEL = -1


def _const(node):
    """Integer denoted by `http.client.NAME`, `httplib.NAME` or a literal."""
    if isinstance(node, ast.Constant) and isinstance(node.value, int) and not isinstance(node.value, bool):
        return int(node.value)
    if isinstance(node, ast.Attribute):
        v = getattr(http.client, node.attr, None)
        base = node.value
        ok_base = (isinstance(base, ast.Attribute) and base.attr == "client"
                   and isinstance(base.value, ast.Name) and base.value.id == "http") or \
                  (isinstance(base, ast.Name) and base.id in ("httplib", "HTTPStatus"))
        if ok_base and isinstance(v, int):
            return int(v)
    return None


def _is_status(node):
    return isinstance(node, ast.Name) and node.id == "status"


def _cmp(test, op):
    """(left, comparator) of a single comparison with operator class `op`."""
    if isinstance(test, ast.Compare) and len(test.ops) == 1 and isinstance(test.ops[0], op):
        return test.left, test.comparators[0]
    return None


def _tuple_consts(node):
    if isinstance(node, (ast.Tuple, ast.List, ast.Set)):
        vals = [_const(e) for e in node.elts]
        if all(v is not None for v in vals):
            return vals
    return None


def _membership(test):
    """Constants c1..cn of `status in (c1, .., cn)`, `status == c` or an `or`
    of such tests; None when the test has another shape."""
    c = _cmp(test, ast.In)
    if c and _is_status(c[0]):
        return _tuple_consts(c[1])
    c = _cmp(test, ast.Eq)
    if c and _is_status(c[0]):
        v = _const(c[1])
        return None if v is None else [v]
    if isinstance(test, ast.BoolOp) and isinstance(test.op, ast.Or):
        out = []
        for t in test.values:
            m = _membership(t)
            if m is None:
                return None
            out += m
        return out
    return None


def _find_func(tree, cls, name):
    for n in tree.body:
        if isinstance(n, ast.ClassDef) and n.name == cls:
            for m in n.body:
                if isinstance(m, ast.FunctionDef) and m.name == name:
                    return m
    return None


def _walk_no_nested_defs(nodes):
    for n in nodes:
        yield n
        for f in ast.iter_child_nodes(n):
            if isinstance(f, (ast.FunctionDef, ast.ClassDef, ast.Lambda)):
                continue
            for x in _walk_no_nested_defs([f]):
                yield x


def _returns_pair(stmts):
    """First element constants of every `return <c>, x` directly in stmts."""
    out = []
    for s in stmts:
        if isinstance(s, ast.Return) and isinstance(s.value, ast.Tuple) and len(s.value.elts) == 2:
            out.append(s.value.elts)
    return out


def extract(path):
    """dict of constants; missing/odd pieces are None."""
    res = dict(default=None, silent=None, parsed=None, fault_ret=None, ok_gate=None,
               ok_ret=None, call_fault_ret=None, fault_warn=None, inject_desc=None)
    try:
        with open(path, encoding="utf-8") as f:
            tree = ast.parse(f.read())
    except Exception:  # noqa
        return res
    pr = _find_func(tree, "_SoapClient", "process_reply")
    if pr is not None:
        top = pr.body
        gates = []
        for s in top:
            if not isinstance(s, ast.If):
                continue
            c = _cmp(s.test, ast.Is)
            if c and _is_status(c[0]) and isinstance(c[1], ast.Constant) and c[1].value is None \
                    and len(s.body) == 1 and isinstance(s.body[0], ast.Assign) \
                    and len(s.body[0].targets) == 1 and _is_status(s.body[0].targets[0]) and not s.orelse:
                res["default"] = _const(s.body[0].value)
                continue
            vals = _membership(s.test)
            if vals is not None:
                has_bare_return = any(isinstance(x, ast.Return) and x.value is None for x in s.body)
                has_parse = any(isinstance(x, ast.Assign) and isinstance(x.value, ast.Call)
                                and isinstance(x.value.func, ast.Name) and x.value.func.id == "_parse"
                                for x in s.body)
                if has_bare_return and not has_parse and not s.orelse:
                    res["silent"] = vals
                elif has_parse and not s.orelse:
                    res["parsed"] = vals
                    for x in s.body:
                        if isinstance(x, ast.If) and isinstance(x.test, ast.Name) and x.test.id == "fault":
                            pairs = _returns_pair(x.body)
                            if len(pairs) == 1 and isinstance(pairs[0][1], ast.Name) and pairs[0][1].id == "fault":
                                res["fault_ret"] = _const(pairs[0][0])
                            for y in x.body:
                                if isinstance(y, ast.If):
                                    cc = _cmp(y.test, ast.NotEq)
                                    if cc and _is_status(cc[0]):
                                        res["fault_warn"] = _const(cc[1])
                continue
            c = _cmp(s.test, ast.NotEq)
            if c and _is_status(c[0]) and not s.orelse:
                pairs = _returns_pair(s.body)
                raises = [x for x in ast.walk(s) if isinstance(x, ast.Raise)]
                if len(pairs) == 1 and _is_status(pairs[0][0]) and raises:
                    gates.append(_const(c[1]))
        if len(gates) == 1:
            res["ok_gate"] = gates[0]
        finals = _returns_pair(top)
        if len(finals) == 1 and isinstance(finals[0][1], ast.Name) and finals[0][1].id == "result":
            res["ok_ret"] = _const(finals[0][0])
    call = _find_func(tree, "Method", "__call__")
    if call is not None:
        pairs = []
        for n in _walk_no_nested_defs(call.body):
            if isinstance(n, ast.ExceptHandler):
                pairs += _returns_pair(n.body)
        if len(pairs) == 1:
            res["call_fault_ret"] = _const(pairs[0][0])
    inv = _find_func(tree, "_SimClient", "invoke")
    if inv is not None:
        for n in _walk_no_nested_defs(inv.body):
            if isinstance(n, ast.Assign) and len(n.targets) == 1 and isinstance(n.targets[0], ast.Name) \
                    and n.targets[0].id == "description" and isinstance(n.value, ast.Constant) \
                    and isinstance(n.value.value, str):
                res["inject_desc"] = n.value.value
    return res


def gen():
    path = os.path.join(common.REPO, "suds", "client.py")
    r = extract(path)
    z = lambda v: common.cZ(SENTINEL if v is None else v)   # noqa: E731
    zl = lambda v: "[" + "; ".join(common.cZ(x) for x in (v or [])) + "]"   # noqa: E731
    shape_ok = all(r[k] is not None for k in
                   ("default", "silent", "parsed", "fault_ret", "ok_gate", "ok_ret", "call_fault_ret"))
    out = [_hdr(NAME)]
    out.append("(* status constants of suds/client.py, from its AST; %s is the sentinel for\n"
               "   a statement that no longer has the expected shape *)" % SENTINEL)
    out.append("Definition tables_shape_ok : bool := %s." % common.cbool(shape_ok))
    out.append("Definition st_default : Z := %s.        (* if status is None: status = ... *)" % z(r["default"]))
    out.append("Definition st_silent : list Z := %s.   (* if status in (...): return *)" % zl(r["silent"]))
    out.append("Definition st_parsed : list Z := %s.   (* if status in (...): parse + fault lookup *)" % zl(r["parsed"]))
    out.append("Definition st_fault_ret : Z := %s.      (* return ..., fault *)" % z(r["fault_ret"]))
    out.append("Definition st_ok_gate : Z := %s.        (* if status != ...: raise/return (status, description) *)" % z(r["ok_gate"]))
    out.append("Definition st_ok_ret : Z := %s.         (* return ..., result *)" % z(r["ok_ret"]))
    out.append("Definition st_call_fault_ret : Z := %s. (* Method.__call__: return ..., e *)" % z(r["call_fault_ret"]))
    out.append("Definition inject_default_desc : str := %s." % common.cstr(r["inject_desc"] or ""))
    return "\n".join(out) + "\n"
