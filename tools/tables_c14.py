"""Tables for C14, read from /repo's suds by instantiating the two Options
classes (fail-closed on anything of an unexpected shape).

Everything is interned as small numbers with PINNED ids (the executable spec
in coq/C14/Model.v is written against the same ids):

  option names   NAME_IDS      (unknown new names get ids >= 200)
  classes        CLASS_IDS     (classes named by a Definition; new ones >= 200)
  value tags     VALUE_CLASSES (the classes of the values the harness assigns)

Generated:
  client_defs / transport_defs : list (name * classes * (dtag * did) * linker)
       in the order of the `definitions` list of the Options class
  isa_tbl : for every value tag, the definition classes it is an instance of
       (Python's own issubclass on the real classes: bool is an int, ...)
  cls_transport : the class TpLinker.updated tests with isinstance
  domains_distinct : whether the two Properties domains differ
"""
from harness import common
from tools.gen_tables import _hdr

NAME = "C14Tables"

NAME_IDS = {
    "cache": 1, "documentStore": 2, "extraArgumentErrors": 3,
    "allowUnknownMessageParts": 4, "faults": 5, "transport": 6, "service": 7,
    "port": 8, "location": 9, "soapheaders": 10, "wsse": 11, "doctor": 12,
    "xstq": 13, "prefixes": 14, "retxml": 15, "prettyxml": 16, "autoblend": 17,
    "cachingpolicy": 18, "plugins": 19, "nosend": 20, "unwrap": 21,
    "sortNamespaces": 22,
    "proxy": 31, "timeout": 32, "headers": 33, "username": 34, "password": 35,
}

CLASS_IDS = {
    "suds.cache.Cache": 1, "suds.store.DocumentStore": 2, "builtins.bool": 3,
    "suds.transport.Transport": 4, "builtins.int": 5, "builtins.str": 6,
    "suds.wsse.Security": 7, "suds.xsd.doctor.Doctor": 8, "builtins.list": 9,
    "builtins.tuple": 10, "builtins.dict": 11, "builtins.float": 12,
}

# value tag -> how to find the class of such values
T_NONE, T_BOOL, T_INT, T_FLOAT, T_STR, T_BYTES, T_DICT, T_LIST, T_TUPLE, T_OBJECT = range(10)
T_NOCACHE, T_CACHESUB, T_DOCSTORE, T_SECURITY, T_DOCTOR = 10, 11, 12, 13, 14
T_HTTP, T_HTTPAUTH = 15, 16
T_CUSTOM, T_HTTPAUTH_HDR = 17, 18
T_UNKNOWN = 99


# The dict values the harness assigns (to `proxy` and to `headers`), by identity k of the
# value (6, k).  As `headers` values they are merged into the HTTP headers of a SOAP request
# (suds/client.py:_SoapClient.__headers): some keys collide, in various spellings, with the
# two headers suds sets itself.  No dict spells one header name in two ways.
DICT_POOL = {
    0: {},
    1: {"http": "h.invalid:1"},
    2: {"X-a": "1"},
    3: {"X-a": "2", "X-b": "3"},
    4: {"https": "g.invalid:2", "http": "g.invalid:3"},
    5: {"Content-Type": "application/soap+xml; charset=utf-8"},
    6: {"content-type": "application/soap+xml", "SOAPAction": '"urn:c14:x"'},
    7: {"soapaction": '"urn:c14:y"', "X-a": "1"},
    8: {"CONTENT-TYPE": "text/plain", "Soapaction": ""},
}
# header names (lower case) -> key id; 1 and 2 are the headers suds sets itself
HEADER_KEYS = {"content-type": 1, "soapaction": 2, "http": 3, "https": 4, "x-a": 5, "x-b": 6}


def header_value_ids():
    """value id of every string used as a header value (0 = the value suds itself sets)"""
    vals = sorted(set(v for d in DICT_POOL.values() for v in d.values()))
    return dict((v, i + 1) for i, v in enumerate(vals))


def header_pool():
    """k -> [(key id, value id)] in the dict's own order"""
    ids = header_value_ids()
    out = []
    for k, d in sorted(DICT_POOL.items()):
        keys = [x.lower() for x in d]
        assert len(set(keys)) == len(keys), "one spelling per header name"
        out.append((k, [(HEADER_KEYS[x.lower()], ids[v]) for x, v in d.items()]))
    return out


def value_classes():
    """value tag -> class (tag 0 = None has no entry: validate() lets None
    through before looking at the classes)."""
    import suds.cache
    import suds.store
    import suds.wsse
    import suds.xsd.doctor
    import suds.transport.http
    import suds.transport.https
    return {
        T_BOOL: bool, T_INT: int, T_FLOAT: float, T_STR: str, T_BYTES: bytes,
        T_DICT: dict, T_LIST: list, T_TUPLE: tuple, T_OBJECT: object,
        T_NOCACHE: suds.cache.NoCache,
        T_CACHESUB: suds.cache.Cache,          # the harness uses a direct subclass of Cache
        T_DOCSTORE: suds.store.DocumentStore,
        T_SECURITY: suds.wsse.Security,
        T_DOCTOR: suds.xsd.doctor.ImportDoctor,
        T_HTTP: suds.transport.http.HttpTransport,
        T_HTTPAUTH: suds.transport.https.HttpAuthenticated,
        T_CUSTOM: suds.transport.Transport,     # the harness uses a direct subclass of Transport
        T_HTTPAUTH_HDR: suds.transport.http.HttpAuthenticated,
    }


def qual(cls):
    return "%s.%s" % (cls.__module__, cls.__name__)


def encode_default(v):
    """A definition's default as (tag, id); defaults of an unexpected shape
    become (99, k) which no harness value equals."""
    import suds.cache
    import suds.store
    if v is None:
        return (T_NONE, 0)
    if isinstance(v, bool):
        return (T_BOOL, int(v))
    if type(v) is int and 0 <= v < 100000:
        return (T_INT, v)
    if type(v) is dict and not v:
        return (T_DICT, 0)
    if type(v) is list and not v:
        return (T_LIST, 0)
    if type(v) is tuple and not v:
        return (T_TUPLE, 0)
    if type(v) is suds.cache.NoCache:
        return (T_NOCACHE, 0)
    if v is suds.store.defaultDocumentStore:
        return (T_DOCSTORE, 0)
    return (T_UNKNOWN, abs(hash(repr(type(v)))) % 1000)


def read_tables():
    """Python-side view of the tables (also used by the harness)."""
    common.force_repo_path()
    import suds.options
    import suds.transport.options
    from suds.properties import Unskin, Definition, Properties
    co = Unskin(suds.options.Options())
    to = Unskin(suds.transport.options.Options())
    for p in (co, to):
        if not isinstance(p, Properties) or not isinstance(p.definitions, dict):
            raise SystemExit("tables_c14: Options() does not wrap a Properties object with a definitions dict")
    names = dict(NAME_IDS)
    classes = dict(CLASS_IDS)

    def name_id(n):
        if n not in names:
            names[n] = 200 + len([k for k in names.values() if k >= 200])
        return names[n]

    def class_id(c):
        q = qual(c)
        if q not in classes:
            classes[q] = 200 + len([k for k in classes.values() if k >= 200])
        return classes[q]

    class_objs = {}

    def defs(p):
        out = []
        for key, d in p.definitions.items():
            if not isinstance(d, Definition) or d.name != key or not isinstance(d.classes, (list, tuple)):
                raise SystemExit("tables_c14: definition %r has an unexpected shape" % (key,))
            cl = []
            for c in d.classes:
                if not isinstance(c, type):
                    raise SystemExit("tables_c14: definition %r names a non-class %r" % (key, c))
                cl.append(class_id(c))
                class_objs[class_id(c)] = c
            linker = isinstance(d.linker, suds.options.TpLinker)
            if type(d.linker) not in (suds.options.TpLinker, suds.options.AutoLinker):
                raise SystemExit("tables_c14: definition %r has an unknown linker %r" % (key, d.linker))
            out.append((name_id(key), cl, encode_default(d.default), linker))
        return out

    cdefs = defs(co)
    tdefs = defs(to)
    import suds.transport
    t_id = class_id(suds.transport.Transport)
    class_objs[t_id] = suds.transport.Transport
    isa = []
    for tag, vc in sorted(value_classes().items()):
        isa.append((tag, sorted(cid for cid, c in class_objs.items() if issubclass(vc, c))))
    return {
        "cdefs": cdefs, "tdefs": tdefs, "isa": isa, "cls_transport": t_id,
        "domains_distinct": co.domain != to.domain,
        "names": names, "classes": classes,
    }


def cval(v):
    return "(%d, %d)%%N" % v


def cdefs_term(ds):
    rows = []
    for (n, cl, dv, linker) in ds:
        rows.append("(%d, %s, %s, %s)%%N" % (
            n, "[" + "; ".join(str(c) for c in cl) + "]" if cl else "(@nil N)",
            "(%d, %d)" % dv, common.cbool(linker)))
    return "[" + ";\n  ".join(rows) + "]"


def gen():
    t = read_tables()
    out = [_hdr(NAME)]
    out.append("(* option names: %s *)" % ", ".join(
        "%d=%s" % (v, k) for k, v in sorted(t["names"].items(), key=lambda kv: kv[1])))
    out.append("(* definition classes: %s *)" % ", ".join(
        "%d=%s" % (v, k) for k, v in sorted(t["classes"].items(), key=lambda kv: kv[1])))
    ty = "list (N * list N * (N * N) * bool)"
    out.append("Definition client_defs : %s :=\n  %s." % (ty, cdefs_term(t["cdefs"])))
    out.append("Definition transport_defs : %s :=\n  %s." % (ty, cdefs_term(t["tdefs"])))
    out.append("Definition isa_tbl : list (N * list N) :=\n  [%s]." % ";\n   ".join(
        "(%d, %s)%%N" % (tag, "[" + "; ".join(map(str, cl)) + "]" if cl else "(@nil N)")
        for tag, cl in t["isa"]))
    out.append("(* header names: %s; header values are interned in sorted order, 0 = the value suds sets *)" % (
        ", ".join("%d=%s" % (v, k) for k, v in sorted(HEADER_KEYS.items(), key=lambda kv: kv[1]))))
    out.append("Definition header_pool : list (N * list (N * N)) :=\n  [%s]." % ";\n   ".join(
        "(%d, %s)%%N" % (k, "[" + "; ".join("(%d, %d)" % e for e in es) + "]" if es else "(@nil (N * N))")
        for k, es in header_pool()))
    out.append("Definition cls_transport : N := %d%%N." % t["cls_transport"])
    out.append("Definition domains_distinct : bool := %s." % common.cbool(t["domains_distinct"]))
    return "\n".join(out) + "\n"
