"""Tables for C04, read from /repo's suds (fail-closed).

`Encoder.encodings` is a sequence of (regex, replacement) pairs handed to
re.sub.  The Coq model knows exactly two regex shapes:

    a single literal character                     -> PatChar c
    &(?!(n1|n2|...|nk);)   with ni in [A-Za-z0-9]+  -> PatAmpNot [n1; ...; nk]

Anything else (or a replacement containing a backslash, which re.sub would
interpret) aborts the translation: the model would not be the code.
`Encoder.decodings` are (old, new) pairs for str.replace; `Encoder.special`
are the characters whose presence triggers encoding (single characters).

The serialisation layer (Element.str/plain via Element.__escaped_text, and
Attribute.__unicode__) rewrites some characters as character references with
a chain of str.replace calls; the chains are read from the AST (application
order).  No chain found -> empty list (the theorems then no longer hold of the
model: fails closed); a chain of another shape aborts.
"""
import ast
import os
import re

from harness import common
from tools.gen_tables import cstr

NAME = "C04Tables"

# characters that are themselves regex syntax: a one-character pattern made of
# one of these is not "that literal character"
_REGEX_META = set(".^$*+?{}[]\\|()")
_AMP_NOT = re.compile(r"^&\(\?!\(([A-Za-z0-9]+(?:\|[A-Za-z0-9]+)*)\);\)$")


def pattern_term(rx):
    if not isinstance(rx, str):
        raise SystemExit("tables_c04: Encoder.encodings pattern %r is not a str" % (rx,))
    if len(rx) == 1 and rx not in _REGEX_META:
        return "PatChar %d" % ord(rx)
    m = _AMP_NOT.match(rx)
    if m:
        names = m.group(1).split("|")
        return "PatAmpNot [%s]" % "; ".join(cstr(n) for n in names)
    raise SystemExit("tables_c04: Encoder.encodings pattern %r has a shape the model does not know" % (rx,))


def _replace_chain(path, cls, func):
    """[(old_char, new_string)] of the single `.replace(a, b).replace(c, d)...`
    chain inside cls.func, in application order; [] when there is none."""
    with open(path, encoding="utf-8") as f:
        tree = ast.parse(f.read())
    fn = None
    for n in tree.body:
        if isinstance(n, ast.ClassDef) and n.name == cls:
            for m in n.body:
                if isinstance(m, ast.FunctionDef) and m.name == func:
                    fn = m
    if fn is None:
        return []

    def is_replace(c):
        return isinstance(c, ast.Call) and isinstance(c.func, ast.Attribute) and c.func.attr == "replace"
    calls = [c for c in ast.walk(fn) if is_replace(c)]
    inner = set(id(c.func.value) for c in calls)
    tops = [c for c in calls if id(c) not in inner]
    if not tops:
        return []
    if len(tops) != 1:
        raise SystemExit("tables_c04: %s.%s has %d replace chains, expected one" % (cls, func, len(tops)))
    chain, c = [], tops[0]
    while is_replace(c):
        if len(c.args) != 2 or c.keywords or not all(
                isinstance(a, ast.Constant) and isinstance(a.value, str) for a in c.args):
            raise SystemExit("tables_c04: %s.%s: replace() call with non-literal arguments" % (cls, func))
        old, new = c.args[0].value, c.args[1].value
        if len(old) != 1:
            raise SystemExit("tables_c04: %s.%s: replace(%r, ...) is not a single character" % (cls, func, old))
        chain.append((old, new))
        c = c.func.value
    if not isinstance(c, ast.Name):
        raise SystemExit("tables_c04: %s.%s: replace chain does not start at a variable" % (cls, func))
    chain.reverse()
    return chain


def _chain_term(chain):
    return common.clist(["(%d%%N, %s)" % (ord(o), cstr(n)) for o, n in chain], "N * str")


def gen():
    common.force_repo_path()
    import importlib
    import suds.sax.enc as enc
    importlib.reload(enc)
    E = enc.Encoder
    out = ["(* GENERATED from /repo/suds/sax/enc.py on every run by tools/tables_c04.py - do not edit. *)",
           "From SV Require Import Lib.Base.",
           "Inductive enc_pat := PatChar (c : N) | PatAmpNot (names : list str)."]
    encs = []
    if not isinstance(E.encodings, (tuple, list)):
        raise SystemExit("tables_c04: Encoder.encodings is not a sequence")
    for item in E.encodings:
        if not (isinstance(item, (tuple, list)) and len(item) == 2):
            raise SystemExit("tables_c04: Encoder.encodings entry %r is not a pair" % (item,))
        rx, repl = item
        if not isinstance(repl, str) or "\\" in repl:
            raise SystemExit("tables_c04: replacement %r is not a plain string" % (repl,))
        encs.append("(%s, %s)" % (pattern_term(rx), cstr(repl)))
    out.append("Definition encodings : list (enc_pat * str) := %s."
               % common.clist(encs, "enc_pat * str"))
    decs = []
    if not isinstance(E.decodings, (tuple, list)):
        raise SystemExit("tables_c04: Encoder.decodings is not a sequence")
    for item in E.decodings:
        if not (isinstance(item, (tuple, list)) and len(item) == 2
                and all(isinstance(x, str) for x in item) and item[0]):
            raise SystemExit("tables_c04: Encoder.decodings entry %r is not a pair of strings" % (item,))
        decs.append("(%s, %s)" % (cstr(item[0]), cstr(item[1])))
    out.append("Definition decodings : list (str * str) := %s." % common.clist(decs, "str * str"))
    sp = []
    if not isinstance(E.special, (tuple, list)):
        raise SystemExit("tables_c04: Encoder.special is not a sequence")
    for c in E.special:
        if not (isinstance(c, str) and len(c) == 1):
            raise SystemExit("tables_c04: Encoder.special entry %r is not a single character" % (c,))
        sp.append("%d" % ord(c))
    out.append("Definition special : list N := %s%s." % (common.clist(sp, "N"), "%N" if sp else ""))
    sax = os.path.join(common.REPO, "suds", "sax")
    out.append("Definition text_charrefs : list (N * str) := %s."
               % _chain_term(_replace_chain(os.path.join(sax, "element.py"), "Element", "__escaped_text")))
    out.append("Definition attr_charrefs : list (N * str) := %s."
               % _chain_term(_replace_chain(os.path.join(sax, "attribute.py"), "Attribute", "__unicode__")))
    # CPython runtime table (not suds): the characters str.strip() removes; Text.trim uses it.
    sp = [c for c in range(0x110000) if chr(c).isspace()]
    if (" x ").strip() != "x" or len(sp) > 64:
        raise SystemExit("tables_c04: unexpected str.isspace table")
    out.append("Definition py_space : list N := %s%%N." % common.clist(["%d" % c for c in sp], "N"))
    return "\n".join(out) + "\n"
