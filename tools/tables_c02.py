"""Tables for C02, read from /repo's working tree on every run:
  * which Python type each XSD built-in decodes to, derived from the behaviour
    of the classes in suds.xsd.sxbuiltin.Factory.tags (builtin_tags);
  * the string constants the reply path compares against (SOAP 1.1/1.2
    envelope namespaces, the xsi and xml namespaces), the attribute namespaces
    AttrList.skip filters (probed on the real class), umx.core.reserved, and
    the names of the built-ins (builtin_names).

The built-ins are numbered by their position in XSD_BUILTINS below (a fixed
list written from XML Schema Part 2, not read from the code); the generated
file gives, per position, the tag of the Python type the implementation's
class for that name produces from a canonical lexical form.  Never raises: a
class that behaves unexpectedly gets the sentinel tag 99, which makes the
table theorem of C02 unprovable (fail closed).
"""
import datetime
import decimal

from harness import common
from tools.gen_tables import _hdr

NAME = "C02Tables"

# XML Schema Part 2 built-in datatypes (+ anyType); "string" must stay first
XSD_BUILTINS = [
    "string", "boolean", "decimal", "float", "double", "duration", "dateTime", "time", "date",
    "gYearMonth", "gYear", "gMonthDay", "gDay", "gMonth", "hexBinary", "base64Binary", "anyURI",
    "QName", "NOTATION", "normalizedString", "token", "language", "NMTOKEN", "NMTOKENS", "Name",
    "NCName", "ID", "IDREF", "IDREFS", "ENTITY", "ENTITIES", "integer", "nonPositiveInteger",
    "negativeInteger", "long", "int", "short", "byte", "nonNegativeInteger", "unsignedLong",
    "unsignedInt", "unsignedShort", "unsignedByte", "positiveInteger", "anySimpleType", "anyType",
]
BUILTIN_INDEX = dict((n, i) for i, n in enumerate(XSD_BUILTINS))

TAG_STR, TAG_INT, TAG_BOOL, TAG_DECIMAL, TAG_FLOAT, TAG_DATE, TAG_TIME, TAG_DATETIME = range(8)
TAG_NAMES = ["str", "int", "bool", "Decimal", "float", "date", "time", "datetime"]
SENTINEL = 99

PROBES = ["true", "12", "1.5", "2001-02-03", "01:02:03", "2001-02-03T01:02:03", "abc"]


def pytag(v):
    """Tag of a Python value as the property statement names the types."""
    if isinstance(v, bool):
        return TAG_BOOL
    if isinstance(v, int):
        return TAG_INT
    if isinstance(v, decimal.Decimal):
        return TAG_DECIMAL
    if isinstance(v, float):
        return TAG_FLOAT
    if isinstance(v, datetime.datetime):
        return TAG_DATETIME
    if isinstance(v, datetime.date):
        return TAG_DATE
    if isinstance(v, datetime.time):
        return TAG_TIME
    if isinstance(v, str):
        return TAG_STR
    return SENTINEL


def class_tag(cls):
    """The tag of the values `cls.translate(text)` yields: the set of tags of
    the probes it accepts must be a single non-str tag, or str for all."""
    import suds.xsd.sxbase as sxbase
    fn = getattr(cls, "translate", None)
    if fn is None:
        return SENTINEL
    if fn is sxbase.SchemaObject.translate:
        return TAG_STR                      # inherited identity translation
    tags = set()
    for p in PROBES:
        try:
            v = fn(p)
        except Exception:
            continue
        if v is None:
            continue
        tags.add(pytag(v))
    if len(tags) == 1:
        return tags.pop()
    return SENTINEL


def table():
    common.force_repo_path()
    try:
        from suds.xsd.sxbuiltin import Factory
        from suds.xsd.sxbase import XBuiltin
        tags = dict(Factory.tags)
    except Exception:
        return [SENTINEL] * len(XSD_BUILTINS), []
    out = []
    for n in XSD_BUILTINS:
        try:
            out.append(class_tag(tags.get(n, XBuiltin)))
        except Exception:
            out.append(SENTINEL)
    extra = sorted(k for k in tags if k not in BUILTIN_INDEX)
    return out, extra


def code_strings():
    """String constants the reply path of the implementation compares against,
    read from the imported modules (never raises: a missing one becomes the
    sentinel string "?" so that the correspondence fails closed)."""
    out = {}

    def grab(name, fn):
        try:
            v = fn()
            out[name] = v if isinstance(v, str) else "?"
        except Exception:
            out[name] = "?"
    common.force_repo_path()
    grab("uri_env11", lambda: __import__("suds.bindings.binding", fromlist=["x"]).envns[1])
    grab("uri_env12", lambda: __import__("suds.bindings.binding", fromlist=["x"]).envns12[1])
    grab("uri_xsi", lambda: __import__("suds.sax", fromlist=["x"]).Namespace.xsins[1])
    grab("uri_xml", lambda: __import__("suds.sax.element", fromlist=["x"]).Element.specialprefixes["xml"])
    return out


SKIP_CANDIDATES = [
    "http://www.w3.org/XML/1998/namespace",
    "http://schemas.xmlsoap.org/soap/encoding/",
    "http://schemas.xmlsoap.org/soap/envelope/",
    "http://www.w3.org/2003/05/soap-envelope",
    "http://www.w3.org/2001/XMLSchema",
    "http://www.w3.org/2001/XMLSchema-instance",
    "http://www.w3.org/1999/XMLSchema-instance",
    "http://www.w3.org/2003/05/soap-encoding",
    "http://schemas.xmlsoap.org/wsdl/",
    "urn:fam:ns0",
    "",
]


def skipped_uris():
    """Which of the candidate attribute namespaces AttrList.skip filters out
    (probed on the real class with stand-in attributes)."""
    common.force_repo_path()
    out = []
    try:
        from suds.umx.attrlist import AttrList

        class A(object):
            def __init__(self, u):
                self.u = u

            def namespace(self):
                return ("p", self.u)
        al = AttrList([])
        for u in SKIP_CANDIDATES:
            try:
                if al.skip(A(u)):
                    out.append(u)
            except Exception:
                pass
    except Exception:
        pass
    return out


def reserved_words():
    common.force_repo_path()
    try:
        from suds.umx.core import reserved
        return sorted((str(k), str(v)) for k, v in reserved.items())
    except Exception:
        return [("?", "?")]


def gen():
    tags, extra = table()
    lines = [_hdr(NAME)]
    cs = code_strings()
    lines.append("(* string constants of the reply path, read from the imported code *)")
    for k in sorted(cs):
        lines.append("Definition %s : str := %s.  (* %s *)" % (k, common.cstr(cs[k]), cs[k]))
    lines.append("(* attribute namespaces AttrList.skip filters (probed among fixed candidates) *)")
    lines.append("Definition skip_uris : list str := [%s]." % "; ".join(common.cstr(u) for u in skipped_uris()))
    lines.append("Definition skip_candidates : list str := [%s]." % "; ".join(common.cstr(u) for u in SKIP_CANDIDATES))
    lines.append("(* suds.umx.core.reserved *)")
    lines.append("Definition reserved_words : list (str * str) := [%s]."
                 % "; ".join("(%s, %s)" % (common.cstr(a), common.cstr(b)) for a, b in reserved_words()))
    lines.append("(* names of the XSD built-ins, by position *)")
    lines.append("Definition builtin_names : list (str * N) := [%s]."
                 % "; ".join("(%s, %d%%N)" % (common.cstr(n), i) for i, n in enumerate(XSD_BUILTINS)))
    lines.append("")
    lines.append("(* Python type tags *)")
    for i, n in enumerate(TAG_NAMES):
        lines.append("Definition tag_%s : N := %d%%N." % (n.lower(), i))
    lines.append("")
    lines.append("(* positions of the XSD built-ins (fixed list of tools/tables_c02.py) *)")
    for i, n in enumerate(XSD_BUILTINS):
        lines.append("Definition b_%s : N := %d%%N." % (n, i))
    lines.append("Definition n_builtins : nat := %d%%nat." % len(XSD_BUILTINS))
    lines.append("")
    lines.append("(* tag of the value suds.xsd.sxbuiltin.Factory.tags[name].translate yields, per position;")
    lines.append("   99 = the class no longer behaves like a single-type translator *)")
    lines.append("Definition builtin_tags : list N := [%s]." % "; ".join("%d%%N" % t for t in tags))
    lines.append("(* names in Factory.tags outside the XSD list: %s *)" % (", ".join(extra) or "none"))
    return "\n".join(lines) + "\n"
