"""Tables for C15, obtained by CALLING /repo's suds (never by reading a copy).

* impl_alphabet / impl_auth_prefix: suds.transport.http.HttpAuthenticated.addcredentials is run on
  the 64 credentials ("a", chr(64+k)); "a:" + chr(64+k) is three bytes whose last sextet is k, so the
  last character of the header value is the implementation's character for sextet k and everything
  before the four base64 characters is the scheme prefix.
* impl_ct_name / impl_ct_value / impl_sa_name: the dictionary _SoapClient.__headers builds for an
  operation whose soapAction is a marker string and no caller headers.

The generator never raises: when the implementation no longer answers in the expected shape the
table is written with visibly wrong entries (empty lists), so that the proof step fails and the
correspondence step finds the concrete failing inputs.
"""
from harness import common
from tools.gen_tables import _hdr

NAME = "C15Tables"

MARK = "\x01C15-ACTION\x01"


def _cl(bs):
    return common.cbytes(bytes(bs)) if all(0 <= x < 256 for x in bs) else common.cstr("".join(map(chr, bs)))


def read_tables():
    common.force_repo_path()
    out = {"alphabet": [], "prefix": [], "ct_name": "", "ct_value": "", "sa_name": "", "problems": []}
    try:
        from suds.transport import Request
        from suds.transport.http import HttpAuthenticated
        alpha, prefixes = [], set()
        for k in range(64):
            t = HttpAuthenticated(username="a", password=chr(64 + k))
            r = Request("http://h.invalid/x", b"")
            t.addcredentials(r)
            v = r.headers["Authorization"]
            if not isinstance(v, str) or len(v) < 4:
                raise ValueError("unexpected Authorization value %r" % (v,))
            alpha.append(ord(v[-1]))
            prefixes.add(v[:-4])
        if len(prefixes) != 1:
            raise ValueError("scheme prefix varies: %r" % sorted(prefixes))
        out["alphabet"] = alpha
        out["prefix"] = [ord(c) for c in prefixes.pop()]
    except Exception as e:   # noqa
        out["problems"].append("addcredentials: %r" % (e,))
    try:
        import suds.client

        class _O(object):
            headers = {}

        class _S(object):
            action = MARK

        class _M(object):
            soap = _S()

        class _Stub(object):
            options = _O()
            method = _M()
        h = suds.client._SoapClient._SoapClient__headers(_Stub())
        items = list(h.items())
        mark = MARK.encode("utf-8")
        sa = [k for k, v in items if v in (mark, MARK)]
        ct = [(k, v) for k, v in items if v not in (mark, MARK)]
        if len(items) != 2 or len(sa) != 1 or len(ct) != 1 or not isinstance(ct[0][1], str):
            raise ValueError("unexpected header dictionary %r" % (items,))
        if [k for k, _ in items] != [ct[0][0], sa[0]]:
            raise ValueError("unexpected header order %r" % (items,))
        out["ct_name"], out["ct_value"], out["sa_name"] = ct[0][0], ct[0][1], sa[0]
        out["sa_bytes"] = isinstance(h[sa[0]], bytes)
    except Exception as e:   # noqa
        out["problems"].append("__headers: %r" % (e,))
    return out


def gen():
    t = read_tables()
    lines = [_hdr(NAME)]
    for p in t["problems"]:
        lines.append("(* PROBLEM: %s *)" % p.replace("*)", "* )").replace("(*", "( *"))
    lines.append("Definition impl_alphabet : list N := %s." % _cl(t["alphabet"]))
    lines.append("Definition impl_auth_prefix : list N := %s." % _cl(t["prefix"]))
    lines.append("Definition impl_ct_name : list N := %s." % common.cstr(t["ct_name"]))
    lines.append("Definition impl_ct_value : list N := %s." % common.cstr(t["ct_value"]))
    lines.append("Definition impl_sa_name : list N := %s." % common.cstr(t["sa_name"]))
    return "\n".join(lines) + "\n"
