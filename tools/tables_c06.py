"""Tables for C06, read from /repo's suds (fail-closed)."""
from harness import common
from tools.gen_tables import _hdr, cstr


def gen():
    common.force_repo_path()
    from suds.xsd import sxbuiltin
    from suds.sax import date as sdate
    out = [_hdr("C06Tables")]
    x2p = sxbuiltin.XBoolean._xml_to_python
    p2x = sxbuiltin.XBoolean._python_to_xml
    if not all(isinstance(k, str) and isinstance(v, bool) for k, v in x2p.items()):
        raise SystemExit("gen_tables: XBoolean._xml_to_python has an unexpected shape")
    out.append("Definition xml_to_bool_tbl : list (str * bool) := [%s]." % "; ".join(
        "(%s, %s)" % (cstr(k), common.cbool(v)) for k, v in x2p.items()))
    # python keys: True/1 and False/0 hash alike; record what the dict answers
    for b in (True, False):
        if not isinstance(p2x.get(b), str):
            raise SystemExit("gen_tables: XBoolean._python_to_xml[%r] is not a string" % b)
    out.append("Definition bool_to_xml_tbl : list (bool * str) := [(true, %s); (false, %s)]."
               % (cstr(p2x[True]), cstr(p2x[False])))
    # which translator class every builtin XSD name is mapped to
    kinds = []
    for name, cls in sorted(sxbuiltin.Factory.tags.items()):
        kinds.append("(%s, %s)" % (cstr(name), cstr(cls.__name__)))
    out.append("Definition builtin_tags : list (str * str) := [%s]." % ";\n  ".join(kinds))
    # regex pattern strings of suds.sax.date (the scanner model was written
    # against these; the harness compares them with the strings it knows)
    for nm in ("_PATTERN_DATE", "_PATTERN_TIME", "_PATTERN_DATETIME"):
        out.append("Definition %s : str := %s." % (nm.strip("_").lower(), cstr(getattr(sdate, nm))))
    for nm in ("_RE_DATE", "_RE_TIME", "_RE_DATETIME"):
        out.append("Definition %s_flags : Z := %s." % (nm.strip("_").lower(),
                                                        common.cZ(int(getattr(sdate, nm).flags))))
    return "\n".join(out) + "\n"




NAME = "C06Tables"
