"""Tables for C06, read from /repo's suds (fail-closed).

Besides the boolean dictionaries and the builtin tag table this translates the
three compiled regular expressions of suds.sax.date (_RE_DATE, _RE_TIME,
_RE_DATETIME: their .pattern and .flags, i.e. what the parsers really use) into
the Coq regex AST of coq/C06/Regex.v.  The translation walks CPython's own parse
tree of the pattern (re._parser) and accepts exactly the constructs listed in
`_tr_item`; anything else raises, and the framework then falls back to the
baseline table and reports that the theorems are not re-checked.
"""
import re

from harness import common
from tools.gen_tables import _hdr, cstr

try:                                    # Python >= 3.11
    import re._parser as _P
    import re._constants as _C
except ImportError:                     # pragma: no cover
    import sre_parse as _P
    import sre_constants as _C


class Untranslatable(Exception):
    pass


def _refuse(what):
    raise Untranslatable("gen_tables: suds.sax.date regex uses %s, which the C06 regex model "
                         "does not cover" % what)


_UNI_DECIMAL = []


def _unicode_decimal_ranges():
    """Code point ranges of str.isdecimal(): what \\d means for a str pattern
    compiled WITHOUT re.ASCII (sre's SRE_CATEGORY_UNI_DIGIT)."""
    if not _UNI_DECIMAL:
        import sys
        lo = None
        for c in range(sys.maxunicode + 2):
            d = c <= sys.maxunicode and chr(c).isdecimal()
            if d and lo is None:
                lo = c
            elif not d and lo is not None:
                _UNI_DECIMAL.append((lo, c - 1))
                lo = None
    return list(_UNI_DECIMAL)


def _cset(item, ascii_only):
    """A one-character item as a list of inclusive ranges, or None."""
    op, av = item
    if op is _C.LITERAL:
        return [(av, av)]
    if op is _C.IN:
        out = []
        for o, a in av:
            if o is _C.LITERAL:
                out.append((a, a))
            elif o is _C.RANGE:
                out.append((a[0], a[1]))
            elif o is _C.CATEGORY and a is _C.CATEGORY_DIGIT:
                out += [(48, 57)] if ascii_only else _unicode_decimal_ranges()
            else:
                _refuse("the character class member %s %s" % (o, a))
        return out
    return None


def _c_cset(rs):
    return "[%s]" % "; ".join("(%d%%N, %d%%N)" % r for r in rs)


def _c_nat(n):
    if not (isinstance(n, int) and 0 <= n < 5000):
        _refuse("the repetition bound %r" % (n,))
    return "%d%%nat" % n


def _tr_item(item, names, ascii_only):
    """One parse tree item -> list of Coq regex terms (a spliced sequence)."""
    op, av = item
    if op is _C.AT:
        if av is _C.AT_BEGINNING:
            return ["Bol"]
        if av is _C.AT_END:
            return ["Eol"]
        _refuse("the anchor %s" % av)
    if op is _C.LITERAL:
        return ["(Chr %d%%N)" % av]
    if op is _C.IN:
        return ["(Cls %s)" % _c_cset(_cset(item, ascii_only))]
    if op is _C.MAX_REPEAT:
        mn, mx, sub = av
        body = list(sub)
        cs = _cset(body[0], ascii_only) if len(body) == 1 else None
        if cs is not None:
            cmx = "None" if mx is _C.MAXREPEAT else "(Some %s)" % _c_nat(mx)
            return ["(Rep %s %s %s)" % (_c_nat(mn), cmx, _c_cset(cs))]
        if (mn, mx) == (0, 1):
            return ["(Opt %s)" % _tr_seq(body, names, ascii_only)]
        _refuse("the quantifier {%s,%s} applied to more than one character set" % (mn, mx))
    if op is _C.SUBPATTERN:
        group, add_flags, del_flags, sub = av
        if add_flags or del_flags:
            _refuse("inline flags")
        if group is None:                       # (?: .. ): spliced into the sequence
            out = []
            for it in sub:
                out += _tr_item(it, names, ascii_only)
            return out
        if group not in names:
            _refuse("an unnamed capturing group")
        return ["(Grp %s %s)" % (cstr(names[group]), _tr_seq(list(sub), names, ascii_only))]
    if op is _C.BRANCH:
        which, alts = av
        if which is not None or len(alts) < 2:
            _refuse("a branch of unexpected shape")
        terms = [_tr_seq(list(a), names, ascii_only) for a in alts]
        t = terms[-1]
        for x in reversed(terms[:-1]):
            t = "(Alt %s %s)" % (x, t)
        return [t]
    _refuse("the construct %s" % (op,))


def _tr_seq(items, names, ascii_only):
    terms = []
    for it in items:
        terms += _tr_item(it, names, ascii_only)
    if not terms:
        return "Eps"
    t = terms[-1]
    for x in reversed(terms[:-1]):
        t = "(Cat %s %s)" % (x, t)
    return t


def regex_to_coq(compiled):
    """Coq term of type `re` for a compiled pattern object (str pattern)."""
    pattern, flags = compiled.pattern, int(compiled.flags)
    if not isinstance(pattern, str):
        _refuse("a bytes pattern")
    if flags not in (int(re.ASCII), int(re.UNICODE)):
        _refuse("the flags %s" % (re.RegexFlag(flags),))
    tree = _P.parse(pattern, flags)
    if int(tree.state.flags) != flags:
        _refuse("inline global flags (%s)" % (re.RegexFlag(int(tree.state.flags)),))
    names = {idx: nm for nm, idx in tree.state.groupdict.items()}
    if dict(compiled.groupindex) != dict(tree.state.groupdict):
        _refuse("group names that differ between the compiled object and its pattern")
    term = _tr_seq(list(tree), names, flags == int(re.ASCII))
    # every group of the pattern must have made it into the term, once
    for nm in tree.state.groupdict:
        if term.count("(Grp %s " % cstr(nm)) != 1:
            _refuse("the group %r more or less than once" % nm)
    if tree.state.groups - 1 != len(tree.state.groupdict):
        _refuse("unnamed capturing groups")
    return term


def gen():
    common.force_repo_path()
    from suds.xsd import sxbuiltin
    from suds.sax import date as sdate
    out = [_hdr("C06Tables"), "From SV Require Import C06.Regex.\n"]
    x2p = sxbuiltin.XBoolean._xml_to_python
    p2x = sxbuiltin.XBoolean._python_to_xml
    if not all(isinstance(k, str) and isinstance(v, bool) for k, v in x2p.items()):
        raise SystemExit("gen_tables: XBoolean._xml_to_python has an unexpected shape")
    out.append("Definition xml_to_bool_tbl : list (str * bool) := [%s]." % "; ".join(
        "(%s, %s)" % (cstr(k), common.cbool(v)) for k, v in x2p.items()))
    # python keys: True/1 and False/0 hash alike; record what the dict answers
    for b in (True, False):
        if not isinstance(p2x.get(b), str):
            raise SystemExit("gen_tables: XBoolean._python_to_xml[%r] is not a string" % b)
    out.append("Definition bool_to_xml_tbl : list (bool * str) := [(true, %s); (false, %s)]."
               % (cstr(p2x[True]), cstr(p2x[False])))
    # which translator class every builtin XSD name is mapped to
    kinds = []
    for name, cls in sorted(sxbuiltin.Factory.tags.items()):
        kinds.append("(%s, %s)" % (cstr(name), cstr(cls.__name__)))
    out.append("Definition builtin_tags : list (str * str) := [%s]." % ";\n  ".join(kinds))
    # the regular expressions of suds.sax.date: pattern text, flags, and the
    # translated AST the scanner model is PROVED equal to (C06/RegexProofs.v)
    for nm in ("_RE_DATE", "_RE_TIME", "_RE_DATETIME"):
        rx = getattr(sdate, nm)
        if not isinstance(rx, re.Pattern):
            raise SystemExit("gen_tables: suds.sax.date.%s is not a compiled pattern" % nm)
        low = nm.strip("_").lower()                      # re_date ...
        out.append("Definition pattern_%s : str := %s." % (low[3:], cstr(rx.pattern)))
        out.append("Definition %s_flags : Z := %s." % (low, common.cZ(int(rx.flags))))
        out.append("Definition %s : re := %s." % (low, regex_to_coq(rx)))
    return "\n".join(out) + "\n"


NAME = "C06Tables"
