#!/usr/bin/env python3
"""Run checks against a behaviour-preserving rewrite of suds: none may raise an alarm.

usage: neutralcheck.py <dir with patch.diff meta.json> <name> Cxx [Cyy ...]
A scratch worktree of /repo's HEAD gets the patch; each check runs with SUDS_REPO pointing at it (one run per
property at a time machine-wide, via flock).  The outcome is stored under /verif/neutral/<name>/.
"""
import fcntl
import json
import os
import shutil
import subprocess
import sys
import time

VERIF = "/verif"


def sh(cmd):
    p = subprocess.run(cmd, shell=True, stdout=subprocess.PIPE, stderr=subprocess.STDOUT)
    return p.returncode, p.stdout.decode("utf-8", "replace")


def main():
    d, name, pids = os.path.abspath(sys.argv[1]), sys.argv[2], sys.argv[3:]
    wt = "/var/tmp/neutralwt-%s-%d" % (name, os.getpid())
    rc, out = sh("git -C /repo worktree add --detach %s HEAD" % wt)
    if rc != 0:
        print(out)
        return 2
    rec = {"checked_at": time.strftime("%Y-%m-%dT%H:%M:%SZ", time.gmtime()), "checks": {}}
    try:
        rc, out = sh("git -C %s apply %s" % (wt, os.path.join(d, "patch.diff")))
        if rc != 0:
            print("patch does not apply:\n" + out)
            return 2
        rct, outt = sh("cd %s && /venv/bin/python -m pytest -q -p no:cacheprovider -x 2>&1 | tail -1" % wt)
        rec["tests"] = outt.strip()
        for pid in pids:
            with open("/var/tmp/checklock_%s" % pid, "w") as lk:
                fcntl.flock(lk, fcntl.LOCK_EX)
                t0 = time.time()
                rc, out = sh("cd %s && SUDS_REPO=%s ./check %s" % (VERIF, wt, pid))
                lines = [l for l in out.splitlines() if l.startswith("VIOLATION") or l.startswith("  (")]
                rec["checks"][pid] = {"exit": rc, "wall_s": round(time.time() - t0, 1), "violation_lines": lines[:4]}
                sh("git -C %s checkout -- evidence/%s.json" % (VERIF, pid))
                sh("cd %s && PYTHONHASHSEED=0 PYTHONPATH=%s /venv/bin/python -B -c \"from tools import gen_tables as g; "
                   "[g.generate(m.NAME) for m in g._modules() if m.NAME.startswith('%s')]\"" % (VERIF, VERIF, pid))
    finally:
        sh("git -C /repo worktree remove --force %s" % wt)
    rec["alarms"] = sorted(p for p, r in rec["checks"].items() if r["exit"] != 0)
    dst = os.path.join(VERIF, "neutral", name)
    os.makedirs(dst, exist_ok=True)
    shutil.copy(os.path.join(d, "patch.diff"), os.path.join(dst, "patch.diff"))
    meta = {}
    try:
        meta = json.load(open(os.path.join(d, "meta.json")))
    except Exception:
        pass
    meta["verification"] = rec
    json.dump(meta, open(os.path.join(dst, "meta.json"), "w"), indent=1)
    print(name, "alarms:", rec["alarms"] or "none",
          " ".join("%s=%s" % (p, r["exit"]) for p, r in rec["checks"].items()))
    return 0


if __name__ == "__main__":
    sys.exit(main())
