#!/usr/bin/env python3
"""Print a markdown table of the seeded changes under /verif/seeded and whether the check detected each."""
import glob
import json
import os

VERIF = os.path.dirname(os.path.dirname(os.path.abspath(__file__)))
print("| seed | property | detected | wall s | summary |")
print("|---|---|---|---|---|")
for d in sorted(glob.glob(os.path.join(VERIF, "seeded", "C*"))):
    try:
        m = json.load(open(os.path.join(d, "meta.json")))
    except Exception:
        continue
    v = m.get("verification", {})
    print("| %s | %s | %s | %s | %s |" % (os.path.basename(d), m.get("property"), v.get("detected"),
                                         v.get("check_wall_s"), " ".join(m.get("summary", "").split())[:140]))
