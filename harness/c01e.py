"""C01E — test driver for the rpc/encoded part of C01 (harness/c01enc.py).
Exists only so that `./check C01E` runs that part on its own; the real entry
point is harness/c01.py."""
import os

from . import common, c01enc

THEOREMS = list(c01enc.THEOREMS_ENC)


def run(ck):
    common.force_repo_path()
    # the findings of the encoded path are registered under property C01
    known = common.load_known()
    ck.known = {f["key"]: f for f in known.get("findings", [])
                if f.get("property") == "C01" and f.get("status", "known") == "known"}
    ck.trusted = ["Coq 8.16.1 kernel + vm_compute; no axioms declared",
                  "expat (namespace mode) as the independent XML processor reading the request"]
    proof_ok = True if os.environ.get("C01E_SKIP_PROOF") else c01enc.prove_encoded(ck)
    c01enc.run_encoded(ck, proof_ok)
    if proof_ok is False:
        ck.unproved("proof obligation of C01 (rpc/encoded) no longer checks: " + ck.proof_log[-1500:],
                    {"log": ck.proof_log[-3000:]})


def replay(ck, payload):
    return c01enc.replay_encoded(ck, payload)
