"""C16 — Plugins run in order, once per stage, and later stages see their edits.

Proof: coq/C16/Props.v — over the model of suds/plugin.py (domain filtering by base
class, in-order dispatch, non-callables skipped, exceptions leave the loop), of the
five message-hook call sites in _SoapClient.send / process_reply with their exact data
flow and early exits, of DocumentReader.open/__fetch and of the init hook, the
specification (each reached stage once per participating plugin, registration order,
each stage consuming what the previous hooks left, hook exceptions reaching the caller)
holds for plugin lists of ANY length.

Tie to the code: real suds clients are built over in-memory WSDL/XSD documents with
generated plugin lists (InitPlugin / DocumentPlugin / MessagePlugin subclasses, every
subset of hooks overridden, permutations); every hook records what it is handed and
appends an order-revealing marker to it; a recording transport captures the request
bytes and answers with a canned reply class.  A raising hook raises an exception of a
generated CLASS (XCLS: Exception, a user subclass, ValueError, KeyError, AttributeError,
TypeError, OSError, suds.WebFault, suds.transport.TransportError and a subclass,
SAXParseException, a BaseException subclass); the caller must get that very object.  The
hook log, the bytes at the transport and the value/exception the caller gets are
compared, in Coq, with the model (c16_agrees) and with the specification (c16_spec_ok).
"""
import io
import itertools
import logging
import pickle
import re

from . import common

THEOREMS = [
    "dispatch_closed_form", "stage_once_in_order", "participant_is_of_matching_kind",
    "hook_log", "later_stages_see_edits", "stage_entry_view", "dataflow",
    "no_reply_hooks_without_reply", "no_unmarshalled_for_fault",
    "hook_exception_propagates", "exception_delivery", "exception_class_irrelevant",
    "raising_hook_reaches_caller", "no_spurious_hook_exception",
    "document_hooks", "document_hook_exception_propagates_partial", "construct_class_irrelevant",
    "model_meets_spec", "construct_meets_spec",
]

PRE = "From SV Require Import Lib.Base C16.Model."

SITES = ("SL", "SD", "SI", "SM", "SS", "SR", "SP", "SU")
LETTER = {"l": "SL", "d": "SD", "i": "SI", "m": "SM", "s": "SS", "r": "SR", "p": "SP", "u": "SU"}
SITE_LETTER = dict((v, k) for k, v in LETTER.items())
NAMES = ("initialized", "loaded", "parsed", "marshalled", "sending", "received", "unmarshalled")
KIND_NAMES = {"init": ("initialized",), "doc": ("loaded", "parsed"),
              "msg": ("marshalled", "sending", "received", "parsed", "unmarshalled")}
KINDS = ("init", "doc", "msg")

URLS = {"suds://main.wsdl": 1, "suds://a.xsd": 2, "suds://b.xsd": 3, "suds://c.wsdl": 4}
URL_OF = dict((v, k) for k, v in URLS.items())
# the documents the schema loader opens (xsd:import / xsd:include -> sxbasic.__download)
XSD_URLS = (2, 3)

# the classes of the exceptions raising hooks raise (coq/C16/Model.v: xcls)
XCLS = ("XPlain", "XSub", "XValue", "XLookup", "XAttr", "XType", "XOS",
        "XWebFault", "XTransport", "XTransportSub", "XSax", "XBase")
XCLS_TEXT = {"XPlain": "Exception", "XSub": "a subclass of Exception", "XValue": "ValueError",
             "XLookup": "KeyError", "XAttr": "AttributeError", "XType": "TypeError", "XOS": "OSError",
             "XWebFault": "suds.WebFault", "XTransport": "suds.transport.TransportError",
             "XTransportSub": "a subclass of suds.transport.TransportError",
             "XSax": "xml.sax.SAXParseException", "XBase": "a subclass of BaseException"}
# the httpcode a hook's TransportError carries
HOOK_CODES = (500, 200, 202, 404)

TOKEN = re.compile(r"([a-z])(\d+);")

# ---------------------------------------------------------------------------
# documents
# ---------------------------------------------------------------------------

MAIN_WSDL = """<wsdl:definitions targetNamespace="my-namespace"
xmlns:tns="my-namespace"
xmlns:soap="http://schemas.xmlsoap.org/wsdl/soap/"
xmlns:wsdl="http://schemas.xmlsoap.org/wsdl/"
xmlns:xsd="http://www.w3.org/2001/XMLSchema">
%(wimport)s
  <wsdl:types>
    <xsd:schema targetNamespace="my-namespace" elementFormDefault="qualified">
%(ximport)s
      <xsd:element name="Wrapper" type="xsd:string"/>
      <xsd:element name="Result" type="xsd:string"/>
    </xsd:schema>
  </wsdl:types>
  <wsdl:message name="fRequestMessage"><wsdl:part name="parameters" element="tns:Wrapper"/></wsdl:message>
  <wsdl:message name="fResponseMessage"><wsdl:part name="parameters" element="tns:Result"/></wsdl:message>
  <wsdl:portType name="dummyPortType">
    <wsdl:operation name="f">
      <wsdl:input message="tns:fRequestMessage"/>
      <wsdl:output message="tns:fResponseMessage"/>
    </wsdl:operation>
  </wsdl:portType>
  <wsdl:binding name="dummy" type="tns:dummyPortType">
    <soap:binding style="document" transport="http://schemas.xmlsoap.org/soap/http"/>
    <wsdl:operation name="f">
      <soap:operation soapAction="my-soap-action" style="document"/>
      <wsdl:input><soap:body use="literal"/></wsdl:input>
      <wsdl:output><soap:body use="literal"/></wsdl:output>
    </wsdl:operation>
  </wsdl:binding>
  <wsdl:service name="dummy">
    <wsdl:port name="dummy" binding="tns:dummy">
      <soap:address location="http://unused.invalid/svc"/>
    </wsdl:port>
  </wsdl:service>
</wsdl:definitions>
"""
XIMPORT = '      <xsd:import namespace="ns-a" schemaLocation="suds://a.xsd"/>'
WIMPORT = '  <wsdl:import namespace="ns-c" location="suds://c.wsdl"/>'
A_XSD = ('<xsd:schema xmlns:xsd="http://www.w3.org/2001/XMLSchema" targetNamespace="ns-a">\n'
         '%s<xsd:element name="ea" type="xsd:string"/></xsd:schema>')
A_INCLUDE = '<xsd:include schemaLocation="suds://b.xsd"/>\n'
B_XSD = ('<xsd:schema xmlns:xsd="http://www.w3.org/2001/XMLSchema" targetNamespace="ns-a">\n'
         '<xsd:element name="eb" type="xsd:string"/></xsd:schema>')
C_WSDL = ('<wsdl:definitions targetNamespace="ns-c" xmlns:wsdl="http://schemas.xmlsoap.org/wsdl/">\n'
          '<wsdl:message name="unused"/></wsdl:definitions>')


def world_docs(w):
    """w: 0 the WSDL alone; 1 + an imported schema; 2 + a schema it includes;
    3 an imported WSDL and an imported schema; 4 the schema a.xsd is in the store but not
    imported (an ImportDoctor plugin adds the import)"""
    docs = {"main.wsdl": (MAIN_WSDL % dict(wimport=WIMPORT if w == 3 else "",
                                           ximport=XIMPORT if w in (1, 2, 3) else "")).encode()}
    if w >= 1:
        docs["a.xsd"] = (A_XSD % (A_INCLUDE if w == 2 else "")).encode()
    if w == 2:
        docs["b.xsd"] = B_XSD.encode()
    if w == 3:
        docs["c.wsdl"] = C_WSDL.encode()
    return docs


WORLDS = (0, 1, 2, 3)

BODIES = {
    "BNormal": b'<env:Envelope xmlns:env="http://schemas.xmlsoap.org/soap/envelope/"><env:Body>'
               b'<Result xmlns="my-namespace">R</Result></env:Body></env:Envelope>',
    "BFault": b'<env:Envelope xmlns:env="http://schemas.xmlsoap.org/soap/envelope/"><env:Body><env:Fault>'
              b'<faultstring>F</faultstring><faultcode>env:Server</faultcode></env:Fault></env:Body></env:Envelope>',
    "BEmpty": b"",
    "BGarbage": b"this is not xml",
}
STATUSES = (200, 202, 204, 500, 404, 401)


class HookError(Exception):
    def __init__(self, site, idx):
        Exception.__init__(self, site, idx)
        self.site, self.idx = site, idx


class TransportCrash(Exception):
    pass


class HookAbort(BaseException):
    """What a hook raising XBase raises: no Exception, so `except Exception` lets it pass."""


_lazy = {}


def hook_transport_error_class():
    if "T" not in _lazy:
        import suds.transport

        class HookTransportError(suds.transport.TransportError):
            pass
        _lazy["T"] = HookTransportError
    return _lazy["T"]


def xcls_of(raises):
    """the class name a slot's `raises` entry stands for (True: slots recorded before the
    class became a dimension)"""
    if not raises:
        return None
    return "XSub" if raises is True else raises


def make_exc(cls, site, idx):
    """A fresh exception object of the class, as a hook of plugin idx at `site` raises it."""
    import suds
    import suds.sudsobject
    import suds.transport
    import xml.sax
    import xml.sax.xmlreader
    tag = "c16 hook %s %d" % (site, idx)
    code = HOOK_CODES[(idx + SITES.index(site)) % len(HOOK_CODES)]
    if cls == "XPlain":
        return Exception(tag)
    if cls == "XSub":
        return HookError(site, idx)
    if cls == "XValue":
        return ValueError(tag)
    if cls == "XLookup":
        return KeyError(tag)
    if cls == "XAttr":
        return AttributeError(tag)
    if cls == "XType":
        return TypeError(tag)
    if cls == "XOS":
        return OSError(5, tag)
    if cls == "XWebFault":
        fault = suds.sudsobject.Object()
        fault.faultstring = tag
        return suds.WebFault(fault, None)
    if cls == "XTransport":
        return suds.transport.TransportError(tag, code)
    if cls == "XTransportSub":
        return hook_transport_error_class()(tag, code, io.BytesIO(BODIES["BNormal"]) if idx % 2 else None)
    if cls == "XSax":
        return xml.sax.SAXParseException(tag, None, xml.sax.xmlreader.Locator())
    if cls == "XBase":
        return HookAbort(tag)
    raise AssertionError(cls)


# ---------------------------------------------------------------------------
# plugins that record and edit
# ---------------------------------------------------------------------------

def tokens(x):
    """The markers found, in textual order, in a datum: [(site, index)]; unknown letters
    map to a site nothing expects."""
    if isinstance(x, bytes):
        x = x.decode("utf-8", "replace")
    return [(LETTER.get(a, "SI"), int(b)) for a, b in TOKEN.findall(str(x))]


class Recorder(object):
    def __init__(self):
        self.log = []
        self.raised = []          # (exception object, site, plugin, class) of every raise

    def raise_from(self, cls, site, idx):
        e = make_exc(cls, site, idx)
        self.raised.append((e, site, idx, cls))
        raise e

    def find(self, e):
        """(site, plugin, class) when e is the very object a hook raised"""
        for x, site, idx, cls in self.raised:
            if x is e:
                return (site, idx, cls)
        return None

    def add(self, site, idx, url, view, ctx):
        try:
            seen = ctx.__dict__.setdefault("c16seen", [])
            was = list(seen)
            seen.append(idx)
        except Exception:
            was = [998]
        u = URLS.get(str(url), 99) if url is not None else 0
        self.log.append((site, idx, u, view, was))


def attr_text(root):
    return " ".join(str(a.value) for a in root.attributes)


def leaf_of(doc):
    n = doc.root()
    while n.children:
        n = n.children[0]
    return n


def make_hook(name, idx, edits, raises, rec):
    """The overriding function for hook `name` of plugin number idx."""
    from suds.sax.element import Element

    def done(site):
        if raises:
            rec.raise_from(xcls_of(raises), site, idx)
        return edits

    def initialized(self, ctx):
        rec.add("SI", idx, None, tokens(attr_text(ctx.wsdl.root)), ctx)
        done("SI")

    def loaded(self, ctx):
        rec.add("SL", idx, ctx.url, tokens(ctx.document), ctx)
        if done("SL"):
            ctx.document = ctx.document.replace(b">", b' c16l%d="l%d;">' % (idx, idx), 1)

    def parsed(self, ctx):
        if hasattr(ctx, "document"):
            rec.add("SD", idx, ctx.url, tokens(attr_text(ctx.document)), ctx)
            if done("SD"):
                ctx.document.set("c16d%d" % idx, "d%d;" % idx)
        else:
            r = ctx.reply
            rec.add("SP", idx, None, None if r is None else tokens(r.plain()), ctx)
            if done("SP") and r is not None:
                n = leaf_of(r)
                n.setText((n.getText() or "") + "p%d;" % idx)

    def marshalled(self, ctx):
        rec.add("SM", idx, None, tokens(ctx.envelope.plain()), ctx)
        if done("SM"):
            ctx.envelope.append(Element("mk").setText("m%d;" % idx))

    def sending(self, ctx):
        rec.add("SS", idx, None, tokens(ctx.envelope), ctx)
        if done("SS"):
            ctx.envelope = ctx.envelope + b"<!--s%d;-->" % idx

    def received(self, ctx):
        rec.add("SR", idx, None, tokens(ctx.reply), ctx)
        if done("SR") and ctx.reply:
            ctx.reply = ctx.reply.replace(b"</", b"r%d;</" % idx, 1)

    def unmarshalled(self, ctx):
        r = ctx.reply
        rec.add("SU", idx, None, None if r is None else tokens(r), ctx)
        if done("SU"):
            ctx.reply = ("" if r is None else str(r)) + "u%d;" % idx
    return locals()[name]


DOCTOR = ((False, True, False), ("I", "I", ("fn", False, False), "I", "I", "I", "I"), "doctor")


def make_doctor(idx, rec):
    """suds' own ImportDoctor (a DocumentPlugin whose parsed hook inserts an xsd:import of
    a.xsd into every schema), logging like the generated plugins do."""
    from suds.xsd.doctor import ImportDoctor, Import

    class LoggingDoctor(ImportDoctor):
        def parsed(self, ctx):
            if hasattr(ctx, "url"):
                rec.add("SD", idx, ctx.url, tokens(attr_text(ctx.document)), ctx)
            ImportDoctor.parsed(self, ctx)
    return LoggingDoctor(Import("ns-a", "suds://a.xsd"))


def make_plugin(idx, spec, rec):
    """spec = (kinds, slots): kinds a tuple of 3 booleans (init, doc, msg), slots a tuple of
    7 entries ordered as NAMES, each 'I' | 'N' | 'F' | ('fn', edits, raises) with raises
    False or the class (XCLS) of the exception the hook raises."""
    import suds.plugin
    if len(spec) == 3 and spec[2] == "doctor":
        return make_doctor(idx, rec)
    kinds, slots = spec[:2]
    classes = (suds.plugin.InitPlugin, suds.plugin.DocumentPlugin, suds.plugin.MessagePlugin)
    bases = tuple(c for k, c in zip(kinds, classes) if k)
    if not bases:
        bases = (suds.plugin.Plugin,) if idx % 2 else (object,)
    body = {}
    for name, sl in zip(NAMES, slots):
        if sl == "I":
            continue
        if sl == "N":
            body[name] = None if idx % 2 else 7
        elif sl == "F":
            class Falsy(object):
                def __init__(self, name):
                    self.name = name

                def __bool__(self):
                    return False

                def __call__(self, ctx):
                    rec.log.append(("SI", 997, 0, [], []))      # never expected
            body[name] = Falsy(name)
        else:
            body[name] = make_hook(name, idx, sl[1], sl[2], rec)
    return type("P%d" % idx, bases, body)()


# ---------------------------------------------------------------------------
# recording cache / store / transport
# ---------------------------------------------------------------------------

def mangle(url):
    from hashlib import md5
    return md5(url.encode()).hexdigest() + "-document"


class Events(object):
    def __init__(self):
        self.ev = []


def make_cache(events, caching, blobs):
    import suds.cache

    class RecCache(suds.cache.Cache):
        def __init__(self):
            self.d = dict(blobs)

        def get(self, id):
            events.ev.append(("get", id))
            v = self.d.get(id) if caching else None
            return None if v is None else pickle.loads(v)

        def put(self, id, obj):
            if caching:
                self.d[id] = pickle.dumps(obj)

        def purge(self, id):
            self.d.pop(id, None)

        def clear(self):
            self.d.clear()
    return RecCache()


def make_store(events, docs):
    import suds.store

    class RecStore(suds.store.DocumentStore):
        def open(self, url):
            events.ev.append(("fetch", str(url)))
            return suds.store.DocumentStore.open(self, url)
    return RecStore(docs)


def make_transport(via, crash, status, body):
    import suds.transport

    class RecTransport(suds.transport.Transport):
        def __init__(self):
            suds.transport.Transport.__init__(self)
            self.sent = []

        def open(self, request):
            raise TransportCrash("open " + str(request.url))

        def send(self, request):
            self.sent.append(request.message)
            if crash:
                raise TransportCrash("connection lost")
            if status == 200:
                return suds.transport.Reply(200, {}, body)
            raise suds.transport.TransportError("status %d" % status, status, io.BytesIO(body))
    return RecTransport()


_blob_cache = {}


def world_blobs(w):
    """The pickled documents a client WITHOUT plugins leaves in the cache."""
    if w not in _blob_cache:
        import suds.client
        ev = Events()
        cache = make_cache(ev, True, {})
        suds.client.Client("suds://main.wsdl", documentStore=make_store(ev, world_docs(w)), cache=cache)
        _blob_cache[w] = dict(cache.d)
    return _blob_cache[w]


_baseline = {}


def baseline_request():
    """Canonical infoset of the request without any plugin."""
    if "x" not in _baseline:
        import suds.client
        from . import sudsutil
        ev = Events()
        c = suds.client.Client("suds://main.wsdl", documentStore=make_store(ev, world_docs(0)),
                               cache=make_cache(ev, False, {}), nosend=True)
        _baseline["x"] = sudsutil.expat_parse(c.service.f("x").envelope).canon()
    return _baseline["x"]


def request_markers(data):
    """Markers of a request: the mk children of the envelope (expat infoset), then the
    comments; anything else unexpected yields a marker nothing expects."""
    from . import sudsutil
    bogus = [("SI", 996)]
    if not isinstance(data, bytes):
        return bogus
    try:
        root = sudsutil.expat_parse(data)
    except Exception:
        return bogus
    ms = []
    keep = []
    for ch in root.children:
        if isinstance(ch, sudsutil.Node) and ch.name == "mk" and ch.ns is None:
            ms += tokens(ch.own_text())
        else:
            keep.append(ch)
    root.children = keep
    if root.canon() != baseline_request():
        return bogus
    stripped = re.sub(rb"<!--[a-z]\d+;-->", b"", data)
    if b"<!--" in stripped:
        return bogus
    for m in re.findall(rb"<!--([a-z]\d+;)-->", data):
        ms += tokens(m)
    return ms


# ---------------------------------------------------------------------------
# one case
# ---------------------------------------------------------------------------

def value_datum(v):
    """None | str 'R?' + markers -> datum; anything else -> 'other'"""
    if v is None:
        return None
    s = str(v)
    if not re.fullmatch(r"[RF]?(?:[a-z]\d+;)*", s):
        return "other"
    return tokens(s)


def canon_result(fn, body, status, rec):
    """Run fn() and canonicalise what the caller gets -> (constructor, payload).  An
    exception counts as a hook's only when it is the very object the hook raised."""
    import suds
    import suds.client
    import xml.sax
    desc = "status %d" % status
    try:
        r = fn()
    except BaseException as e:
        if not isinstance(e, (Exception, HookAbort)):
            raise
        hit = rec.find(e)
        if hit is not None:
            return ("RHookExc", hit), None
        if isinstance(e, TransportCrash):
            return ("RTransportExc",), None
        if isinstance(e, suds.WebFault):
            try:
                d = value_datum(e.fault.faultstring)
            except Exception:
                d = "other"
            return (("RFault", d) if isinstance(d, list) else ("ROther",)), None
        if isinstance(e, xml.sax.SAXParseException):
            return ("RParseExc",), None
        a = e.args
        if type(e) is Exception and len(a) == 1 and isinstance(a[0], tuple) and len(a[0]) == 2 \
                and a[0][0] == status and a[0][1] == desc:
            return ("RStatusExc", status), None
        return ("ROther", repr(e)[:200]), None
    if isinstance(r, tuple) and len(r) == 2 and r[0] == 500 and rec.find(r[1]) is not None:
        return ("RHookRet", rec.find(r[1])), None
    if isinstance(r, suds.client.RequestContext):
        return ("RRequest", request_markers(r.envelope)), r
    if r is None:
        return ("RValue", None), None
    if isinstance(r, bytes):
        if re.sub(rb"[a-z]\d+;", b"", r) != body:
            return ("ROther", "bytes"), None
        return ("RBytes", tokens(r)), None
    if isinstance(r, tuple) and len(r) == 2:
        if r[0] == 200 and (r[1] is None or isinstance(r[1], str)):
            d = value_datum(r[1])
            return (("ROk", d) if d != "other" else ("ROther", "value")), None
        if r[0] == 500 and hasattr(r[1], "faultstring"):
            d = value_datum(r[1].faultstring)
            return (("RFaultT", d) if isinstance(d, list) else ("ROther", "fault")), None
        if r[0] == status and r[1] == desc:
            return ("RStatusT", status), None
        return ("ROther", "tuple"), None
    if isinstance(r, str):
        d = value_datum(r)
        return (("RValue", d) if d != "other" else ("ROther", "value")), None
    return ("ROther", type(r).__name__), None


def run_case(case):
    """case: dict(plugins, world, caching, pre, inv) with inv = None or
    dict(via, process, retxml, faults, crash, status, body, explicit200).
    Returns the observations: dict(opens, clog, cres, iobs)."""
    import suds.client
    rec = Recorder()
    ev = Events()
    plugins = [make_plugin(i, sp, rec) for i, sp in enumerate(case["plugins"])]
    w = case["world"]
    blobs = {}
    if case["pre"]:
        blobs = dict(world_blobs(1) if w == 4 else {})      # a.xsd is the same document in both
        blobs.update(world_blobs(w))
    pre_blobs = dict((mangle(URL_OF[u]), blobs[mangle(URL_OF[u])]) for u in case["pre"])
    cache = make_cache(ev, case["caching"], pre_blobs)
    store = make_store(ev, world_docs(w))
    inv = case["inv"] or dict(via="Direct", process=False, retxml=False, faults=True, crash=False,
                              status=200, body="BNormal", explicit200=False)
    body = BODIES[inv["body"]]
    transport = make_transport(inv["via"], inv["crash"], inv["status"], body)
    client = None
    try:
        client = suds.client.Client("suds://main.wsdl", documentStore=store, cache=cache,
                                    transport=transport, plugins=plugins,
                                    nosend=(inv["via"] == "NoSend"), retxml=inv["retxml"],
                                    faults=inv["faults"])
        cres = ("COk",)
    except BaseException as e:
        if not isinstance(e, (Exception, HookAbort)):
            raise
        hit = rec.find(e)
        inner = rec.find(e.__context__) if e.__context__ is not None else None
        if hit is not None:
            cres = ("CHookExc",) + hit
        elif type(e) is Exception and inner is not None and re.fullmatch(
                r"(import schema \(.*\) at \(.*\)|include schema at \(.*\)), failed", str(e)):
            # sxbasic.Import/Include.__download answering a TransportError
            cres = ("CWrapped",) + inner
        else:
            cres = ("COther", repr(e)[:200])
    # DocumentReader.open calls and fetches, from the cache's and the store's own records
    ids = dict((mangle(u), n) for u, n in URLS.items())
    opens = []
    for kind, x in ev.ev:
        if kind == "get":
            if x.endswith("-document"):
                opens.append([ids.get(x, 99), False])
        elif opens and URLS.get(x, 98) == opens[-1][0] and not opens[-1][1]:
            opens[-1][1] = True
        else:
            opens.append([97, True])          # a fetch without an open: nothing expects it
    obs = {"opens": [tuple(o) for o in opens], "clog": list(rec.log), "cres": cres, "iobs": None}
    if client is None or case["inv"] is None:
        return obs
    del rec.log[:]
    res, rc = canon_result(lambda: client.service.f("x"), body, inv["status"], rec)
    res2 = ("RNotRun",)
    if rc is not None and inv["via"] == "NoSend" and inv["process"]:
        st = inv["status"]
        if st == 200 and not inv["explicit200"]:
            st = None
        res2, _ = canon_result(lambda: rc.process_reply(body, st, "status %d" % inv["status"]),
                               body, inv["status"], rec)
    obs["iobs"] = {"log": list(rec.log), "sent": [request_markers(m) for m in transport.sent],
                   "res": res, "res2": res2, "raises": len(rec.raised)}
    return obs


# ---------------------------------------------------------------------------
# Coq printing
# ---------------------------------------------------------------------------

def c_markers(ms):
    return "[" + ";".join("(%s,%d)" % (s, i) for s, i in ms) + "]"


def c_datum(d):
    return "None" if d is None else "(Some %s)" % c_markers(d)


def c_entry(e):
    site, idx, url, view, seen = e
    return "EN %s %d %d %s [%s]" % (site, idx, url, c_datum(view), ";".join(str(x) for x in seen))


def c_log(log):
    return "[" + "; ".join(c_entry(e) for e in log) + "]"


def c_slot(sl):
    if sl == "I":
        return "Inherit"
    if sl == "N":
        return "NonCallable"
    if sl == "F":
        return "FalsyCallable"
    x = xcls_of(sl[2])
    return "(Fn %s %s)" % (common.cbool(sl[1]), "None" if x is None else "(Some %s)" % x)


def c_plugin(sp):
    kinds, slots = sp[:2]
    return "Plug %s %s" % (" ".join(common.cbool(k) for k in kinds), " ".join(c_slot(s) for s in slots))


def c_result(r):
    k = r[0]
    if k in ("RRequest", "RBytes", "RFault", "RFaultT"):
        return "(%s (mN %s))" % (k, c_markers(r[1]))
    if k in ("RValue", "ROk"):
        return "(%s (dN %s))" % (k, c_datum(r[1]))
    if k in ("RStatusExc", "RStatusT"):
        return "(%s %d)" % (k, r[1])
    if k in ("RHookExc", "RHookRet"):
        return "(%sN %s %d %s)" % (k, r[1][0], r[1][1], r[1][2])
    return k


def c_inv(inv):
    via = "Direct" if inv["via"] == "Direct" else "(NoSend %s)" % common.cbool(inv["process"])
    return "(Inv %s %s %s %s %d %s)" % (via, common.cbool(inv["retxml"]), common.cbool(inv["faults"]),
                                       common.cbool(inv["crash"]), inv["status"], inv["body"])


def c_case(case, obs):
    cres = obs["cres"]
    cr = "COk" if cres[0] == "COk" else "COther" if cres[0] == "COther" else \
        "(%sN %s %d %s)" % (cres[0], cres[1], cres[2], cres[3])
    if obs["iobs"] is None:
        iv = "None"
    else:
        o = obs["iobs"]
        iv = "(Some (%s, IObs %s [%s] %s %s))" % (
            c_inv(case["inv"]), c_log(o["log"]), ";".join("mN " + c_markers(m) for m in o["sent"]),
            c_result(o["res"]), c_result(o["res2"]))
    return "(CCase [%s] %s [%s] [%s] [%s] %s %s %s)%%N" % (
        "; ".join(c_plugin(p) for p in case["plugins"]), common.cbool(case["caching"]),
        ";".join(str(u) for u in case["pre"]), ";".join(str(u) for u in XSD_URLS),
        ";".join("(%d,%s)" % (u, common.cbool(f)) for u, f in obs["opens"]),
        c_log(obs["clog"]), cr, iv)


# ---------------------------------------------------------------------------
# generators
# ---------------------------------------------------------------------------

FN = ("fn", True, False)


def slots_for(over):
    """over: dict name -> slot; everything else inherited"""
    return tuple(over.get(n, "I") for n in NAMES)


def kinds_of(*ks):
    return tuple(k in ks for k in KINDS)


def full_plugin(*ks):
    names = set(n for k in ks for n in KIND_NAMES[k])
    return (kinds_of(*ks), slots_for(dict((n, FN) for n in names)))


def subset_plugins(kind):
    """every subset of the hooks of one kind overridden"""
    names = KIND_NAMES[kind]
    out = []
    for r in range(len(names) + 1):
        for sub in itertools.combinations(names, r):
            out.append((kinds_of(kind), slots_for(dict((n, FN) for n in sub))))
    return out


def random_plugin(rng, wild):
    r = rng.random()
    if r < 0.72 or not wild:
        ks = (rng.choice(KINDS),)
    elif r < 0.90:
        ks = tuple(rng.sample(KINDS, 2))
    elif r < 0.95:
        ks = KINDS
    else:
        ks = ()
    over = {}
    own = set(n for k in ks for n in KIND_NAMES[k])
    for n in NAMES:
        # hooks of the plugin's own kind: every subset equally likely; hooks of other
        # kinds are defined now and then (they must never run)
        p = 0.5 if n in own else (0.25 if wild else 0.0)
        if rng.random() < p:
            q = rng.random()
            if not wild or q < 0.70:
                over[n] = FN
            elif q < 0.80:
                over[n] = ("fn", False, False)
            elif q < 0.90:
                over[n] = "N"
            else:
                over[n] = ("fn", rng.random() < 0.5, rng.choice(XCLS))
    return (kinds_of(*ks), slots_for(over))


def all_invs():
    out = []
    for status in STATUSES:
        for body in BODIES:
            for retxml in (False, True):
                for faults in (True, False):
                    for via, process in (("Direct", False), ("NoSend", True)):
                        out.append(dict(via=via, process=process, retxml=retxml, faults=faults, crash=False,
                                        status=status, body=body, explicit200=(faults and status == 200)))
    for retxml in (False, True):
        for faults in (True, False):
            out.append(dict(via="NoSend", process=False, retxml=retxml, faults=faults, crash=False,
                            status=200, body="BNormal", explicit200=False))
            out.append(dict(via="Direct", process=False, retxml=retxml, faults=faults, crash=True,
                            status=200, body="BNormal", explicit200=False))
    return out


def random_inv(rng):
    r = rng.random()
    if r < 0.55:
        status, body = rng.choice([(200, "BNormal"), (200, "BNormal"), (200, "BFault"), (500, "BFault"),
                                   (200, "BEmpty"), (202, "BEmpty"), (204, "BEmpty"), (404, "BGarbage"),
                                   (401, "BEmpty"), (500, "BEmpty")])
    else:
        status, body = rng.choice(STATUSES), rng.choice(sorted(BODIES))
    via = rng.choice(["Direct", "Direct", "Direct", "NoSend", "NoSend"])
    return dict(via=via, process=(via == "NoSend" and rng.random() < 0.7), retxml=rng.random() < 0.3,
                faults=rng.random() < 0.6, crash=(via == "Direct" and rng.random() < 0.06),
                status=status, body=body, explicit200=rng.random() < 0.5)


def random_docs(rng):
    w = rng.choice(WORLDS)
    urls = [URLS["suds://" + n] for n in sorted(world_docs(w))]
    r = rng.random()
    if r < 0.45:
        return w, False, ()
    if r < 0.6:
        return w, True, ()
    pre = tuple(sorted(u for u in urls if rng.random() < 0.6))
    return w, True, pre


def mkcase(plugins, world=0, caching=False, pre=(), inv=None, group=""):
    return dict(plugins=tuple(plugins), world=world, caching=caching, pre=tuple(pre), inv=inv, group=group)


def generate(ck):
    rng = ck.rng
    thorough = ck.tier == "thorough"
    cases = []
    invs = all_invs()

    # (1) one plugin, every subset of the hooks of its kind overridden
    for kind in KINDS:
        for sp in subset_plugins(kind):
            if kind == "msg":
                chosen = invs if thorough else rng.sample(invs, 12)
                for inv in chosen:
                    cases.append(mkcase([sp], inv=inv, group="subsets-message"))
            else:
                for w in WORLDS:
                    for caching, pre in ((False, ()), (True, ()), (True, (1,)), (True, (1, 2))):
                        if any(URL_OF[u][7:] not in world_docs(w) for u in pre):
                            continue
                        cases.append(mkcase([sp], world=w, caching=caching, pre=pre,
                                            inv=rng.choice(invs), group="subsets-" + kind))

    # (2) every invocation setting x reply class, with two full message plugins between
    #     plugins of the other kinds
    sweep = [full_plugin("doc"), full_plugin("msg"), full_plugin("init"), full_plugin("msg")]
    for inv in invs:
        cases.append(mkcase(sweep, world=1, inv=inv, group="settings-sweep"))

    # (3) one hook raises: every (plugin, hook) position of three plugins of all kinds x every
    #     exception class x every delivery path (the service call sending for real; nosend
    #     followed by RequestContext.process_reply)
    trio = [full_plugin("init", "doc", "msg")] * 3
    raise_invs = [i for i in invs if (i["status"], i["body"]) in ((200, "BNormal"), (500, "BFault"), (200, "BEmpty"))
                  and not i["retxml"]]
    by_via = dict((via, [i for i in raise_invs if i["via"] == via]) for via in ("Direct", "NoSend"))

    def with_raise(ps, pi, name, cls, edits=True):
        ps = list(ps)
        kinds, slots = ps[pi]
        sl = list(slots)
        sl[NAMES.index(name)] = ("fn", edits, cls)
        ps[pi] = (kinds, tuple(sl))
        return ps
    for pi in range(3):
        for name in NAMES:
            for cls in XCLS:
                ps = with_raise(trio, pi, name, cls)
                for via in ("Direct", "NoSend"):
                    chosen = by_via[via] if thorough else [rng.choice(by_via[via])]
                    for inv in chosen:
                        cases.append(mkcase(ps, world=2, caching=True, pre=(2,), inv=inv, group="one-hook-raises"))

    # (3a) a reply-side hook raises, every class x every way a real send can be answered
    #      (a Reply, a TransportError of the transport with each status and body) and the same
    #      replies handed to RequestContext.process_reply
    direct = [i for i in invs if i["via"] == "Direct" and not i["crash"]]
    handed = [i for i in invs if i["via"] == "NoSend" and i["process"]]
    duo = [full_plugin("msg"), full_plugin("msg"), full_plugin("msg")]
    for name in ("received", "parsed", "unmarshalled"):
        for cls in XCLS:
            ps = with_raise(duo, 1, name, cls, edits=False)
            chosen = direct + handed if thorough else rng.sample(direct, 4) + rng.sample(handed, 2)
            for inv in chosen:
                cases.append(mkcase(ps, inv=inv, group="reply-hook-raises"))

    # (3c) a document hook raises while the schema loader / the WSDL loader opens an imported
    #      or included document (the WSDL itself comes from the cache), every class
    for cls in XCLS:
        for w, pre in ((1, (1,)), (2, (1,)), (2, (1, 2)), (3, (1,)), (3, (1, 2))):
            ps = with_raise([full_plugin("doc"), full_plugin("doc")], rng.choice((0, 1)), "loaded", cls)
            cases.append(mkcase(ps, world=w, caching=True, pre=pre, inv=rng.choice(invs),
                                group="import-hook-raises"))
        for name in ("parsed", "initialized"):
            ps = with_raise([full_plugin("doc", "init"), full_plugin("doc", "init")], rng.choice((0, 1)), name, cls)
            cases.append(mkcase(ps, world=rng.choice((1, 2, 3)), caching=rng.random() < 0.5,
                                inv=rng.choice(invs), group="import-hook-raises"))

    # (3b) suds' own ImportDoctor among the plugins: its parsed hook makes the loader open
    #      a.xsd, whose hooks then fire like any other document's
    for base in ([DOCTOR], [full_plugin("doc"), DOCTOR], [full_plugin("doc"), DOCTOR, full_plugin("doc")],
                 [full_plugin("msg"), DOCTOR, full_plugin("init")]):
        seen = set()
        for perm in itertools.permutations(base):
            if perm in seen:
                continue
            seen.add(perm)
            for w, caching, pre in ((4, False, ()), (4, True, (1,)), (4, True, (2,)), (1, False, ())):
                cases.append(mkcase(perm, world=w, caching=caching, pre=pre, inv=rng.choice(invs),
                                    group="import-doctor"))

    # (4) permutations: multisets of plugins, every order, same settings
    maxlen = 4 if thorough else 3
    nmulti = 160 if thorough else 100
    for _ in range(nmulti):
        n = rng.choice([2, 3, 3] if not thorough else [2, 3, 4, 4])
        base = [random_plugin(rng, wild=rng.random() < 0.35) for _ in range(n)]
        # different plugins, else permutations coincide
        inv = random_inv(rng)
        w, caching, pre = random_docs(rng)
        seen = set()
        for perm in itertools.permutations(range(n)):
            ps = tuple(base[i] for i in perm)
            if ps in seen:
                continue
            seen.add(ps)
            cases.append(mkcase(ps, world=w, caching=caching, pre=pre, inv=inv, group="permutations"))

    # (5) random lists
    nrand = 6000 if thorough else 2500
    for _ in range(nrand):
        n = rng.choice([0, 1, 2, 2, 3, 3, 3] + ([4, 4, 4] if thorough else []))
        ps = [random_plugin(rng, wild=rng.random() < 0.5) for _ in range(n)]
        w, caching, pre = random_docs(rng)
        cases.append(mkcase(ps, world=w, caching=caching, pre=pre, inv=random_inv(rng), group="random"))

    # (6) thorough: every list of <= 2 single-kind plugins over every subset of hooks
    if thorough:
        singles = [sp for k in KINDS for sp in subset_plugins(k)]
        for a in singles:
            for b in singles:
                cases.append(mkcase([a, b], world=rng.choice(WORLDS), inv=random_inv(rng), group="pairs-exhaustive"))
    return cases, maxlen


# ---------------------------------------------------------------------------
# the check
# ---------------------------------------------------------------------------

DIAG = {
    1: ("C16:document-or-init-hook-calls", "a document/init hook does not run exactly once per fetched/opened "
        "document and participating plugin, in registration order, with the document's URL"),
    2: ("C16:document-hook-sees-other-data", "a document/init hook is not handed what the earlier hooks left"),
    3: ("C16:construction-outcome", "Client() does not end the way the hooks dictate (an exception raised by a "
        "document/init hook must reach the caller, nothing else may be raised)"),
    4: ("C16:message-hook-calls", "the message hooks do not run in the order marshalled, sending, received, "
        "parsed, unmarshalled, once per participating plugin in registration order, as far as the invocation gets"),
    5: ("C16:message-hook-sees-other-data", "a message hook is not handed what the previous hooks left"),
    6: ("C16:transport-gets-other-bytes", "the bytes handed to the transport are not the bytes the sending hooks "
        "returned for the tree the marshalled hooks edited"),
    7: ("C16:caller-gets-other-result", "the caller does not get the value the unmarshalled hooks set / the fault "
        "decoded from the tree the parsed hooks edited / the very exception object a hook raised"),
}


def describe_plugin(sp):
    if len(sp) == 3:
        return "suds.xsd.doctor.ImportDoctor (document plugin, parsed inserts an import of a.xsd)"
    kinds, slots = sp[:2]
    ks = [k for k, f in zip(KINDS, kinds) if f] or ["plain object"]
    ov = []
    for n, s in zip(NAMES, slots):
        if s == "I":
            continue
        if s == "N":
            ov.append(n + "=<not callable>")
        elif s == "F":
            ov.append(n + "=<callable, falsy>")
        else:
            ov.append(n + ("" if s[1] else "(looks only)") +
                      ("(raises %s)" % XCLS_TEXT.get(xcls_of(s[2]), s[2]) if s[2] else ""))
    return "%s plugin overriding {%s}" % ("+".join(ks), ", ".join(ov))


def payload_of(case, obs):
    return {"case": {"plugins": [[list(sp[0]), [list(s) if isinstance(s, tuple) else s for s in sp[1]]] + list(sp[2:])
                                 for sp in case["plugins"]],
                     "world": case["world"], "caching": case["caching"], "pre": list(case["pre"]),
                     "inv": case["inv"], "group": case["group"]},
            "plugins": [describe_plugin(p) for p in case["plugins"]],
            "documents": sorted(world_docs(case["world"])),
            "observed": obs,
            "how": "Client('suds://main.wsdl', plugins=[...], transport=<recording>, nosend/retxml/faults as in "
                   "inv) over an in-memory DocumentStore; then client.service.f('x'); the transport answers "
                   "status/body as in inv (TransportError for a status other than 200); for via=NoSend with "
                   "process the caller hands the same reply to RequestContext.process_reply.  Hook k appends "
                   "'<letter>k;' to what it is handed (l loaded, d document parsed, m marshalled, s sending, "
                   "r received, p parsed, u unmarshalled) and logs the markers it found.  A raising hook raises "
                   "a fresh exception of its class (harness.c16.make_exc); RHookExc/CHookExc (site, plugin, "
                   "class) = the caller got that very object raised, RHookRet = returned as (500, object), "
                   "CWrapped = a new Exception('import/include schema ... failed') chained to it."}


def case_from_payload(p):
    c = p["case"]
    plugins = []
    for sp in c["plugins"]:
        k, sl = sp[0], sp[1]
        plugins.append((tuple(k), tuple(tuple(s) if isinstance(s, list) else s for s in sl)) + tuple(sp[2:]))
    return mkcase(plugins, world=c["world"], caching=c["caching"], pre=tuple(c["pre"]), inv=c["inv"],
                  group=c.get("group", ""))


def probe_falsy():
    """Informational only (no verdict): is a hook that is a callable object with a false
    truth value skipped by `if method and callable(method)`?  The model says yes
    (FalsyCallable); the generators do not use such hooks."""
    try:
        case = mkcase([(kinds_of("msg"), slots_for({"marshalled": "F", "sending": FN}))],
                      inv=dict(via="NoSend", process=False, retxml=False, faults=True, crash=False,
                               status=200, body="BNormal", explicit200=False))
        obs = run_case(case)
        return [e[:2] for e in obs["iobs"]["log"]] == [("SS", 0)]
    except Exception as e:
        return "probe failed: %r" % (e,)


def run(ck):
    common.force_repo_path()
    logging.disable(logging.CRITICAL)
    ck.trusted = [
        "Coq 8.16.1 kernel + vm_compute (correspondence evaluation); no native_compute",
        "correspondence harness harness/c16.py: generated plugin classes whose hooks log the markers they "
        "find and append their own; recording Cache/DocumentStore/Transport subclasses; the request is read "
        "back with expat (namespace infoset) and compared with the plugin-free request",
        "modelled, not verified: Python attribute lookup/isinstance/callable/truth value, suds' SAX parser and "
        "serialiser carrying a marker from tree to bytes and back, pickle round trip in the test cache",
    ]
    ck.notes = [
        "each hook's edit is abstracted to appending one marker to the datum it is handed; hooks that replace "
        "the datum wholesale (e.g. an empty reply replaced by a full one) are outside the model",
        "which documents the loader opens (imports, includes) is taken from the cache's own record of "
        "DocumentReader.open calls; C16 checks the hooks per open/fetch, not the loader",
        "the simulation entry point (__inject with a reply) skips marshalled/sending by design and is not driven",
        "exceptions: the class of a hook's exception is a generated dimension (12 classes, those suds catches or "
        "raises itself among them); the caller must get the very object.  Two class-dependent behaviours of "
        "suds are in the model: the service call hands a WebFault back as (500, exception) when faults is off "
        "(accepted by the specification: suds' convention for faults=False), and the schema loader answers a "
        "TransportError raised while it downloads an xsd:import/xsd:include - by a document hook too - with a new "
        "Exception('import schema ... failed') chained to it (accepted there only; "
        "document_hook_exception_propagates_partial / document_hook_exception_refuted)",
        "a callable hook object whose truth value is False is skipped by `if method and callable(method)`; the "
        "model keeps this (FalsyCallable) and the specification treats such an attribute as not overriding the "
        "hook; the generators do not use such hooks (coverage.falsy_callable_hook_is_skipped records a probe)",
        "where the property text is silent the specification leaves the number of stages open: an empty reply "
        "body with status 200 (suds calls parsed/unmarshalled with None), error statuses (suds calls received, "
        "and parsed for 500), unparsable replies; retxml may or may not parse",
    ]
    proof_ok = ck.prove(THEOREMS)
    ck.extra["falsy_callable_hook_is_skipped"] = probe_falsy()
    cases, maxlen = generate(ck)
    terms, obss = [], []
    for case in cases:
        obs = run_case(case)
        obss.append(obs)
        terms.append(c_case(case, obs))
        ncalls = len(obs["clog"]) + (len(obs["iobs"]["log"]) if obs["iobs"] else 0)
        ck.seen((case["plugins"], case["world"], case["caching"], case["pre"],
                 tuple(sorted((case["inv"] or {}).items()))), nontrivial=ncalls > 0)
        ck.count("group:" + case["group"])
        ck.count("plugins:%d" % len(case["plugins"]))
        if obs["iobs"]:
            inv = case["inv"]
            ck.count("reply:%d/%s" % (inv["status"], inv["body"][1:].lower()))
            ck.count("via:" + inv["via"].lower() + ("+process_reply" if inv["process"] else "")
                     + ("+crash" if inv["crash"] else ""))
            ck.count("result:" + obs["iobs"]["res"][0] + ("/" + obs["iobs"]["res2"][0]
                                                         if obs["iobs"]["res2"][0] != "RNotRun" else ""))
            for r in (obs["iobs"]["res"], obs["iobs"]["res2"]):
                if r[0] in ("RHookExc", "RHookRet"):
                    ck.count("hook-exception:%s@%s:%s" % (r[1][2], r[1][0], inv["via"].lower()))
        else:
            ck.count("construction:" + obs["cres"][0])
        if obs["cres"][0] in ("CHookExc", "CWrapped"):
            ck.count("hook-exception:%s@%s:%s" % (obs["cres"][3], obs["cres"][1], obs["cres"][0]))
        ck.count("hook-calls", ncalls)
        if case["group"] == "import-doctor" and case["world"] == 4:
            ck.count("doctor-edit-makes-loader-open-a.xsd:%s" % any(u == 2 for u, _ in obs["opens"]))
    for i in (0, len(cases) // 3, len(cases) - 1):
        ck.sample({"plugins": [describe_plugin(p) for p in cases[i]["plugins"]], "inv": cases[i]["inv"],
                   "documents": sorted(world_docs(cases[i]["world"])),
                   "hook_calls": [e[0] + str(e[1]) for e in obss[i]["clog"]] +
                                 [e[0] + str(e[1]) for e in (obss[i]["iobs"] or {"log": []})["log"]],
                   "result": (obss[i]["iobs"] or {"res": obss[i]["cres"]})["res"]})
    preds = ["c16_agrees", "c16_spec_ok"]
    res = ck.run_cases("cases", PRE, "ccase", terms, preds, shard=250)
    bad_model, bad_spec = set(res["c16_agrees"]), set(res["c16_spec_ok"])

    def size(i):
        return (len(cases[i]["plugins"]), len(terms[i]))
    # specification failures: the implementation violates the property on a concrete input
    worst = sorted(bad_spec, key=size)[:40]
    codes = {}
    if worst:
        rc, out = ck.coq_eval(PRE, ["c16_diag %s" % terms[i] for i in worst])
        found = [int(x) for x in re.findall(r"=\s*(\d+)(?:%N)?\s*:\s*N\b", out)]
        if len(found) == len(worst):
            codes = dict(zip(worst, found))
    reported = set()
    for i in worst:
        key, what = DIAG.get(codes.get(i, 0), ("C16:specification-rejects-run",
                                                "the run does not meet the specification"))
        if key in reported:
            continue
        reported.add(key)
        case = cases[i]
        ck.failing_input(key, "%s: plugins [%s], %s" % (
            what, "; ".join(describe_plugin(p) for p in case["plugins"]),
            "invocation %s" % case["inv"] if obss[i]["iobs"] else "construction"), payload_of(case, obss[i]))
    ck.extra["cases_failing_the_specification"] = len(bad_spec)
    ck.rule = ("plugin lists of length <= %d of InitPlugin/DocumentPlugin/MessagePlugin subclasses (also several "
               "kinds at once, plain objects, hooks of a foreign kind defined, non-callable hook "
               "attributes, look-only and raising hooks): every subset of hooks for single plugins x reply "
               "classes; a sweep of all %d settings (status 200/202/204/500/404/401 x body normal/fault/empty/"
               "garbage x retxml x faults x direct/nosend+process_reply, plus nosend alone and a crashing "
               "transport); every (plugin, hook) raising position of three all-kind plugins x 12 exception "
               "classes x {real send, nosend+process_reply}; a reply-side hook raising each class x the ways a "
               "real send is answered; a document hook raising each class inside an imported/included "
               "document; every permutation "
               "of random multisets; random lists; x document sets (WSDL alone, +imported schema, +included "
               "schema, +imported WSDL, schema imported only by suds' ImportDoctor used as a plugin) x no cache / cache / partly pre-filled cache.  distinct = distinct "
               "(plugin list, documents, cache state, settings); non-trivial = at least one hook ran"
               % (maxlen, len(all_invs())))
    ck.exhaustive = False
    if not proof_ok:
        ck.unproved("proof obligation of C16 no longer checks: " + ck.proof_log[-1500:],
                    {"theorems": THEOREMS, "log": ck.proof_log[-3000:]})
    only_model = sorted(bad_model - bad_spec, key=size)
    if only_model:
        i = only_model[0]
        p = payload_of(cases[i], obss[i])
        p["model_disagreements"] = len(only_model)
        ck.unproved("model/implementation correspondence of C16 no longer holds (the run meets the executable "
                    "specification, but the implementation is no longer the algorithm the theorems are about): "
                    "plugins [%s], %s" % ("; ".join(describe_plugin(q) for q in cases[i]["plugins"]),
                                          cases[i]["inv"]), p)


def replay(ck, payload):
    common.force_repo_path()
    logging.disable(logging.CRITICAL)
    print(payload.get("what"))
    case = case_from_payload(payload)
    for i, p in enumerate(case["plugins"]):
        print("plugin %d: %s" % (i, describe_plugin(p)))
    print("documents:", sorted(world_docs(case["world"])), "caching:", case["caching"],
          "pre-cached:", [URL_OF[u] for u in case["pre"]])
    print("invocation:", case["inv"])
    obs = run_case(case)
    print("DocumentReader.open calls (url id, fetched):", obs["opens"])
    print("construction log (site, plugin, url id, markers seen, context written by):")
    for e in obs["clog"]:
        print("   ", e)
    print("construction outcome:", obs["cres"])
    if obs["iobs"]:
        print("invocation log:")
        for e in obs["iobs"]["log"]:
            print("   ", e)
        print("markers in the bytes at the transport:", obs["iobs"]["sent"])
        print("caller gets:", obs["iobs"]["res"], obs["iobs"]["res2"])
    was = payload.get("observed")
    if was is not None:
        import json
        same = json.loads(json.dumps(obs, default=repr)) == json.loads(json.dumps(was, default=repr))
        print("same as the recorded run:", same)
    return 0
