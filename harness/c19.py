"""C19 — editing or cloning the XML tree affects exactly the nodes named.

Proof: coq/C19/Props.v (the heap model of suds.sax.element refines, for edit
histories of any length, a reference forest that identifies nodes by identity;
well-formedness of the heap is an invariant; a clone is an equal tree of new
nodes; lookups are the document-order filter).

Tie to the code: every history is run on real suds Element objects; after every
step the value returned, the parent/children links of EVERY element the
harness holds (walked through the objects and mapped back by identity), all
their own fields and plain() of every parentless element are printed as a Coq
term, and Coq evaluates
  c19_agrees   model = implementation, step by step
  c19_spec_ok  the implementation's outputs meet the reference, step by step.
"""
import itertools

from . import common
from .common import cZ, cnat, cstr

THEOREMS = [
    "edit_refines_reference",
    "edit_refines_reference_from_empty",
    "edit_step_refines",
    "wf_invariant",
    "data_edits_are_local",
    "detach_is_local",
    "clone_equal_independent",
    "clone_equal_needs_distinct_prefixes",
    "lookups_exact",
    "getChildren_exact",
    "namespaces_agree",
    "plain_agrees",
    "detach_by_equality_refuted",
    "unset_by_equality_refuted",
    "replaceChild_earlier_sibling_refuted",
    "append_does_not_detach_refuted",
    "clone_loses_inherited_attribute_prefix_refuted",
    "internal_programs_refine",
    "import_apply_frame",
    "import_schema_frame_own",
    "import_schema_frame_new",
    "replace_references_frame",
    "replace_references_shares",
    "replace_references_is_move_but_one_list",
    "document_lookups_exact",
]


PRE = "From SV Require Import Lib.Base C19.Model."

KEY_ATTR_EQ = "C19:attribute-eq-compares-prefix-with-name"


# ---------------------------------------------------------------------------
# running operations on the implementation
# ---------------------------------------------------------------------------

class Stuck(BaseException):
    """an implementation call that does not return (e.g. a walk up parent links that
    loop); not an Exception, so that nothing below the harness swallows it"""


class GiveUp(Exception):
    """implementation calls keep not returning: the run is abandoned with a verdict"""

    def __init__(self, setup, steps):
        Exception.__init__(self, "implementation calls do not return")
        self.setup, self.steps = setup, steps


STUCK = [0]


def note_stuck(setup, steps):
    STUCK[0] += 1
    if STUCK[0] >= 3:
        raise GiveUp(setup, steps)


class deadline(object):
    """bounds the CPU time (not the wall time: the machine may be busy) of implementation
    calls; a call that burns more than that without returning becomes an exception"""

    def __init__(self, seconds=10.0):
        self.seconds = seconds

    def _fire(self, signum, frame):
        raise Stuck("call did not return within %ss of CPU time" % self.seconds)

    def __enter__(self):
        import signal
        self.old = signal.signal(signal.SIGVTALRM, self._fire)
        signal.setitimer(signal.ITIMER_VIRTUAL, self.seconds)

    def __exit__(self, *exc):
        import signal
        signal.setitimer(signal.ITIMER_VIRTUAL, 0)
        signal.signal(signal.SIGVTALRM, self.old)
        return False


class Reg(object):
    """The Element objects the harness holds, by allocation number."""

    def __init__(self):
        self.objs = []
        self.ids = {}

    def add(self, e):
        self.ids[id(e)] = len(self.objs)
        self.objs.append(e)
        return len(self.objs) - 1

    def idof(self, e):
        """id of an object, 999999 for one the harness never saw"""
        if e is None:
            return None
        return self.ids.get(id(e), 999999)

    def add_tree(self, e):
        """register a new tree in document order (the order Element.clone builds it)"""
        self.add(e)
        for c in list(e.children):
            self.add_tree(c)


def _nodes(reg, res):
    if res is None:
        return ("RNodes", [])
    if isinstance(res, (list, tuple)):
        return ("RNodes", [reg.idof(x) for x in res])
    return ("RNodes", [reg.idof(res)])


def apply_op(reg, op):
    """Run one operation on the real objects; the canonical result."""
    from suds.sax.element import Element
    from suds.sax.attribute import Attribute
    k = op[0]
    o = reg.objs
    try:
        if k == "new":
            ns = op[2]
            if ns is None:
                e = Element(op[1])
            elif ns[0] == "d":
                e = Element(op[1], ns=(None, ns[1]))
            else:
                e = Element(op[1], ns=(ns[1], ns[2]))
            return ("RNodes", [reg.add(e)])
        if k == "append":
            xs = [o[x] for x in op[2]]
            r = o[op[1]].append(xs if op[3] else xs[0])
            return ("RNone",) if r is o[op[1]] else ("RErr",)
        if k == "insert":
            r = o[op[1]].insert(o[op[2]], op[3])
            return ("RNone",) if r is o[op[1]] else ("RErr",)
        if k == "setitem":
            o[op[1]][op[2]] = o[op[3]]
            return ("RNone",)
        if k == "remove":
            return _nodes(reg, o[op[1]].remove(o[op[2]]))
        if k == "detach":
            return _nodes(reg, o[op[1]].detach())
        if k == "replace":
            xs = [o[x] for x in op[3]]
            o[op[1]].replaceChild(o[op[2]], xs if op[4] else xs[0])
            return ("RNone",)
        if k == "detachChildren":
            return _nodes(reg, o[op[1]].detachChildren())
        if k == "prune":
            o[op[1]].prune()
            return ("RNone",)
        if k == "addattr":
            o[op[1]].append(Attribute(op[2], op[3]))
            return ("RNone",)
        if k == "set":
            o[op[1]].set(op[2], op[3])
            return ("RNone",)
        if k == "unset":
            o[op[1]].unset(op[2])
            return ("RNone",)
        if k == "rmattr":
            e = o[op[1]]
            e.remove(e.attributes[op[2]])
            return ("RNone",)
        if k == "settext":
            o[op[1]].setText(op[2])
            return ("RNone",)
        if k == "rename":
            o[op[1]].rename(op[2])
            return ("RNone",)
        if k == "setprefix":
            o[op[1]].setPrefix(op[2], op[3])
            return ("RNone",)
        if k == "addprefix":
            o[op[1]].addPrefix(op[2], op[3])
            return ("RNone",)
        if k == "clearprefix":
            o[op[1]].clearPrefix(op[2])
            return ("RNone",)
        if k == "clone":
            c = o[op[1]].clone()
            first = len(o)
            reg.add_tree(c)
            return ("RNodes", [first])
        nsarg = None
        if k in ("getChild", "getChildren", "getAttr") and op[3] is not None:
            nsarg = ("zz", op[3][1])
        if k == "getChild":
            return _nodes(reg, o[op[1]].getChild(op[2], nsarg))
        if k == "getChildren":
            return _nodes(reg, o[op[1]].getChildren(op[2], nsarg))
        if k == "childAtPath":
            return _nodes(reg, o[op[1]].childAtPath(op[2]))
        if k == "childrenAtPath":
            return _nodes(reg, o[op[1]].childrenAtPath(op[2]))
        if k == "getAttr":
            e = o[op[1]]
            a = e.getAttribute(op[2], nsarg)
            if a is None:
                return ("RAttr", None)
            for i, b in enumerate(e.attributes):
                if b is a:
                    return ("RAttr", i)
            return ("RErr",)
        if k == "namespace":
            ns = o[op[1]].namespace()
            return ("RNs", ns[1])
        raise AssertionError("unknown op %r" % (op,))
    except AssertionError:
        raise
    except Exception:     # noqa: the exception is the observable result
        return ("RErr",)


def _s(x):
    return None if x is None else str(x)


def dump(reg):
    """Every element held: parent and children as ids (by identity) and its own fields."""
    cells = []
    for e in reg.objs:
        try:
            attrs = []
            for a in e.attributes:
                # the attribute's own parent link must point back (checked here, not modelled)
                attrs.append((_s(a.prefix), _s(a.name), _s(a.value),
                              a.parent is e))
            cells.append((reg.idof(e.parent), [reg.idof(c) for c in e.children],
                          _s(e.prefix), _s(e.name), _s(e.expns),
                          [(_s(p), _s(u)) for p, u in e.nsprefixes.items()],
                          attrs, _s(e.text)))
        except Exception:     # noqa
            cells.append((999998, [], None, "!", None, [], [], None))
    return cells


def plains(reg):
    out = []
    for i, e in enumerate(reg.objs):
        try:
            if e.parent is None:
                out.append((i, e.plain()))
        except Exception:     # noqa
            out.append((i, "!exception"))
    return out


def reaches(reg, x, p):
    """p is x or below x through children lists, or x is above p through parent
    links (a pruned node keeps its parent link): grafting x under p would tie a loop"""
    seen = set()
    stack = [reg.objs[x]]
    target = reg.objs[p]
    while stack:
        e = stack.pop()
        if e is target:
            return True
        if id(e) in seen:
            continue
        seen.add(id(e))
        stack.extend(e.children)
    e, n = target, 0
    while e is not None and n <= len(reg.objs) + 1:
        if e is reg.objs[x]:
            return True
        e = e.parent
        n += 1
    return False


def expanded_size(reg):
    """number of nodes plain()/clone() would visit (shared nodes count once per path)"""
    memo = {}

    def size(e):
        k = id(e)
        if k not in memo:
            memo[k] = 0          # a loop cannot occur (makes_cycle); stay finite anyway
            memo[k] = 1 + sum(size(c) for c in e.children)
        return memo[k]
    return sum(size(e) for e in reg.objs if e.parent is None)


def makes_cycle(reg, op):
    k = op[0]
    if k == "append":
        return any(reaches(reg, x, op[1]) for x in op[2])
    if k == "insert":
        return reaches(reg, op[2], op[1])
    if k == "setitem":
        return reaches(reg, op[3], op[1])
    if k == "replace":
        return any(reaches(reg, x, op[1]) for x in op[3])
    return False


def op_ids(op):
    k = op[0]
    if k == "new":
        return []
    if k == "append":
        return [op[1]] + list(op[2])
    if k in ("insert", "remove"):
        return [op[1], op[2]]
    if k == "setitem":
        return [op[1], op[3]]
    if k == "replace":
        return [op[1], op[2]] + list(op[3])
    return [op[1]]


def valid_ids(reg, op):
    n = len(reg.objs)
    if not all(isinstance(i, int) and 0 <= i < n for i in op_ids(op)):
        return False
    if op[0] == "rmattr":
        return 0 <= op[2] < len(reg.objs[op[1]].attributes)
    if op[0] == "append":
        return len(op[2]) >= 1
    return True


def run_history(setup, steps):
    """-> (observations, executed steps, picture after the setup); a step that would
    tie a cycle (plain() would not terminate) ends the history."""
    reg = Reg()
    try:
        with deadline(10.0):
            for op in setup:
                assert valid_ids(reg, op) and not makes_cycle(reg, op), op
                apply_op(reg, op)
            base = (dump(reg), plains(reg))
    except Stuck:
        note_stuck(setup, [])
        return [], [], ([], [])
    obs, done = [], []
    for op in steps:
        if not valid_ids(reg, op) or makes_cycle(reg, op):
            break
        if op[0] in ("clone", "prune") and expanded_size(reg) > 120:
            break
        try:
            with deadline():
                res = apply_op(reg, op)
                if expanded_size(reg) > 300:
                    break
                ob = (res, dump(reg), plains(reg))
        except Stuck:
            obs.append((("RErr",), [(999997, [], None, "!stuck", None, [], [], None)], []))
            done.append(op)
            note_stuck(setup, done)
            break
        obs.append(ob)
        done.append(op)
    return obs, done, base


def deltas(obs, base):
    """per step: (result, count, changed cells, parentless ids, changed plain texts),
    relative to the picture before"""
    out = []
    prev, prevp = list(base[0]), dict(base[1])
    for res, cells, pl in obs:
        d = [(i, c) for i, c in enumerate(cells) if i >= len(prev) or prev[i] != c]
        dp = [(i, s) for i, s in pl if prevp.get(i) != s]
        for i, s in dp:
            prevp[i] = s
        out.append((res, len(cells), d, [i for i, _ in pl], dp))
        prev = cells
    return out


# ---------------------------------------------------------------------------
# Coq printing
# ---------------------------------------------------------------------------

def c_ostr(s):
    return "None" if s is None else "(Some %s)" % cstr(s)


def c_ids(l):
    return "[]" if not l else "[" + ";".join(str(i) for i in l) + "]%N"


def c_oid(i):
    return "None" if i is None else "(Some %d%%N)" % i


def c_nsq(ns):
    """the optional ns argument of a lookup: None | ("ns", uri or None)"""
    if ns is None:
        return "None"
    return "(Some %s)" % c_ostr(ns[1])


def c_op(op):
    k = op[0]
    if k == "new":
        ns = op[2]
        if ns is None:
            a = "None"
        elif ns[0] == "d":
            a = "(Some (NsDefault %s))" % c_ostr(ns[1])
        else:
            a = "(Some (NsPrefixed %s %s))" % (cstr(ns[1]), cstr(ns[2]))
        return "(ONew %s %s)" % (cstr(op[1]), a)
    if k == "append":
        return "(OAppend %d%%N %s)" % (op[1], c_ids(op[2]))
    if k == "insert":
        return "(OInsert %d%%N %d%%N %s)" % (op[1], op[2], cZ(op[3]))
    if k == "setitem":
        return "(OSetItem %d%%N %s %d%%N)" % (op[1], cZ(op[2]), op[3])
    if k == "remove":
        return "(ORemove %d%%N %d%%N)" % (op[1], op[2])
    if k == "detach":
        return "(ODetach %d%%N)" % op[1]
    if k == "replace":
        return "(OReplace %d%%N %d%%N %s)" % (op[1], op[2], c_ids(op[3]))
    if k == "detachChildren":
        return "(ODetachChildren %d%%N)" % op[1]
    if k == "prune":
        return "(OPrune %d%%N)" % op[1]
    if k == "addattr":
        return "(OAddAttr %d%%N %s %s)" % (op[1], cstr(op[2]), cstr(op[3]))
    if k == "set":
        return "(OSet %d%%N %s %s)" % (op[1], cstr(op[2]), cstr(op[3]))
    if k == "unset":
        return "(OUnset %d%%N %s)" % (op[1], cstr(op[2]))
    if k == "rmattr":
        return "(ORemoveAttr %d%%N %s)" % (op[1], cnat(op[2]))
    if k == "settext":
        return "(OSetText %d%%N %s)" % (op[1], c_ostr(op[2]))
    if k == "rename":
        return "(ORename %d%%N %s)" % (op[1], cstr(op[2]))
    if k == "setprefix":
        return "(OSetPrefix %d%%N %s %s)" % (op[1], c_ostr(op[2]), c_ostr(op[3]))
    if k == "addprefix":
        return "(OAddPrefix %d%%N %s %s)" % (op[1], cstr(op[2]), cstr(op[3]))
    if k == "clearprefix":
        return "(OClearPrefix %d%%N %s)" % (op[1], cstr(op[2]))
    if k == "clone":
        return "(OClone %d%%N)" % op[1]
    if k == "getChild":
        return "(OGetChild %d%%N %s %s)" % (op[1], cstr(op[2]), c_nsq(op[3]))
    if k == "getChildren":
        return "(OGetChildren %d%%N %s %s)" % (op[1], c_ostr(op[2]), c_nsq(op[3]))
    if k == "childAtPath":
        return "(OChildAtPath %d%%N %s)" % (op[1], cstr(op[2]))
    if k == "childrenAtPath":
        return "(OChildrenAtPath %d%%N %s)" % (op[1], cstr(op[2]))
    if k == "getAttr":
        return "(OGetAttr %d%%N %s %s)" % (op[1], cstr(op[2]), c_nsq(op[3]))
    if k == "namespace":
        return "(ONamespace %d%%N)" % op[1]
    raise AssertionError(op)


def c_res(r):
    if r[0] == "RNodes":
        return "(RNodes %s)" % c_ids(r[1])
    if r[0] == "RAttr":
        return "(RAttr %s)" % ("None" if r[1] is None else "(Some %s)" % cnat(r[1]))
    if r[0] == "RNs":
        return "(RNs %s)" % c_ostr(r[1])
    return r[0]


def c_cell(c):
    par, kids, prefix, name, expns, nsp, attrs, text = c
    a = "[]" if not attrs else "[" + ";".join(
        "mkA %s %s %s" % (c_ostr(p), cstr(n), cstr(v if v is not None else "\x00None")) for p, n, v, _ in attrs) + "]"
    m = "[]" if not nsp else "[" + ";".join("(%s,%s)" % (cstr(p), cstr(u if u is not None else "\x00None"))
                                             for p, u in nsp) + "]"
    return "(mkC %s %s (mkD %s %s %s %s %s %s))" % (
        c_oid(par), c_ids(kids), c_ostr(prefix), cstr(name if name is not None else "\x00None"),
        c_ostr(expns), m, a, c_ostr(text))


def c_obs(ob):
    res, count, cells, roots, pl = ob
    d = "[" + ";".join("(%d%%N,%s)" % (i, c_cell(c)) for i, c in cells) + "]" if cells else "[]"
    p = "[" + ";".join("(%d%%N,%s)" % (i, cstr(s)) for i, s in pl) + "]" if pl else "[]"
    return "(mkO %s %d%%N %s %s %s)" % (c_res(res), count, d, c_ids(roots), p)


def c_setup(setup):
    return "[" + ";".join(c_op(o) for o in setup) + "]" if setup else "[]"


def c_base(base):
    cells, pl = base
    d = "[" + ";".join("(%d%%N,%s)" % (i, c_cell(c)) for i, c in enumerate(cells)) + "]" if cells else "[]"
    p = "[" + ";".join("(%d%%N,%s)" % (i, cstr(s)) for i, s in pl) + "]" if pl else "[]"
    return "(mkV %s %s)" % (d, p)


def c_case(quirk, setup, steps, obs, base, shared=None):
    """shared = (name of the setup constant, name of the base constant) defined in the preamble"""
    su, ba = shared if shared else (c_setup(setup), c_base(base))
    st = ("[" + ";".join("(%s,%s)" % (c_op(o), c_obs(ob)) for o, ob in zip(steps, deltas(obs, base))) + "]"
          if steps else "[]")
    return "(mkCase %s %s %s %s)" % (quirk, su, ba, st)


# ---------------------------------------------------------------------------
# generators
# ---------------------------------------------------------------------------

NAMES = ["a", "a", "a", "b", "b", "c"]
PREFIXES = [None, None, None, "p", "q"]
URIS = ["u1", "u2", "u3"]
ATTRN = ["k", "m", "id", "p:k", "q:k", "q:m", "k:k", "m:m"]
VALUES = ["v", "w", "x1", "", "7"]
TEXTS = [None, None, "t1", "t2", ""]
LOOKN = ["a", "b", "c", "p:a", "q:a", "p:b", "q:b", "zz:a", "xml:a", "d", "p:c"]
PATHS = ["a", "b", "a/a", "a/b", "a/c", "b/a", "a/a/a", "a/a/b", "a/b/c", "p:a/b", "a/p:b", "a/q:b", "q:a/q:b",
         "p:a/a", "a/p:a", "/a", "a/", "a//b", "/a/b/", "", "/", "a/zz:b", "c/c", "a/a/a/a", "p:a", "q:b"]


def qn(rng, names=NAMES):
    p = rng.choice(PREFIXES)
    n = rng.choice(names)
    return n if p is None else p + ":" + n


def gen_tree(rng, maxnodes=14, maxdepth=4):
    """Setup operations building a tree (root = id 0) of depth <= maxdepth with
    repeated sibling names and mixed namespaces / prefixes."""
    ops = []
    count = [0]

    def new(depth, parent):
        i = count[0]
        count[0] += 1
        r = rng.random()
        name = qn(rng) if parent is not None else rng.choice(["r", "p:r", "a"])
        if r < 0.55:
            ns = None
        elif r < 0.75:
            ns = ("d", rng.choice(URIS + [None]))
        else:
            ns = ("p", rng.choice(["p", "q"]), rng.choice(URIS))
        ops.append(("new", name, ns))
        if parent is None:
            for p in ("p", "q"):
                if rng.random() < 0.7:
                    ops.append(("addprefix", i, p, rng.choice(URIS)))
        elif rng.random() < 0.15:
            ops.append(("addprefix", i, rng.choice(["p", "q"]), rng.choice(URIS)))
        if rng.random() < 0.2:
            # a prefixed attribute and (sometimes) the unprefixed one of the same local name
            n0 = rng.choice(["k", "m"])
            ops.append(("addattr", i, rng.choice(["p:", "q:"]) + n0, rng.choice(VALUES)))
            if rng.random() < 0.6:
                ops.append(("set", i, n0, rng.choice(VALUES)))
        for _ in range(rng.choice([0, 0, 0, 1, 1, 2])):
            if rng.random() < 0.5:
                ops.append(("set", i, rng.choice(ATTRN), rng.choice(VALUES)))
            else:
                ops.append(("addattr", i, rng.choice(ATTRN), rng.choice(VALUES)))
        t = rng.choice(TEXTS)
        if t is not None:
            ops.append(("settext", i, t))
        if parent is not None:
            ops.append(("append", parent, [i], False))
        if depth < maxdepth:
            fan = rng.choice([0, 1, 2, 2, 3, 3] if depth < 3 else [0, 0, 1, 2])
            for _ in range(fan):
                if count[0] >= maxnodes:
                    break
                new(depth + 1, i)
        return i

    new(1, None)
    # a few parentless spare nodes the history can graft in
    for _ in range(rng.choice([1, 2, 2])):
        i = count[0]
        count[0] += 1
        ops.append(("new", qn(rng), rng.choice([None, None, ("d", "u1"), ("p", "p", "u2")])))
        if rng.random() < 0.4:
            ops.append(("settext", i, "s"))
    return ops


class Picker(object):
    """Chooses the next random operation from the live state of the real objects
    (so that most operations are meaningful), using ck.rng only."""

    def __init__(self, rng, reg):
        self.rng = rng
        self.reg = reg

    def attached(self):
        o = self.reg.objs
        return [i for i, e in enumerate(o)
                if e.parent is not None and any(c is e for c in e.parent.children)]

    def rootsl(self):
        return [i for i, e in enumerate(self.reg.objs) if e.parent is None]

    def anynode(self):
        return self.rng.randrange(len(self.reg.objs))

    def inner(self):
        """a node, preferring those with children"""
        o = self.reg.objs
        withk = [i for i, e in enumerate(o) if e.children]
        if withk and self.rng.random() < 0.8:
            return self.rng.choice(withk)
        return self.anynode()

    def pick(self, exotic=False):
        rng, reg = self.rng, self.reg
        o = reg.objs
        for _ in range(30):
            r = rng.random() * 0.93 if not exotic else 0.99
            op = None
            att = self.attached()
            roots = self.rootsl()
            if r < 0.09 and att:
                op = ("detach", rng.choice(att))
            elif r < 0.14 and att:
                x = rng.choice(att)
                if rng.random() < 0.75:
                    op = ("remove", reg.idof(o[x].parent), x)
                else:
                    op = ("remove", self.anynode(), x)             # mostly not its parent: nothing happens
            elif r < 0.24:
                cands = [x for x in roots if x != 0 or rng.random() < 0.1]
                if cands:
                    xs = [rng.choice(cands)]
                    if len(cands) > 1 and rng.random() < 0.25:
                        y = rng.choice(cands)
                        if y not in xs:
                            xs.append(y)
                    op = ("append", self.anynode(), xs, len(xs) > 1 or rng.random() < 0.3)
            elif r < 0.32:
                cands = [x for x in roots if x != 0 or rng.random() < 0.1]
                if cands and rng.random() < 0.25:
                    p = self.inner()
                    n = len(o[p].children)
                    idx = rng.randrange(0, n) if n and rng.random() < 0.8 else rng.choice([n, n + 2, -1, -5])
                    op = ("setitem", p, idx, rng.choice(cands))         # p[idx] = x
                elif cands:
                    p = self.inner()
                    n = len(o[p].children)
                    idx = rng.randrange(0, n + 1) if rng.random() < 0.85 else rng.choice([-1, -2, -9, n + 1, n + 5])
                    op = ("insert", p, rng.choice(cands), idx)
            elif r < 0.43 and att:
                c = rng.choice(att)
                p = reg.idof(o[c].parent)
                pool = [x for x in range(len(o)) if x != c]
                k = rng.choice([1, 1, 1, 2, 3, 0])
                content = []
                for _ in range(k):
                    x = rng.choice(pool)
                    # mostly parentless nodes or nodes from elsewhere
                    if x not in content and (o[x].parent is None or rng.random() < 0.5):
                        content.append(x)
                if content or rng.random() < 0.3:
                    op = ("replace", p, c, content, len(content) != 1 or rng.random() < 0.3)
            elif r < 0.455:
                op = ("detachChildren", self.inner())
            elif r < 0.485:
                op = ("prune", self.inner() if rng.random() < 0.7 else 0)
            elif r < 0.53:
                x = self.anynode()
                pref = [a.name for a in o[x].attributes if a.prefix is not None]
                if pref and rng.random() < 0.5:
                    # the unprefixed twin of a prefixed attribute the element carries
                    op = ("set", x, rng.choice(pref), rng.choice(VALUES))
                else:
                    op = ("set", x, rng.choice(ATTRN), rng.choice(VALUES))
            elif r < 0.57:
                x = self.anynode()
                names = [a.qname() for a in o[x].attributes] or ATTRN
                op = ("unset", x, rng.choice(names) if rng.random() < 0.8 else rng.choice(ATTRN))
            elif r < 0.585:
                op = ("addattr", self.anynode(), rng.choice(ATTRN), rng.choice(VALUES))
            elif r < 0.60:
                cands = [i for i, e in enumerate(o) if e.attributes]
                if cands:
                    x = rng.choice(cands)
                    op = ("rmattr", x, rng.randrange(len(o[x].attributes)))
            elif r < 0.64:
                op = ("settext", self.anynode(), rng.choice(["t1", "t3", "", None]))
            elif r < 0.68:
                op = ("rename", self.anynode(), qn(rng, NAMES + ["d"]))
            elif r < 0.71:
                p = rng.choice([None, "p", "q"])
                u = rng.choice([None, "u1", "u2"])
                op = ("setprefix", self.anynode(), p, u)
            elif r < 0.735:
                op = ("addprefix", self.anynode(), rng.choice(["p", "q"]), rng.choice(URIS))
            elif r < 0.75:
                op = ("clearprefix", self.anynode(), rng.choice(["p", "q"]))
            elif r < 0.785 and len(o) < 40:
                op = ("clone", self.inner())
            elif r < 0.81 and len(o) < 40:
                op = ("new", qn(rng), rng.choice([None, None, ("d", "u1"), ("p", "q", "u3")]))
            elif r < 0.93:
                op = self.lookup()
            else:
                op = self.exotic()
            if op is not None and valid_ids(reg, op) and not makes_cycle(reg, op):
                return op
        return self.lookup()

    def nsq(self):
        r = self.rng.random()
        if r < 0.75:
            return None
        return ("ns", self.rng.choice(URIS + [None]))

    def lookup(self):
        rng = self.rng
        r = rng.random()
        p = self.inner()
        if r < 0.2:
            return ("getChild", p, rng.choice(LOOKN), self.nsq())
        if r < 0.45:
            return ("getChildren", p, rng.choice(LOOKN + [None, None]), self.nsq())
        if r < 0.62:
            return ("childAtPath", p if rng.random() < 0.5 else 0, rng.choice(PATHS))
        if r < 0.85:
            return ("childrenAtPath", p if rng.random() < 0.5 else 0, rng.choice(PATHS))
        if r < 0.93:
            return ("getAttr", self.anynode(), rng.choice(ATTRN + ["zz:k"]), self.nsq())
        return ("namespace", self.anynode())

    def exotic(self):
        """uses the API outside what the reference defines (the model must still follow the code)"""
        rng, reg = self.rng, self.reg
        o = reg.objs
        att = self.attached()
        r = rng.random()
        if r < 0.3 and att:
            return ("append", self.anynode(), [rng.choice(att)], False)        # still attached elsewhere
        if r < 0.45 and att:
            if rng.random() < 0.3:
                return ("setitem", self.inner(), 0, rng.choice(att))
            return ("insert", self.inner(), rng.choice(att), 0)
        if r < 0.65 and att:
            return ("append", self.inner(), [rng.choice(att)], True)
        if r < 0.85 and att:
            c = rng.choice(att)
            p = o[c].parent
            sibs = [reg.idof(x) for x in p.children if x is not o[c]]
            if sibs:
                return ("replace", reg.idof(p), c, [rng.choice(sibs)], False)  # content = a sibling
        if att:
            return ("replace", self.anynode(), rng.choice(att), [], True)
        return None


def gen_random_history(rng, length):
    setup = gen_tree(rng)
    reg = Reg()
    steps = []
    try:
        with deadline(10.0):
            for op in setup:
                apply_op(reg, op)
            pk = Picker(rng, reg)
            return _grow_history(rng, reg, pk, setup, steps, length)
    except Stuck:
        note_stuck(setup, steps)
        return setup, steps


def _grow_history(rng, reg, pk, setup, steps, length):
    # at most one edit outside the reference's domain, near the end (what follows it is
    # compared with the model only)
    exotic_at = length - 3 if rng.random() < 0.5 else -1
    for k in range(length):
        op = pk.pick(exotic=(k == exotic_at))
        if op is None or not valid_ids(reg, op) or makes_cycle(reg, op):
            break
        if op[0] in ("clone", "prune") and expanded_size(reg) > 120:
            break
        steps.append(op)           # (if the call never returns, run_history meets it again and records it)
        apply_op(reg, op)
        steps.pop()
        if expanded_size(reg) > 300:
            break
        steps.append(op)
    return setup, steps


# the small tree of the exhaustive part:   r0[ a1[c4] a2[c5] b3 ]   + parentless a6, b7[c8]
SMALL_SETUP = [
    ("new", "r", None), ("new", "a", None), ("new", "a", None), ("new", "b", None),
    ("new", "c", None), ("new", "c", None), ("new", "a", None), ("new", "b", None), ("new", "c", None),
    ("addprefix", 0, "p", "u1"),
    ("settext", 1, "t1"), ("settext", 2, "t2"), ("addattr", 2, "p:k", "x1"),
    ("addattr", 3, "p:k", "x1"), ("set", 3, "k", "v"), ("settext", 5, "t5"),
    ("settext", 6, "t6"),
    ("append", 1, [4], False), ("append", 2, [5], False), ("append", 0, [1, 2, 3], True),
    ("append", 7, [8], False),
]

SMALL_OPS_CORE = [
    ("detach", 1), ("detach", 2), ("detach", 5),
    ("remove", 0, 2),
    ("append", 0, [6], False), ("append", 2, [6], False), ("append", 3, [7], False),
    ("insert", 0, 6, 0), ("insert", 0, 6, 1), ("insert", 0, 7, 2),
    ("replace", 0, 2, [6], False), ("replace", 0, 1, [6, 7], True), ("replace", 0, 2, [], True),
    ("replace", 2, 5, [6], False),
    ("detachChildren", 0), ("detachChildren", 2),
    ("prune", 0),
    ("set", 2, "k", "w"), ("set", 3, "k", "w"), ("set", 3, "p:k", "w"), ("unset", 3, "k"),
    ("settext", 2, None), ("settext", 5, None),
    ("rename", 2, "p:a"), ("rename", 1, "b"), ("setprefix", 2, "p", None),
    ("clone", 0), ("clone", 2),
]
SMALL_OPS_MORE = [
    ("detach", 3), ("detach", 4), ("remove", 2, 5), ("setitem", 0, 1, 6), ("setitem", 2, 0, 7), ("setitem", 0, 3, 6),
    ("childrenAtPath", 0, "/a"), ("childrenAtPath", 0, "b/"), ("append", 1, [6], False), ("append", 0, [7, 6], True),
    ("insert", 2, 6, 1), ("insert", 0, 6, 3), ("replace", 0, 3, [7], False), ("replace", 0, 2, [4], False),
    ("replace", 0, 2, [1], False), ("replace", 0, 1, [2], False),
    ("append", 3, [5], False), ("remove", 1, 5),
    ("detachChildren", 1), ("prune", 2), ("set", 1, "k", "v"), ("settext", 4, "t4"),
    ("rename", 3, "a"), ("setprefix", 1, "p", "u2"), ("addprefix", 2, "p", "u2"), ("clone", 7),
    ("getChildren", 0, "a", None), ("getChild", 0, "a", None), ("childrenAtPath", 0, "a/c"),
    ("childAtPath", 0, "a/c"), ("getChildren", 0, "p:a", None),
]
SMALL_PROBES = [("getChildren", 0, "a", None), ("childrenAtPath", 0, "a/c"), ("childAtPath", 0, "a/c"),
                ("getChild", 0, "b", None), ("getChildren", 0, None, None), ("getChildren", 2, None, None)]


def gen_exhaustive(ck):
    """all histories over the small tree from a fixed catalogue, followed by lookups"""
    out = []
    if ck.tier == "thorough":
        plans = [(SMALL_OPS_CORE + SMALL_OPS_MORE, 2), (SMALL_OPS_CORE, 3), (SMALL_OPS_CORE[::2], 4)]
    else:
        plans = [(SMALL_OPS_CORE + SMALL_OPS_MORE, 1), (SMALL_OPS_CORE, 2)]
    seen = set()
    for cat, n in plans:
        for h in itertools.product(cat, repeat=n):
            key = repr(h)
            if key in seen:
                continue
            seen.add(key)
            out.append(("exhaustive-%d" % n, SMALL_SETUP, list(h) + SMALL_PROBES[:3]))
    if ck.tier != "thorough":
        # a sample of the length 3 and 4 histories
        cat = SMALL_OPS_CORE + SMALL_OPS_MORE
        for n, cnt in ((3, 260), (4, 200)):
            for _ in range(cnt):
                h = [ck.rng.choice(cat) for _ in range(n)]
                out.append(("sampled-%d" % n, SMALL_SETUP, h + SMALL_PROBES[:3]))
    return out


NSPATHS = ["a/p:b", "a/q:b", "a/b", "a/p:b/p:c", "a/b/p:c", "a/p:b/c", "a/q:b/p:c", "a/p:b/q:c", "p:a/p:b",
           "a/p:a", "a/p:a/p:b", "a/a/p:b", "p:b", "q:b", "b/p:c", "p:b/p:c", "a/zz:b", "a/xml:b"]


def gen_nspath_history(rng, length):
    """Trees made for prefixed multi-step paths: a prefix is declared only on an
    intermediate node, or re-bound there to another URI than above, and that node
    has children with EQUAL local names in different namespaces (unqualified,
    default namespace, prefix resolved through the intermediate node, own
    binding), in random order; the history interleaves path lookups from several
    start nodes with re-bindings and re-orderings."""
    ops = []
    count = [0]

    def new(qname, ns, parent, binds=()):
        i = count[0]
        count[0] += 1
        ops.append(("new", qname, ns))
        for p, u in binds:
            ops.append(("addprefix", i, p, u))
        if parent is not None:
            ops.append(("append", parent, [i], False))
        return i

    def variants(local, uris):
        """same local name, different namespaces"""
        v = [(local, None), ("p:" + local, None), ("q:" + local, None),
             (local, ("d", uris[0])), (local, ("d", uris[1])),
             ("q:" + local, ("p", "q", uris[2])), ("p:" + local, ("p", "p", uris[0]))]
        rng.shuffle(v)
        return v[:rng.choice([3, 4, 5, 6])]

    uris = list(URIS)
    rng.shuffle(uris)
    top = [(p, u) for p, u in (("p", uris[0]), ("q", uris[1])) if rng.random() < 0.65]
    r = new(rng.choice(["r", "p:r"]), rng.choice([None, None, ("d", uris[2])]), None, top)
    mids = []
    for k in range(rng.choice([1, 2, 2, 3])):
        # intermediate nodes named a: p (and sometimes q) declared or re-bound HERE
        binds = [("p", rng.choice([uris[1], uris[2]]))]
        if rng.random() < 0.4:
            binds.append(("q", rng.choice([uris[0], uris[2]])))
        if k > 0 and rng.random() < 0.4:
            binds = []
        name, ns = rng.choice([("a", None), ("a", None), ("p:a", None), ("a", ("d", uris[0]))])
        mids.append(new(name, ns, r, binds))
    leaves = []
    for m in mids:
        for name, ns in variants("b", uris):
            b = new(name, ns, m, [("p", rng.choice(uris))] if rng.random() < 0.35 else ())
            leaves.append(b)
            if count[0] < 26 and rng.random() < 0.5:
                for cname, cns in variants("c", uris)[:3]:
                    new(cname, cns, b)
        if rng.random() < 0.3:
            for name, ns in variants("a", uris)[:2]:
                new(name, ns, m)
    setup = list(ops)
    n = count[0]
    steps = []
    for _ in range(length):
        x = rng.random()
        start = r if rng.random() < 0.7 else rng.choice(mids)
        if x < 0.4:
            steps.append(("childAtPath", start, rng.choice(NSPATHS)))
        elif x < 0.75:
            steps.append(("childrenAtPath", start, rng.choice(NSPATHS)))
        elif x < 0.8:
            steps.append(("getChild", rng.choice(mids), rng.choice(["p:b", "q:b", "b"]), None))
        elif x < 0.87:
            steps.append(("addprefix", rng.choice([r] + mids + leaves), rng.choice(["p", "q"]), rng.choice(uris)))
        elif x < 0.92:
            steps.append(("clearprefix", rng.choice([r] + mids), rng.choice(["p", "q"])))
        elif x < 0.96:
            steps.append(("setprefix", rng.choice(leaves), rng.choice(["p", "q", None]), None))
        else:
            steps.append(("detach", rng.choice(leaves)))
    return setup, steps


def generate(ck):
    rng = ck.rng
    groups = []
    for _ in range(1500 if ck.tier == "thorough" else 160):
        setup, steps = gen_nspath_history(rng, 12)
        groups.append(("random-nspath", setup, steps))
    if ck.tier == "thorough":
        plan = [(25, 1500), (12, 1500), (5, 1500)]
    else:
        plan = [(25, 170), (12, 200), (5, 250)]
    for length, cnt in plan:
        for _ in range(cnt):
            setup, steps = gen_random_history(rng, length)
            groups.append(("random-%d" % length, setup, steps))
    return groups + gen_exhaustive(ck)


# ---------------------------------------------------------------------------
# probes of anchored operations outside the modelled core
# ---------------------------------------------------------------------------

def probe_attr_mode():
    """How Element.remove(attribute) finds the attribute to drop, read from the
    implementation: 'AQuirk' (list.remove by Attribute.__eq__ comparing prefix with
    NAME: on [n:n, q:n] removing q:n drops n:n), 'AEq' (by an __eq__ comparing
    prefix with prefix: on [k, k] removing the second drops the first) or 'AId'
    (the very object)."""
    from suds.sax.element import Element
    from suds.sax.attribute import Attribute
    try:
        r = Element("r")
        a1, a2 = Attribute("n:n", "1"), Attribute("q:n", "2")
        r.append(a1)
        r.append(a2)
        r.remove(a2)
        if len(r.attributes) == 1 and r.attributes[0] is a2:
            return "AQuirk"
        r = Element("r")
        a1, a2 = Attribute("k", "1"), Attribute("k", "2")
        r.append(a1)
        r.append(a2)
        r.remove(a2)
        if len(r.attributes) == 1 and r.attributes[0] is a2:
            return "AEq"
        return "AId"
    except Exception:     # noqa
        return "AQuirk"


def probe_unset_wrong_attribute():
    """<r n:n='1' q:n='2'/>; unset('q:n') must remove q:n"""
    from suds.sax.element import Element
    from suds.sax.attribute import Attribute
    try:
        r = Element("r")
        r.addPrefix("n", "u1")
        r.addPrefix("q", "u2")
        r.append(Attribute("n:n", "1"))
        r.append(Attribute("q:n", "2"))
        r.unset("q:n")
        return [a.qname() for a in r.attributes]
    except Exception as e:     # noqa
        return ["exception " + repr(e)]


def regression_probes():
    """The repaired defects, each on its original one-line input:
    [(key of the `fixed` entry, what, observed)] for those that are back."""
    from suds.sax.element import Element
    back = []

    def two_a():
        r, a1, a2, b = Element("r"), Element("a"), Element("a"), Element("b")
        a1.setText("1")
        a2.setText("2")
        r.append([a1, a2, b])
        return r, a1, a2, b
    try:
        r, a1, a2, b = two_a()
        a2.detach()
        ok = [c is x for c, x in zip(r.children, (a1, b))] == [True, True] and len(r.children) == 2
        r2, c1, c2, d = two_a()
        n = Element("n")
        r2.replaceChild(c2, n)
        ok = ok and len(r2.children) == 3 and r2.children[0] is c1 and r2.children[1] is n and r2.children[2] is d
        r3, e1, e2, f = two_a()
        e1.set("k", "v")
        e2.setText(None)          # only the second a is empty
        f.setText("x")
        r3.prune()
        ok = ok and len(r3.children) == 2 and r3.children[0] is e1 and r3.children[1] is f
        obs = "%s | %s | %s" % (r.plain(), r2.plain(), r3.plain())
    except Exception as e:     # noqa
        ok, obs = False, "exception " + repr(e)
    if not ok:
        back.append(("C19:surgery-by-equality",
                     "detach/replaceChild/prune of the SECOND of two same-named siblings <r><a>1</a><a>2</a><b/></r> "
                     "does not act on the node given", obs))
    try:
        a = Element("a")
        a.setText("1")
        c = a.clone()
        ok, obs = (c.text is not None and str(c.text) == "1"), c.plain()
    except Exception as e:     # noqa
        ok, obs = False, "exception " + repr(e)
    if not ok:
        back.append(("C19:clone-drops-text", "Element.clone() of <a>1</a> does not keep the text", obs))
    try:
        r, a, b1, b2 = Element("r"), Element("a"), Element("b"), Element("q:b")
        r.addPrefix("q", "u1")
        r.append(a)
        a.append([b1, b2])
        got = r.childrenAtPath("a/q:b")
        ok, obs = (len(got) == 1 and got[0] is b2), repr(got)
    except Exception as e:     # noqa
        ok, obs = False, "exception " + repr(e)
    if not ok:
        back.append(("C19:childrenAtPath-ignores-leaf-namespace",
                     "childrenAtPath('a/q:b') on <r xmlns:q='u1'><a><b/><q:b/></a></r> does not return exactly q:b", obs))
    try:
        r = Element("r")
        r.addPrefix("p", "u1")
        r.set("p:k", "1")
        r.set("k", "2")
        r.set("k", "3")
        got = [(a.qname(), str(a.value)) for a in r.attributes]
        ok, obs = got == [("p:k", "1"), ("k", "3")], repr(got)
    except Exception as e:     # noqa
        ok, obs = False, "exception " + repr(e)
    if not ok:
        back.append(("C19:set-departs-from-reference",
                     "set('k') on <r p:k='1'/> must add / update the unprefixed attribute k and leave p:k alone",
                     obs))
    from suds.sax.attribute import Attribute

    def probe(key, what, f):
        try:
            ok, obs = f()
        except Exception as e:     # noqa
            ok, obs = False, "exception " + repr(e)
        if not ok:
            back.append((key, what, obs))

    def unset_unprefixed():
        r = Element("r")
        r.addPrefix("p", "u1")
        r.append(Attribute("p:k", "1"))
        r.set("k", "2")
        r.unset("k")
        first = [a.qname() for a in r.attributes]
        r.unset("k")
        second = [a.qname() for a in r.attributes]
        return first == ["p:k"] and second == ["p:k"], "%r then %r" % (first, second)
    probe("C19:unset-unprefixed-removes-prefixed",
          "unset('k') on <r p:k='1' k='2'/> must remove k, and nothing when only p:k is left", unset_unprefixed)

    def prune_parent():
        r, p, q = Element("r"), Element("p"), Element("q")
        q.setText("t")
        r.append([p, q])
        r.prune()
        return (p.parent is None and q.parent is r and len(r.children) == 1 and r.children[0] is q,
                "pruned.parent is None: %s, %s" % (p.parent is None, r.plain()))
    probe("C19:prune-leaves-stale-parent-link",
          "a node pruned away from <r><p/><q>t</q></r> must not keep its parent link", prune_parent)

    def setitem_parent():
        r, p, q = Element("r"), Element("p"), Element("q")
        r.append(p)
        r[0] = q
        return (q.parent is r and [c is x for c, x in zip(r.children, (q, p))] == [True, True],
                "%s, q.parent is r: %s" % (r.plain(), q.parent is r))
    probe("C19:setitem-without-parent-link", "r[0] = q on <r><p/></r> must give q its parent link", setitem_parent)

    def one_step_slash():
        r, p, p2 = Element("r"), Element("p"), Element("p")
        r.append([p, Element("x"), p2])
        a, b = r.childrenAtPath("/p"), r.childrenAtPath("p/")
        return ([x is y for x, y in zip(a, (p, p2))] == [True, True] and len(a) == 2
                and [x is y for x, y in zip(b, (p, p2))] == [True, True] and len(b) == 2,
                "%d and %d children found" % (len(a), len(b)))
    probe("C19:childrenAtPath-one-step-with-slash",
          "childrenAtPath('/p') and ('p/') on <r><p/><x/><p/></r> must return both p", one_step_slash)

    def remove_foreign():
        r, p, q, c = Element("r"), Element("p"), Element("q"), Element("c")
        r.append([p, q])
        q.append(c)
        got = p.remove(c)
        return (got is None and c.parent is q and len(q.children) == 1 and q.children[0] is c,
                "%s, returned %r" % (r.plain(), got))
    probe("C19:remove-detaches-foreign-child",
          "p.remove(c) with c a child of q, in <r><p/><q><c/></q></r>, must leave c where it is", remove_foreign)
    return back


def known_finding_probes():
    """Directed instances of the three departures recorded as KNOWN findings (kept in the
    model, outside the reference's domain): [(key, what)] for those observed."""
    from suds.sax.element import Element
    seen = []
    try:
        r, x, a, b = Element("r"), Element("x"), Element("a"), Element("b")
        r.append([x, a, b])
        r.replaceChild(a, x)
        if not (len(r.children) == 2 and r.children[0] is x and r.children[1] is b):
            seen.append(("C19:replaceChild-content-is-earlier-sibling",
                         "r.replaceChild(a, x) on <r><x/><a/><b/></r>, x an earlier sibling of a, gives %s instead "
                         "of <r><x/><b/></r>: the position is computed before the content is detached" % r.plain()))
    except Exception:     # noqa
        pass
    try:
        r, p, q, c = Element("r"), Element("p"), Element("q"), Element("c")
        r.append([p, q])
        q.append(c)
        p.append(c)
        if any(k is c for k in q.children):
            seen.append(("C19:append-does-not-detach",
                         "p.append(c) with c still a child of q gives %s: c is listed under both and points to p "
                         "(insert and p[i] = c behave alike)" % r.plain()))
    except Exception:     # noqa
        pass
    try:
        r, a = Element("r"), Element("a")
        r.addPrefix("q", "u")
        r.append(a)
        a.set("q:x", "1")
        c = a.clone()
        if a.attributes[0].namespace()[1] != c.attributes[0].namespace()[1]:
            seen.append(("C19:clone-loses-inherited-attribute-prefix",
                         "the clone of <a q:x='1'/> under <r xmlns:q='u'> is %s: its attribute q:x is in namespace %r, "
                         "the original's in %r" % (c.plain(), c.attributes[0].namespace()[1],
                                                   a.attributes[0].namespace()[1])))
    except Exception:     # noqa
        pass
    return seen


def probes():
    """Other anchored behaviour, recorded in the evidence (not verdicts)."""
    from suds.sax.element import Element
    from suds.sax.document import Document
    out = {}

    def rec(name, f):
        try:
            with deadline(5.0):
                out[name] = f()
        except Stuck:
            out[name] = "does not return"
        except Exception as e:     # noqa
            out[name] = "exception " + repr(e)

    def earlier_sibling():
        r = Element("r")
        x, a, b = Element("x"), Element("a"), Element("b")
        r.append([x, a, b])
        r.replaceChild(a, x)
        return r.plain()
    rec("replaceChild(a, earlier sibling x) on <r><x/><a/><b/></r>", earlier_sibling)

    def remove_nonchild():
        r, p, q, c = Element("r"), Element("p"), Element("q"), Element("c")
        r.append([p, q])
        q.append(c)
        p.remove(c)
        return r.plain()
    rec("p.remove(c) where c is a child of q, in <r><p/><q><c/></q></r>", remove_nonchild)

    def append_attached():
        r, p, q, c = Element("r"), Element("p"), Element("q"), Element("c")
        r.append([p, q])
        q.append(c)
        p.append(c)
        return r.plain()
    rec("p.append(c) where c is still a child of q", append_attached)

    def prune_parent():
        r, p = Element("r"), Element("p")
        r.append(p)
        r.prune()
        return "pruned node keeps parent: %s" % (p.parent is r)
    rec("prune leaves the parent link of the pruned node", prune_parent)

    def setitem():
        r, p, q = Element("r"), Element("p"), Element("q")
        r.append(p)
        r[0] = q
        return "%s parent set: %s" % (r.plain(), q.parent is r)
    rec("r[0] = q", setitem)

    def paths():
        r, p = Element("r"), Element("p")
        r.append(p)
        return "childrenAtPath('/p')=%d childAtPath('/p') found=%s" % (
            len(r.childrenAtPath("/p")), r.childAtPath("/p") is p)
    rec("one-step path with a slash", paths)

    def set_unprefixed():
        r = Element("r")
        r.addPrefix("p", "u")
        r.set("p:x", "1")
        r.set("x", "2")
        return r.plain()
    rec("set('x') after set('p:x')", set_unprefixed)

    def clone_attr_prefix():
        r, a = Element("r"), Element("a")
        r.addPrefix("q", "u")
        r.append(a)
        a.set("q:x", "1")
        return a.clone().plain()
    rec("clone of <a q:x='1'/> whose prefix q is declared on the parent", clone_attr_prefix)

    def document():
        r = Element("p:r")
        r.addPrefix("p", "u")
        d = Document(r)
        return "getChild('r')=%s getChild('q:r')=%s childAtPath('/r')=%s childrenAtPath('r')=%d getChildren()=%d" % (
            d.getChild("r") is r, d.getChild("q:r") is r, d.childAtPath("/r") is r,
            len(d.childrenAtPath("r")), len(d.getChildren()))
    rec("Document lookups", document)

    def document_empty_path():
        return repr(Document(Element("r")).childAtPath(""))
    rec("Document.childAtPath('')", document_empty_path)

    def multiref_same_names():
        import suds.client     # noqa: completes the package (suds.metrics)
        from suds.bindings.multiref import MultiRef
        from suds.sax.parser import Parser
        xml = ('<b xmlns:e="http://schemas.xmlsoap.org/soap/encoding/">'
               '<r><a href="#1"/><a href="#2"/><a href="#1"/></r>'
               '<m id="1" e:root="0"><v>one</v></m><m id="2" e:root="0"><v>two</v></m></b>')
        body = Parser().parse(string=xml.encode()).root()
        MultiRef().process(body)
        return body.plain()
    rec("MultiRef.process with repeated sibling names", multiref_same_names)
    return out


def check_internal_users(ck):
    """doctor.Import.apply / wsdl Import.import_schema insert exactly one node at
    the front and leave the rest untouched (identity of every old child kept)."""
    from suds.sax.element import Element
    from suds.xsd.doctor import Import
    bad = []
    for n in range(0, 4):
        root = Element("schema", ns=("xs", "http://www.w3.org/2001/XMLSchema"))
        root.set("targetNamespace", "urn:t")
        kids = [Element("import", ns=("xs", "http://www.w3.org/2001/XMLSchema")) for _ in range(n)]
        for j, k in enumerate(kids):
            k.set("namespace", "urn:n%d" % j)
            root.append(k)
        imp = Import("urn:new", "loc")
        try:
            imp.apply(root)
            ok = (len(root.children) == n + 1 and all(a is b for a, b in zip(root.children[1:], kids))
                  and root.children[0].get("namespace") == "urn:new"
                  and root.children[0].parent is root and all(k.parent is root for k in kids))
            imp2 = Import("urn:n0", "loc")
            before = list(root.children)
            imp2.apply(root)
            if n > 0:
                ok = ok and len(root.children) == len(before) and all(a is b for a, b in zip(root.children, before))
        except Exception as e:     # noqa
            ok = False
        ck.seen(("doctor-import", n), nontrivial=True)
        ck.count("internal:doctor.Import.apply")
        if not ok:
            bad.append(n)
    return bad


# ---------------------------------------------------------------------------

# ---------------------------------------------------------------------------
# the internal users of tree surgery (coq/C19/Users.v), driven like the operations
# ---------------------------------------------------------------------------

PRE_U = "From SV Require Import Lib.Base C19.Model C19.Users."
XSD_URI = "http://www.w3.org/2001/XMLSchema"
WSDL_URI = "http://schemas.xmlsoap.org/wsdl/"


class SkipCase(Exception):
    pass


def apply_call(reg, call):
    """Run one internal-user call on the real objects -> (canonical result, Coq term of the call)"""
    o = reg.objs
    k = call[0]

    def adopt(parent):
        # a node the callee created itself (always inserted in front)
        if parent.children and reg.idof(parent.children[0]) == 999999:
            reg.add(parent.children[0])          # (its children, if any, are nodes already held)

    if k == "importApply":
        from suds.xsd.doctor import Import
        _, root, ns, loc = call
        term = "(UImportApply %d%%N %s %s)" % (root, cstr(ns), c_ostr(loc))
        try:
            Import(ns, loc).apply(o[root])
            adopt(o[root])
            return ("RNone",), term
        except Exception:     # noqa
            return ("RErr",), term
    if k == "importSchema":
        import suds.wsdl
        _, defroot, types_spec, schema = call
        # types_spec: list of (types root id, is the importer's own); the callee must take the LAST own one
        own = [t for t, mine in types_spec if mine]
        term = "(UImportSchema %d%%N %s %d%%N)" % (defroot, c_oid(own[-1] if own else None), schema)
        try:
            class Defs(object):
                pass
            d, other, dd = Defs(), Defs(), Defs()
            d.root, d.types = o[defroot], []
            for t, mine in types_spec:
                d.types.append(suds.wsdl.Types(o[t], d if mine else other))
            dd.root = o[schema]
            imp = object.__new__(suds.wsdl.Import)
            suds.wsdl.Import.import_schema(imp, d, dd)
            adopt(o[defroot])
            return ("RNone",), term
        except Exception:     # noqa
            return ("RErr",), term
    if k == "replaceRefs":
        from suds.bindings.multiref import MultiRef
        _, body, node = call
        try:
            mr = MultiRef()
            mr.build_catalog(o[body])
            href = o[node].getAttribute("href")
            ref = mr.catalog.get(href.getValue()) if href is not None else None
            refid = reg.idof(ref)
        except Exception:     # noqa
            return ("RErr",), "(UReplaceRefs %d%%N None)" % node
        if refid is not None and refid != 999999 and reaches(reg, refid, node):
            # an href to the node itself or to one of its ancestors would tie a loop
            # (plain() and MultiRef.update would not terminate): not driven
            raise SkipCase()
        term = "(UReplaceRefs %d%%N %s)" % (node, c_oid(refid))
        try:
            mr.replace_references(o[node])
            return ("RNone",), term
        except Exception:     # noqa
            return ("RErr",), term
    from suds.sax.document import Document
    _, r, arg = call
    doc = Document(o[r]) if r is not None else Document()
    ctor = {"docGetChild": "UDocGetChild", "docChildAt": "UDocChildAt", "docChildrenAt": "UDocChildrenAt"}[k]
    term = "(%s %s %s)" % (ctor, c_oid(r), cstr(arg))
    try:
        if doc.root() is not (o[r] if r is not None else None):
            return ("RErr",), term
        if k == "docGetChild":
            return _nodes(reg, doc.getChild(arg)), term
        if k == "docChildAt":
            return _nodes(reg, doc.childAtPath(arg)), term
        return _nodes(reg, doc.childrenAtPath(arg)), term
    except Exception:     # noqa
        return ("RErr",), term


def run_user_case(setup, call):
    """-> (Coq term of the case, observation) or None when the implementation got stuck"""
    reg = Reg()
    try:
        with deadline(10.0):
            for op in setup:
                apply_op(reg, op)
            base = (dump(reg), plains(reg))
            res, term = apply_call(reg, call)
            ob = (res, dump(reg), plains(reg))
    except Stuck:
        note_stuck(setup, [])
        return None
    except SkipCase:
        return None
    return term, ob, base


def c_ucase(quirk, setup, base, term, ob):
    return "(mkU %s %s %s %s %s)" % (quirk, c_setup(setup), c_base(base), term, c_obs(deltas([ob], base)[0]))


class Builder(object):
    """setup operations with running ids"""

    def __init__(self):
        self.ops = []
        self.n = 0

    def new(self, qname, ns=None, parent=None, attrs=(), text=None, binds=()):
        i = self.n
        self.n += 1
        self.ops.append(("new", qname, ns))
        for p, u in binds:
            self.ops.append(("addprefix", i, p, u))
        for a, v in attrs:
            self.ops.append(("addattr", i, a, v))
        if text is not None:
            self.ops.append(("settext", i, text))
        if parent is not None:
            self.ops.append(("append", parent, [i], False))
        return i


def gen_import_apply(rng):
    b = Builder()
    tns = rng.choice([None, "t0", "n1"])
    root = b.new("schema", ("p", "xs", XSD_URI), attrs=[("targetNamespace", tns)] if tns else [])
    for _ in range(rng.choice([0, 1, 2, 3, 4])):
        kind = rng.random()
        if kind < 0.5:
            attrs = [("namespace", rng.choice(["n1", "n2", "n3"]))] if rng.random() < 0.85 else []
            if rng.random() < 0.3:
                attrs.append(("schemaLocation", "l0"))
            b.new(rng.choice(["import", "import", "q:import"]), rng.choice([("p", "xs", XSD_URI), None]), root, attrs)
        elif kind < 0.7:
            b.new("include", ("p", "xs", XSD_URI), root, [("namespace", rng.choice(["n1", "n2"]))])
        else:
            e = b.new("element", ("p", "xs", XSD_URI), root, [("name", rng.choice(["a", "a", "b"]))])
            if rng.random() < 0.4:
                b.new("import", None, e, [("namespace", rng.choice(["n1", "n2"]))])     # not a direct child
    return b.ops, ("importApply", root, rng.choice(["n1", "n2", "n3", "n4", "t0"]), rng.choice([None, "loc1"]))


def gen_import_schema(rng):
    b = Builder()
    defroot = b.new("definitions", ("d", WSDL_URI), binds=[("xs", XSD_URI)])
    types_spec = []
    for _ in range(rng.choice([0, 1, 2, 3])):
        kind = rng.random()
        if kind < 0.55:
            t = b.new("types", ("d", WSDL_URI), defroot if rng.random() < 0.8 else None)
            for _ in range(rng.choice([0, 1, 2])):
                b.new("schema", ("p", "xs", XSD_URI), t, [("targetNamespace", rng.choice(["n1", "n2"]))])
            types_spec.append((t, rng.random() < 0.6))
        else:
            b.new(rng.choice(["message", "portType", "import"]), None, defroot, [("name", rng.choice(["a", "b"]))])
    schema = b.new("schema", ("p", "xs", XSD_URI), None, [("targetNamespace", "n9")])
    for _ in range(rng.choice([0, 1, 2])):
        b.new("element", ("p", "xs", XSD_URI), schema, [("name", rng.choice(["a", "a", "b"]))])
    return b.ops, ("importSchema", defroot, types_spec, schema)


def gen_replace_refs(rng):
    b = Builder()
    body = b.new("Body", None, binds=[("e", "enc")] if rng.random() < 0.7 else [])
    ids = ["i1", "i2", "i3"]
    referrers, multirefs = [], []

    def referrer(parent):
        attrs = []
        if rng.random() < 0.3:
            attrs.append((rng.choice(["k", "p:type"]), "v"))
        if rng.random() < 0.88:
            attrs.append((rng.choice(["href", "href", "href", "x:href"]), "#" + rng.choice(ids + ["zz"])))
        if rng.random() < 0.3:
            attrs.append((rng.choice(["m", "href"]), "#i2"))
        n = b.new(rng.choice(["a", "a", "b"]), rng.choice([None, None, ("d", "u1")]), parent, attrs,
                  rng.choice([None, None, "old"]))
        if rng.random() < 0.3:
            b.new("c", None, n)                         # the referring node has children of its own
        referrers.append(n)
        return n

    def multiref(i):
        attrs = [("id", i)]
        if rng.random() < 0.5:
            attrs.insert(rng.choice([0, 1]), (rng.choice(["e:root", "k", "q:type"]), rng.choice(["0", "v"])))
        if rng.random() < 0.2:
            attrs.append(("id", "dup"))
        m = b.new(rng.choice(["m", "multiRef", "a"]), rng.choice([None, ("d", "u2")]), body, attrs,
                  rng.choice([None, "t1", ""]),
                  [("q", rng.choice(["u2", "u3"]))] if rng.random() < 0.5 else [])
        for _ in range(rng.choice([0, 1, 2, 3])):
            c = b.new(rng.choice(["v", "v", "w", "q:v"]), None, m, text=rng.choice([None, "x1", "x2"]))
            if rng.random() < 0.25:
                referrer(c)                            # an href inside ANOTHER multiref's content
        multirefs.append(m)

    order = ["r", "r", "m", "m", "r", "m"]
    rng.shuffle(order)
    k = 0
    for what in order[:rng.choice([3, 4, 5, 6])]:
        if what == "r":
            n = referrer(body)
            if rng.random() < 0.3:
                referrer(n)
        elif k < len(ids):
            multiref(ids[k])
            k += 1
    if not referrers:
        referrer(body)
    return b.ops, ("replaceRefs", body, rng.choice(referrers))


DOC_PATHS = ["r", "/r", "p:r", "/p:r", "q:r", "a", "/a", "r/a", "/r/a", "/r/a/b", "r/a/p:b", "/r/p:a/p:b", "r/", "/r/",
             "r//a", "/", "", "x", "/x/a", "r/a/q:b", "/r/a/b/c", "a/a", "/a/b", "zz:r/a", "r/b"]


def gen_document(rng):
    if rng.random() < 0.5:
        setup, _ = gen_nspath_history(rng, 0)
    else:
        setup = gen_tree(rng)
    if rng.random() < 0.06:
        r = None
    else:
        r = 0 if rng.random() < 0.8 else 1
    kind = rng.choice(["docChildAt", "docChildAt", "docChildrenAt", "docChildrenAt", "docGetChild"])
    arg = rng.choice(DOC_PATHS) if kind != "docGetChild" else rng.choice(["r", "p:r", "q:r", "a", "p:a", "zz:r", ""])
    return setup, (kind, r, arg)


USER_LABEL = {"importApply": "xsd.doctor.Import.apply", "importSchema": "wsdl.Import.import_schema",
              "replaceRefs": "MultiRef.replace_references", "docGetChild": "Document.getChild",
              "docChildAt": "Document.childAtPath", "docChildrenAt": "Document.childrenAtPath"}
USER_KEY = {"importApply": "C19:doctor-import-disturbs-siblings", "importSchema": "C19:import_schema-departs-from-reference",
            "replaceRefs": "C19:replace_references-departs-from-frame", "docGetChild": "C19:Document-lookup-departs-from-root",
            "docChildAt": "C19:Document-lookup-departs-from-root", "docChildrenAt": "C19:Document-lookup-departs-from-root"}


def run_users(ck, quirk):
    """generate, run and evaluate the internal-user cases -> list of disagreements with the model only"""
    rng = ck.rng
    f = 8 if ck.tier == "thorough" else 1
    plan = [(gen_import_apply, 120 * f), (gen_import_schema, 100 * f), (gen_replace_refs, 180 * f),
            (gen_document, 220 * f)]
    cases, terms = [], []
    for gen, cnt in plan:
        for _ in range(cnt):
            setup, call = gen(rng)
            try:
                r = run_user_case(setup, call)
            except GiveUp as e:
                ck.failing_input("C19:call-does-not-return",
                                 "calls into suds do not return (CPU-time bound hit three times); last: %r" % (call,),
                                 dict(describe(setup, []), kind="user-call", call=list(call)))
                r = None
            if r is None:
                continue
            term, ob, base = r
            cases.append((setup, call, ob, base))
            terms.append(c_ucase(quirk, setup, base, term, ob))
            ck.seen(("user", tuple(map(repr, setup)), repr(call)), nontrivial=True)
            ck.count("user:" + USER_LABEL[call[0]])
            if ob[0] == ("RErr",):
                ck.count("user-results-that-are-exceptions")
    preds = ["users_agrees", "users_spec_ok", "users_inside"]
    res = ck.run_cases("users", PRE_U, "ucase", terms, preds, shard=60)
    bad_model, bad_spec = set(res[preds[0]]), set(res[preds[1]])
    ck.extra["internal_user_calls"] = len(terms)
    ck.extra["internal_user_calls_inside_the_reference_domain"] = len(terms) - len(res[preds[2]])
    ck.extra["internal_user_calls_failing_the_specification"] = len(bad_spec)

    def size(i):
        return len(cases[i][0])
    seen_keys = set()
    for i in sorted(bad_spec, key=size):
        setup, call, ob, base = cases[i]
        key = USER_KEY[call[0]]
        if key in seen_keys:
            continue
        seen_keys.add(key)
        ck.failing_input(key, "%s%r on the tree built by the setup does not leave the tree its specification "
                         "describes (what is written / what stays untouched): result %r, plain %r"
                         % (USER_LABEL[call[0]], tuple(call[1:]), ob[0], ob[2][:2]),
                         dict(describe(setup, []), kind="user-call", call=list(call),
                              observed={"result": ob[0], "plain": ob[2]}))
    out = []
    for i in sorted(bad_model - bad_spec, key=size)[:1]:
        setup, call, ob, base = cases[i]
        out.append(("model/implementation correspondence of C19 no longer holds for %s%r"
                    % (USER_LABEL[call[0]], tuple(call[1:])),
                    dict(describe(setup, []), kind="user-call", call=list(call),
                         model_disagreements=len(bad_model - bad_spec),
                         observed={"result": ob[0], "plain": ob[2]})))
    return out



def describe(setup, steps, upto=None):
    return {"setup": [list(o) for o in setup],
            "steps": [list(o) for o in (steps if upto is None else steps[:upto + 1])]}


def first_bad_step(ck, pre, quirk, setup, steps, obs, base, pred):
    """shortest prefix of the history on which the predicate fails"""
    for n in range(1, len(steps) + 1):
        term = c_case(quirk, setup, steps[:n], obs[:n], base)
        try:
            res = ck.run_cases("min", pre, "ccase", [term], [pred], shard=1)
        except RuntimeError:
            return None
        if res[pred]:
            return n - 1
    return None


def run(ck):
    common.force_repo_path()
    import logging
    logging.disable(logging.CRITICAL)
    ck.trusted = [
        "Coq 8.16.1 kernel + vm_compute (correspondence evaluation); no native_compute",
        "correspondence harness harness/c19.py: the registry mapping Element objects to allocation numbers by "
        "identity, the dump of every object's fields and links, the generators",
        "modelled, not verified: CPython list (append/insert/del/index by identity, remove by ==), dict insertion "
        "order, str.split; sax.Text/Encoder taken as the identity on the generated alphabet [a-z0-9] "
        "(escaping is C04's subject)",
    ]
    ck.notes = [
        "identity of an Element = its allocation number (order of construction; Element.clone builds the new "
        "root first and then the children in order, which the harness reads back by walking the clone)",
        "the reference is partial: nothing is claimed for an edit that (a) appends/inserts/index-assigns a node "
        "that still has a parent (known finding C19:append-does-not-detach) or into its own subtree, (b) replaces "
        "a child by itself, by a sibling under the same parent (known finding "
        "C19:replaceChild-content-is-earlier-sibling), by an ancestor or by repeated nodes, (c) unsets a PREFIXED "
        "attribute name or removes an attribute object when an earlier attribute of the element has the same local "
        "name, (d) uses an empty path in childrenAtPath; the model "
        "still follows the code there and c19_agrees still compares it with the implementation; after such an "
        "edit c19_spec_ok goes on from the implementation's own state when that state is a forest (no node in "
        "two child lists), so later edits of the history are again checked against the reference",
        "intermediate path steps take the FIRST matching child (documented behaviour of childAtPath), a name "
        "without prefix matches in any namespace (the namespace is an optional filter)",
        "Attribute objects are modelled as positions in the element's attribute list",
        "internal users (coq/C19/Users.v): xsd.doctor.Import.apply (default TnsFilter), wsdl.Import.import_schema "
        "(which Types object is the importer's own is decided by the harness from the objects it builds; the model "
        "gets its root), MultiRef.replace_references (the referenced node is the one the real catalog yields; "
        "attribute OBJECTS aliased into the referring node are modelled as copies; an href to the node itself or to "
        "one of its ancestors, which ties a loop, is not driven) and Document getChild/childAtPath/childrenAtPath "
        "are programs over the modelled operations; MultiRef.process/update as a whole, Document.getChildren and "
        "Document.str/plain are not modelled",
        "Element.__setitem__, promotePrefixes/refitPrefixes/normalizePrefixes, trim, setnil are not modelled "
        "(a probe of __setitem__ is recorded in coverage.probes)",
    ]
    proof_ok = ck.prove(THEOREMS)

    def bounded(f, default):
        try:
            with deadline(5.0):
                return f()
        except Stuck:
            return default
    quirk = bounded(probe_attr_mode, "AQuirk")
    ck.extra["attribute_removal_mode_probed"] = quirk
    if quirk == "AQuirk":
        # repaired in 8e035ad: the model would follow the old behaviour, but it is a defect
        ck.failing_input(KEY_ATTR_EQ,
                         "Element.remove(attribute) on <r n:n='1' q:n='2'/> given the attribute q:n removes n:n "
                         "instead: list.remove goes by Attribute.__eq__, which compares self.prefix with rhs.name "
                         "again", {"kind": "unset-probe", "observed": "mode AQuirk", "expected": ["n:n"]})
    left = bounded(probe_unset_wrong_attribute, ["n:n"])
    ck.seen(("probe", "unset-q:n"), nontrivial=True)
    ck.count("probe:unset-among-same-local-names")
    if left != ["n:n"]:
        what = ("Element.unset('q:n') on <r n:n='1' q:n='2'/> (n, q bound to different namespaces) leaves %r: "
                "attributes.remove() goes by Attribute.__eq__, which compares self.prefix with rhs.name, so the "
                "EARLIER attribute n:n is removed instead of the one named" % (left,))
        ck.failing_input(KEY_ATTR_EQ, what, {"kind": "unset-probe", "observed": left, "expected": ["n:n"]})
    for key, what, observed in bounded(regression_probes, []):
        ck.failing_input(key, what + " (repaired earlier, now back): " + observed,
                         {"kind": "regression-probe", "key": key, "observed": observed})
    for key, what in bounded(known_finding_probes, []):
        ck.failing_input(key, what, {"kind": "known-probe", "key": key})
    ck.seen(("probe", "known-findings"), nontrivial=True)
    ck.seen(("probe", "regressions"), nontrivial=True)
    ck.count("probe:repaired-defects")
    ck.extra["probes"] = probes()
    bad_internal = bounded(lambda: check_internal_users(ck), [])
    if bad_internal:
        ck.failing_input("C19:doctor-import-disturbs-siblings",
                         "xsd.doctor.Import.apply on a schema with %d imports does not insert exactly one node "
                         "in front, leaving the others in place" % bad_internal[0],
                         {"kind": "doctor", "n": bad_internal[0]})

    try:
        groups = generate(ck)
    except GiveUp as e:
        groups = []
        ck.failing_input("C19:call-does-not-return",
                         "calls into suds.sax.element do not return (CPU-time bound hit three times); last: %r"
                         % (e.steps[-1:],), dict(describe(e.setup, e.steps), kind="history"))
    # the small tree's setup and the picture after it are shared by thousands of cases:
    # defined once in the preamble (from what the implementation shows now)
    try:
        _, _, small_base = run_history(SMALL_SETUP, [])
    except GiveUp:
        small_base = ([], [])
    pre = (PRE + "\nImport ListNotations.\nDefinition small_setup : list op := %s.\n"
           "Definition small_base : view := %s." % (c_setup(SMALL_SETUP), c_base(small_base)))
    terms, keep = [], []
    for grp, setup, steps in groups:
        try:
            obs, done, base = run_history(setup, steps)
        except GiveUp as e:
            ck.failing_input("C19:call-does-not-return",
                             "calls into suds.sax.element do not return (CPU-time bound hit three times); "
                             "last: %r" % (e.steps[-1:],), dict(describe(e.setup, e.steps), kind="history"))
            break
        if not done:
            continue
        attr_links = all(ok for ob in obs for c in ob[1] for (_, _, _, ok) in c[6])
        if not attr_links:
            ck.failing_input("C19:attribute-parent-link",
                             "an attribute's parent link does not point to the element holding it",
                             dict(describe(setup, done), kind="history"))
        shared = ("small_setup", "small_base") if setup is SMALL_SETUP and base == small_base else None
        terms.append(c_case(quirk, setup, done, obs, base, shared))
        keep.append((grp, setup, done, obs, base))
        edits = [o for o in done if o[0] not in ("getChild", "getChildren", "childAtPath", "childrenAtPath",
                                                 "getAttr", "namespace")]
        ck.seen((tuple(map(repr, setup)), tuple(map(repr, done))), nontrivial=bool(edits))
        ck.count("group:" + grp)
        ck.count("steps", len(done))
        for o in done:
            ck.count("op:" + o[0])
        ck.count("results-that-are-exceptions", sum(1 for ob in obs if ob[0] == ("RErr",)))
    for i in (0, len(keep) // 2, len(keep) - 1):
        grp, setup, done, obs, base = keep[i]
        ck.sample({"group": grp, "setup_ops": len(setup), "steps": [list(o) for o in done[:8]],
                   "plain_after_last_step": obs[-1][2][:2]})
    preds = ["c19_agrees", "c19_spec_ok",
             "c19_inside"]
    nbig = sum(1 for k in keep if k[0].startswith("random"))          # generate() puts them first
    res = ck.run_cases("random", pre, "ccase", terms[:nbig], preds, shard=40)
    res2 = ck.run_cases("small", pre, "ccase", terms[nbig:], preds, shard=300)
    for pr in preds:
        res[pr] = res[pr] + [nbig + i for i in res2[pr]]
    bad_model, bad_spec = set(res[preds[0]]), set(res[preds[1]])
    ck.extra["histories_fully_inside_the_reference_domain"] = len(terms) - len(res[preds[2]])
    ck.extra["histories_leaving_the_reference_domain"] = len(res[preds[2]])
    ck.extra["cases_failing_the_specification"] = len(bad_spec)

    def size(i):
        return (len(keep[i][2]), len(keep[i][1]))
    for i in sorted(bad_spec, key=size)[:1]:
        grp, setup, done, obs, base = keep[i]
        n = first_bad_step(ck, pre, quirk, setup, done, obs, base, "c19_spec_ok")
        upto = n if n is not None else len(done) - 1
        op = done[upto]
        if upto == 0:
            # is it this step, or did the SETUP already build another tree?  Replay the setup one
            # operation at a time as observed steps (from nothing) and take the first that departs.
            try:
                obs0, done0, base0 = run_history([], setup)
                k = first_bad_step(ck, pre, quirk, [], done0, obs0, base0, "c19_spec_ok")
            except GiveUp:
                k = None
            if k is not None:
                setup, done, obs, upto, op = [], done0, obs0, k, done0[k]
        ck.failing_input(
            "C19:%s-departs-from-reference" % op[0],
            "after %s (step %d of the history) the tree is not the one obtained by applying the edits to the very "
            "nodes given: result %r, plain %r" % (op, upto + 1, obs[upto][0], obs[upto][2][:2]),
            dict(describe(setup, done, upto), kind="history", group=grp,
                 observed={"result": obs[upto][0], "plain": obs[upto][2]}))
    ck.rule = ("histories run on real suds Element objects, observed after EVERY step (returned value; parent, "
               "children, prefix, name, expns, nsprefixes, attributes, text of every element held; plain() of "
               "every parentless element). (1) over the small tree r[a[c] a[c] b] + parentless a, b[c]: every "
               "history of length 1 from a %d-operation catalogue and of length 2 from its %d-operation core "
               "(thorough: length 2 / 3 / 4 from %d / %d / %d operations), each followed by three lookups; quick "
               % (len(SMALL_OPS_CORE + SMALL_OPS_MORE), len(SMALL_OPS_CORE), len(SMALL_OPS_CORE + SMALL_OPS_MORE),
                  len(SMALL_OPS_CORE), len(SMALL_OPS_CORE[::2])) +
               "also samples lengths 3 and 4; (2) random trees of depth <= 4, <= 14 nodes, sibling names drawn "
               "from a,a,a,b,b,c, prefixes p/q bound to u1..u3 at different levels, default namespaces, "
               "attributes and text, plus parentless spare nodes, x random histories of length 25, 12 and 5 "
               "(plus 160 / 1500 trees built for prefixed paths: p, q declared only on or re-bound at the "
               "intermediate nodes named a, whose children share a local name across unqualified / default / "
               "prefixed namespaces in random order, x 12 steps of childAtPath / childrenAtPath / getChild with "
               "1-3 step prefixed paths from several start nodes, interleaved with re-bindings and detaches) "
               "(3) internal users, one call each after a generated setup, compared with the model's program and "
               "with the call's frame / reference: Import.apply on schemas with 0-4 children among xs:import / "
               "import / q:import / include / element (imports with and without namespace, nested imports), "
               "namespace equal to an existing import, to the targetNamespace, or new, with/without location; "
               "import_schema on definitions with 0-3 types elements, own or foreign, attached or not; "
               "replace_references on bodies of referrers (href, x:href, second href, no href, unresolved, own "
               "children, nested in other multirefs) and multiRef nodes (id first or second, duplicate id, text / "
               "empty text / none, own prefix declarations, 0-3 children with repeated names); Document lookups "
               "with 25 paths on the trees of (2).  "
               "over all 25 operations (half of the histories contain, near the end, one edit deliberately outside the reference's domain).  distinct = distinct "
               "(setup, history); non-trivial = the history contains at least one edit")
    user_model_disagreements = run_users(ck, quirk)
    ck.exhaustive = False
    if not proof_ok:
        ck.unproved("proof obligation of C19 no longer checks: " + ck.proof_log[-1500:],
                    {"theorems": THEOREMS, "log": ck.proof_log[-3000:]})
    only_model = sorted(bad_model - bad_spec, key=size)
    if only_model:
        i = only_model[0]
        grp, setup, done, obs, base = keep[i]
        n = first_bad_step(ck, pre, quirk, setup, done, obs, base, "c19_agrees")
        upto = n if n is not None else len(done) - 1
        ck.unproved("model/implementation correspondence of C19 no longer holds (no departure from the reference "
                    "was found, but the implementation is no longer the algorithm the theorems are about): "
                    "step %d, %s" % (upto + 1, done[upto]),
                    dict(describe(setup, done, upto), kind="history", group=grp,
                         model_disagreements=len(only_model),
                         observed={"result": obs[upto][0], "plain": obs[upto][2]}))
    for what, payload in user_model_disagreements:
        ck.unproved(what + " (the call meets its specification, but the implementation is no longer the program "
                    "the theorems are about)", payload)


def replay(ck, payload):
    common.force_repo_path()
    print(payload.get("what"))
    kind = payload.get("kind")
    if kind == "unset-probe":
        print("attributes left now:", probe_unset_wrong_attribute(), " expected:", payload.get("expected"))
        return 0
    if kind == "known-probe":
        print("known findings observed now:", [k for k, _ in known_finding_probes()])
        return 0
    if kind == "regression-probe":
        print("repaired defects that are back now:", [k for k, _, _ in regression_probes()])
        return 0
    if kind == "doctor":
        print("xsd.doctor.Import.apply check failing for n =", check_internal_users(ck))
        return 0
    if kind == "user-call":
        setup = [tuple(o) for o in payload["setup"]]
        call = tuple(payload["call"])
        try:
            r = run_user_case(setup, call)
        except GiveUp:
            r = None
        if r is None:
            print("the call does not return")
            return 0
        term, ob, base = r
        print(USER_LABEL[call[0]], call[1:], "->", ob[0])
        for i, t in base[1]:
            print("     before: plain(%d) = %s" % (i, t))
        for i, t in ob[2]:
            print("     after:  plain(%d) = %s" % (i, t))
        return 0
    if kind == "history":
        setup = [tuple(o) for o in payload["setup"]]
        steps = [tuple(o) for o in payload["steps"]]
        try:
            obs, done, _ = run_history(setup, steps)
        except GiveUp:
            print("calls into suds.sax.element do not return")
            return 0
        for o, ob in zip(done, obs):
            print(o, "->", ob[0])
            for i, s in ob[2]:
                print("     plain(%d) = %s" % (i, s))
        was = payload.get("observed")
        if was and obs:
            print("last step same as recorded:", [list(x) if isinstance(x, tuple) else x for x in obs[-1][2]]
                  == [list(x) for x in was.get("plain", [])])
        return 0
    print(payload)
    return 0
