"""C06 — XSD built-in values convert exactly and stay lexically valid.

Proof: coq/C06/Props.v (decimal rendering lexical/exact/no-exponent for every
Decimal; half-up rounding, zone offsets, isoformat round trip, day carry for
every field value; the date/time scanner of the model IS the three regular
expressions of suds/sax/date.py, for all strings).  Tie to the code: tables and
the regex ASTs regenerated from suds on every run (tools/tables_c06.py), the
model run against XDecimal/XBoolean/Date/Time/DateTime on generated inputs,
and the Coq regex semantics run against CPython's `re` on the same texts.
"""
import datetime
import decimal
import itertools
import re
from fractions import Fraction

from . import common
from .common import cZ, cbool, cstr, clist, copt

THEOREMS = [
    "decimal_lexical", "decimal_exact", "decimal_no_exponent",
    "bool_roundtrip", "bool_lexical", "bool_reads_all_lexical_forms",
    "time_round_half_up", "scanned_fields_lexical", "zone_exact", "zone_offset",
    "time_roundtrip", "date_roundtrip", "datetime_roundtrip", "datetime_carry", "malformed_raises",
    "regex_matcher_correct", "scanner_is_regex_date", "scanner_is_regex_time", "scanner_is_regex_datetime",
    "scanner_is_python_match",
]

PRE = "From SV Require Import Lib.Base C06.Decimal C06.DateTime C06.Floats."
# the regex cross-check needs the regenerated ASTs and the matcher, NOT the proofs
# (it must still run, and produce witnesses, when the proofs no longer go through)
PRE_RX = ("From SV Require Import Lib.Base C06.Decimal C06.DateTime C06.Regex C06.RegexScan "
          "Gen.C06Tables.")
RX_KIND = {"time": (0, "_RE_TIME"), "date": (1, "_RE_DATE"), "datetime": (2, "_RE_DATETIME")}

KNOWN_PATTERNS = {
    "_PATTERN_DATE": r"^(?P<year>\d{1,})-(?P<month>\d{1,2})-(?P<day>\d{1,2})(?:(?:(?P<tz_sign>[-+])(?P<tz_hour>\d{1,2})(?::(?P<tz_minute>[0-5]?[0-9]))?)|(?P<tz_utc>[Zz]))?$",
    "_PATTERN_TIME": r"^(?P<hour>\d{1,2}):(?P<minute>[0-5]?[0-9]):(?P<second>[0-5]?[0-9])(?:\.(?P<subsecond>\d+))?(?:(?:(?P<tz_sign>[-+])(?P<tz_hour>\d{1,2})(?::(?P<tz_minute>[0-5]?[0-9]))?)|(?P<tz_utc>[Zz]))?$",
    "_PATTERN_DATETIME": r"^(?P<year>\d{1,})-(?P<month>\d{1,2})-(?P<day>\d{1,2})[T ](?P<hour>\d{1,2}):(?P<minute>[0-5]?[0-9]):(?P<second>[0-5]?[0-9])(?:\.(?P<subsecond>\d+))?(?:(?:(?P<tz_sign>[-+])(?P<tz_hour>\d{1,2})(?::(?P<tz_minute>[0-5]?[0-9]))?)|(?P<tz_utc>[Zz]))?$",
}


# ---------------------------------------------------------------------------
# canonical forms
# ---------------------------------------------------------------------------

def c_tz(tz):
    if tz is None:
        return "TzNone"
    off = tz.utcoffset(None)
    mins = off.days * 1440 + off.seconds // 60
    if off.seconds % 60 or off.microseconds:
        return None
    from suds.sax.date import UtcTimezone
    if isinstance(tz, UtcTimezone) or mins == 0:
        return "TzUtc"
    return "(TzFixed %s)" % cZ(mins)


def c_tod(t):
    return "(mkTod %s %s %s %s)" % (cZ(t.hour), cZ(t.minute), cZ(t.second), cZ(t.microsecond))


def c_civil(d):
    return "(mkCivil %s %s %s)" % (cZ(d.year), cZ(d.month), cZ(d.day))


def run_impl(fn, arg):
    """('ok', value) | ('value', msg) | ('other', msg)"""
    try:
        return ("ok", fn(arg))
    except ValueError as e:
        return ("value", repr(e))
    except Exception as e:   # noqa
        return ("other", repr(e))


def c_res(r, conv):
    if r[0] == "ok":
        return "(Ok %s)" % conv(r[1])
    return "ErrValue" if r[0] == "value" else "ErrOther"


# ---------------------------------------------------------------------------
# generators
# ---------------------------------------------------------------------------

def gen_decimals(ck):
    rng = ck.rng
    vals = []
    specials = ["0", "-0", "0.0", "0.00", "-0.000", "1", "-1", "10", "100", "1E+2", "1E-2",
                "1.0", "1.10", "0.1", "0.10", "0.01", "123.456", "-123.456", "1E+30",
                "12E+30", "0.10006E-12", "1E-30", "9999E-4", "1000E-3", "1000E-2", "1200E-2",
                "1200E-5", "5E-1", "50E-1", "0E+5", "0E-5", "-0E-5", "100E-2", "10.0E+1"]
    vals += [decimal.Decimal(s) for s in specials]
    if ck.tier == "thorough":
        # every Decimal with <= 4 significant digits and exponent in [-8, 8]
        for n in range(0, 10000):
            ds = tuple(int(c) for c in str(n))
            for e in range(-8, 9):
                for sign in (0, 1):
                    vals.append(decimal.Decimal((sign, ds, e)))
        nrand = 20000
        ck.exhaustive_note = "all Decimals with <=4 significant digits, exponent -8..8, both signs"
    else:
        for _ in range(2500):
            n = rng.choice([rng.randrange(0, 10), rng.randrange(0, 100), rng.randrange(0, 10000)])
            if rng.random() < 0.3:
                n = n * 10 ** rng.randrange(1, 4) % 10000
            ds = tuple(int(c) for c in str(n))
            vals.append(decimal.Decimal((rng.randrange(2), ds, rng.randrange(-8, 9))))
        nrand = 1500
    for _ in range(nrand):
        nd = rng.choice([1, 2, 3, 5, 8, 13, 21, 34, 60])
        ds = [rng.randrange(10) for _ in range(nd)]
        if ds[0] == 0 and nd > 1:
            ds[0] = rng.randrange(1, 10)
        k = rng.randrange(0, nd + 1) if rng.random() < 0.5 else 0
        for i in range(nd - k, nd):           # runs of trailing zeros
            ds[i] = 0
        if ds[0] == 0 and nd > 1:
            ds = [0]
        e = rng.choice([rng.randrange(-70, 70), -len(ds), -len(ds) + 1, -len(ds) - 1, 0, -1, 1])
        vals.append(decimal.Decimal((rng.randrange(2), tuple(ds), e)))
    return vals


def lexical_time_variants(rng, h, mi, s, frac_digits, tz):
    """Render one abstract time of day in several valid lexical variants.
    tz: None | 'Z' | 'z' | (sign, hh, mm)"""
    outs = []
    for pad in (True, False):
        hh = "%02d" % h if pad else "%d" % h
        mm = "%02d" % mi if pad else "%d" % mi
        ss = "%02d" % s if pad else "%d" % s
        t = "%s:%s:%s" % (hh, mm, ss)
        if frac_digits is not None:
            t += "." + frac_digits
        if tz is None:
            z = ""
        elif tz in ("Z", "z"):
            z = tz
        else:
            sign, zh, zm = tz
            z = rng.choice(["%s%02d:%02d" % (sign, zh, zm), "%s%d:%d" % (sign, zh, zm)])
            if zm == 0 and rng.random() < 0.3:
                z = "%s%02d" % (sign, zh)
        outs.append(t + z)
    return outs


def expected_time(h, mi, s, frac_digits, tz):
    """Independent oracle (exact rational arithmetic): the XSD value rounded
    half-up to microseconds, as ('ok', (h, m, s, us), tzcanon) or 'value'."""
    if h > 23 or mi > 59 or s > 59:
        return None
    x = Fraction(h * 3600 + mi * 60 + s)
    if frac_digits:
        x += Fraction(int(frac_digits), 10 ** len(frac_digits))
    us = (x * 1000000 + Fraction(1, 2)).__floor__()
    carry_day, us = divmod(us, 86400 * 1000000)
    sec, usec = divmod(us, 1000000)
    tzc = None
    if tz is None:
        tzc = "TzNone"
    elif tz in ("Z", "z"):
        tzc = "TzUtc"
    else:
        sign, zh, zm = tz
        if zh >= 24:
            return None
        m = zh * 60 + zm
        tzc = "TzUtc" if m == 0 else "(TzFixed %s)" % cZ(-m if sign == "-" else m)
    return (carry_day, (sec // 3600, (sec // 60) % 60, sec % 60, usec), tzc)


GRID_H = [0, 1, 9, 11, 12, 23]
GRID_M = [0, 1, 30, 59]
GRID_FRAC = [None, "0", "5", "000001", "999999", "9999994", "9999995", "9999999", "0000005",
             "0000004", "123456789012", "4999995", "49999949", "500000", "1", "12", "123",
             "1234", "12345", "1234565", "99999950000", "999999499999"]
GRID_TZ = [None, "Z", "z", ("+", 0, 0), ("-", 0, 0), ("+", 1, 0), ("-", 1, 30), ("+", 14, 0),
           ("-", 12, 0), ("+", 23, 59), ("-", 23, 59), ("+", 5, 45), ("-", 9, 5)]


def gen_time_texts(ck):
    """(text, expectation or None)."""
    rng = ck.rng
    out = []
    combos = list(itertools.product(GRID_H, GRID_M, GRID_M, GRID_FRAC, GRID_TZ))
    if ck.tier != "thorough":
        rng.shuffle(combos)
        keep = combos[:900]
        # always keep the midnight wrap and the boundary roundings
        keep += [c for c in combos if c[0] == 23 and c[1] == 59 and c[2] == 59][:150]
        combos = keep
    for h, mi, s, fr, tz in combos:
        exp = expected_time(h, mi, s, fr, tz)
        for t in lexical_time_variants(rng, h, mi, s, fr, tz):
            out.append((t, exp))
    n = 4000 if ck.tier == "thorough" else 600
    for _ in range(n):
        h, mi, s = rng.randrange(24), rng.randrange(60), rng.randrange(60)
        fr = None
        if rng.random() < 0.8:
            fr = "".join(rng.choice("0123456789") for _ in range(rng.randrange(1, 13)))
            if rng.random() < 0.3:
                fr = "9" * rng.randrange(1, 10) + fr[:3]
        tz = rng.choice([None, "Z", "z", (rng.choice("+-"), rng.randrange(24), rng.randrange(60))])
        exp = expected_time(h, mi, s, fr, tz)
        t = rng.choice(lexical_time_variants(rng, h, mi, s, fr, tz))
        out.append((t, exp))
    return out


DATES = [(1, 1, 1), (1, 12, 31), (4, 2, 29), (100, 2, 28), (400, 2, 29), (1900, 2, 28),
         (1999, 12, 31), (2000, 1, 1), (2000, 2, 29), (2001, 2, 28), (2023, 6, 30),
         (2024, 2, 29), (2024, 12, 31), (9999, 1, 1), (9999, 12, 30), (9999, 12, 31),
         (2000, 4, 30), (2000, 9, 30), (2000, 11, 30), (2000, 3, 31)]
BAD_DATES = [(0, 1, 1), (2001, 2, 29), (1900, 2, 29), (2000, 2, 30), (2000, 4, 31), (2000, 13, 1),
             (2000, 0, 1), (2000, 1, 0), (2000, 1, 32), (10000, 1, 1), (2100, 2, 29), (2000, 6, 31)]


def date_text(rng, y, m, d, variant):
    if variant == 0:
        return "%04d-%02d-%02d" % (y, m, d)
    if variant == 1:
        return "%d-%d-%d" % (y, m, d)
    return "%06d-%02d-%d" % (y, m, d)


def gen_datetime_texts(ck):
    rng = ck.rng
    out = []
    times = [(0, 0, 0, None), (23, 59, 59, "999999"), (23, 59, 59, "9999995"), (23, 59, 59, "9999994"),
             (12, 30, 15, "5"), (23, 59, 58, "9999999"), (0, 0, 0, "0000005"), (11, 59, 59, "99999951")]
    tzs = GRID_TZ
    for (y, m, d) in DATES + BAD_DATES:
        for (h, mi, s, fr) in times:
            for tz in (tzs if ck.tier == "thorough" else rng.sample(tzs, 3)):
                for sep in "T ":
                    v = rng.randrange(3)
                    tt = rng.choice(lexical_time_variants(rng, h, mi, s, fr, tz))
                    text = date_text(rng, y, m, d, v) + sep + tt
                    exp = None
                    et = expected_time(h, mi, s, fr, tz)
                    try:
                        base = datetime.date(y, m, d)
                        if et is not None:
                            carry, hmsu, tzc = et
                            dd = base.toordinal() + carry
                            if dd <= datetime.date.max.toordinal():
                                nd = datetime.date.fromordinal(dd)
                                exp = ("ok", (nd.year, nd.month, nd.day), hmsu, tzc)
                            else:
                                exp = ("unrepresentable",)
                    except ValueError:
                        exp = ("value",)
                    out.append((text, exp))
    n = 3000 if ck.tier == "thorough" else 400
    for _ in range(n):
        o = rng.randrange(1, datetime.date.max.toordinal() + 1)
        base = datetime.date.fromordinal(o)
        h, mi, s = rng.randrange(24), rng.randrange(60), rng.randrange(60)
        fr = None
        if rng.random() < 0.7:
            fr = "".join(rng.choice("0123456789") for _ in range(rng.randrange(1, 10)))
        tz = rng.choice([None, "Z", (rng.choice("+-"), rng.randrange(24), rng.randrange(60))])
        et = expected_time(h, mi, s, fr, tz)
        carry, hmsu, tzc = et
        dd = base.toordinal() + carry
        if dd <= datetime.date.max.toordinal():
            nd = datetime.date.fromordinal(dd)
            exp = ("ok", (nd.year, nd.month, nd.day), hmsu, tzc)
        else:
            exp = ("unrepresentable",)
        text = date_text(rng, base.year, base.month, base.day, rng.randrange(3)) + rng.choice("T ") + \
            rng.choice(lexical_time_variants(rng, h, mi, s, fr, tz))
        out.append((text, exp))
    return out


def gen_date_texts(ck):
    rng = ck.rng
    out = []
    for (y, m, d) in DATES + BAD_DATES:
        for v in range(3):
            for z in ["", "Z", "z", "+01:00", "-05:30", "+14:00", "-0:0", "+5"]:
                try:
                    datetime.date(y, m, d)
                    exp = ("ok", (y, m, d))
                except ValueError:
                    exp = ("value",)
                out.append((date_text(rng, y, m, d, v) + z, exp))
    for _ in range(1500 if ck.tier == "thorough" else 300):
        o = rng.randrange(1, datetime.date.max.toordinal() + 1)
        b = datetime.date.fromordinal(o)
        out.append((date_text(rng, b.year, b.month, b.day, rng.randrange(3)),
                    ("ok", (b.year, b.month, b.day))))
    return out


MUT_CHARS = "0123456789:-+.TZz \n\txE٢۳९/"


def mutate(rng, s):
    k = rng.randrange(5)
    if not s:
        return rng.choice(MUT_CHARS)
    i = rng.randrange(len(s))
    if k == 0:
        return s[:i] + s[i + 1:]
    if k == 1:
        return s[:i] + rng.choice(MUT_CHARS) + s[i:]
    if k == 2:
        return s[:i] + rng.choice(MUT_CHARS) + s[i + 1:]
    if k == 3:
        return s + rng.choice(MUT_CHARS)
    return s[:i] + s[i] + s[i:]


def gen_malformed(ck, valid_texts):
    rng = ck.rng
    out = ["", " ", "\n", "T", "Z", "24:00:00", "12:60:00", "12:00:60", "1:2:3", "001:02:03", "12:00",
           "12:00:00.", "12:00:00.5+", "12:00:00+24:00", "12:00:00+23:60", "12:00:00+123", "12:00:00-1:2:3",
           "12:00:00Z\n", "12:00:00\n", "12:00:00\n\n", " 12:00:00", "12:00:00 ", "2000-01-01T24:00:00",
           "2000-01-01", "2000-1-1T1:1:1", "2000-01-01t00:00:00", "2000-01-01  00:00:00", "-2000-01-01",
           "+2000-01-01", "2000-01-01T00:00:00+00:00\n", "٢٠٠٠-٠١-٠١", "१२:००:००", "12:00:00.१",
           "99999999999-01-01", "2147483647-01-01", "2147483648-01-01", "2000-001-01", "2000-01-001",
           "9999-12-31T23:59:59.9999995", "9999-12-31T23:59:59.9999995Z", "2000-01-01+99:00",
           "2000-01-01+24:00", "12:00:00+00:00", "12:00:00-00:00", "12:00:00+0", "12:00:00-0:0"]
    n = 6000 if ck.tier == "thorough" else 1500
    for _ in range(n):
        s = rng.choice(valid_texts)
        for _ in range(rng.choice([1, 1, 1, 2, 3])):
            s = mutate(rng, s)
        out.append(s)
    return out


# ---------------------------------------------------------------------------
# float / int lexical checks (XSD double, integer) — spec side in Coq
# ---------------------------------------------------------------------------

def gen_floats(ck):
    rng = ck.rng
    import struct
    import sys
    vals = [0.0, -0.0, 1.0, -1.0, 0.1, 1e22, 1e21, 1e16, 1e-5, 1e-4, 1.5e300, 5e-324, 2.2250738585072014e-308,
            sys.float_info.max, sys.float_info.min, 123456789.123456789, 1 / 3.0, 100.0, 1e15, 1e17,
            float("inf"), float("-inf"), float("nan")]
    for _ in range(3000 if ck.tier == "thorough" else 600):
        bits = rng.getrandbits(64)
        vals.append(struct.unpack("<d", struct.pack("<Q", bits))[0])
    for _ in range(500 if ck.tier == "thorough" else 150):
        vals.append(rng.uniform(-1e6, 1e6))
        vals.append(float(rng.randrange(-10 ** 6, 10 ** 6)))
    return vals


def gen_ints(ck):
    rng = ck.rng
    vals = [0, 1, -1, 10, -10, 2 ** 31 - 1, -2 ** 31, 2 ** 63 - 1, -2 ** 63, 2 ** 64, 10 ** 40, -10 ** 40]
    for _ in range(1500 if ck.tier == "thorough" else 400):
        vals.append(rng.randrange(-10 ** rng.randrange(1, 41), 10 ** rng.randrange(1, 41)))
    return vals


# ---------------------------------------------------------------------------
# the check
# ---------------------------------------------------------------------------

def classify_parse_failure(text):
    """Finding classes for parse cases the implementation gets wrong."""
    if re.search(r"(^|[T ])24:00:00(\.0+)?([Zz]|[-+].*)?$", text):
        return "C06:hour-24-rejected", "the valid XSD form ...T24:00:00 is rejected with ValueError"
    return None, None


def run(ck):
    common.force_repo_path()
    from suds.xsd.sxbuiltin import XDecimal, XBoolean, XFloat, XInteger, XLong, XDate, XTime, XDateTime, Factory
    from suds.sax import date as sdate
    from tools import gen_tables

    ck.trusted = [
        "Coq 8.16.1 kernel + vm_compute (correspondence evaluation); no native_compute",
        "tools/gen_tables.py + tools/tables_c06.py: XBoolean tables, Factory.tags regenerated from /repo; the "
        "compiled _RE_DATE/_RE_TIME/_RE_DATETIME (.pattern, .flags) translated from CPython's parse tree "
        "(re._parser) into the Coq regex AST, fail-closed",
        "correspondence harness harness/c06.py (generators, canonical forms, exact-rational oracle)",
        "modelled, not verified: CPython Decimal.as_tuple/str(int)/float.__repr__/datetime.isoformat; "
        "CPython's regex engine is modelled by coq/C06/Regex.v (semantics + matcher proved equivalent) and "
        "compared with `re` on every generated text",
    ]
    ck.notes = [
        "the lenient lexical space of date/time text is the scanner model, PROVED equal (all strings, same "
        "capture groups) to the regexes regenerated from the source; that Date/Time/DateTime.__parse use "
        "pattern.match and read the groups by name is covered by the executed correspondence",
        "float arithmetic is not modelled: only the lexical form of repr and Python-side float(repr(x)) == x",
    ]
    gen_tables.generate("C06Tables")
    proof_ok = ck.prove(THEOREMS)

    # ---- regex text drift: informational only (the tie is the proof scanner_is_regex_* over the
    # regenerated ASTs; an equivalent rewrite of the patterns that translates to the same AST is fine)
    drift = [n for n, p in KNOWN_PATTERNS.items() if getattr(sdate, n, None) != p]
    ck.extra["regex_text_unchanged"] = not drift

    fails = []   # (kind, case description, agrees?, spec_ok?)

    # ---- decimals -------------------------------------------------------
    decs = gen_decimals(ck)
    dcases, dmeta = [], []
    for v in decs:
        sign, ds, e = v.as_tuple()
        r = run_impl(lambda x: XDecimal.translate(x, topython=False), v)
        out = r[1] if r[0] == "ok" and isinstance(r[1], str) else "\x00" + repr(r)
        dcases.append("((%s, %s, %s), %s)" % (cbool(bool(sign)), clist([cZ(d) for d in ds], "Z"), cZ(e), cstr(out)))
        dmeta.append((v, out))
        ck.seen(("dec", sign, ds, e), nontrivial=(e != 0))
        ck.count("decimal")
        # Python-level round trip (reading the text back yields an equal value)
        if r[0] == "ok":
            try:
                back = XDecimal.translate(out, topython=True)
                if back != v or back.is_signed() != v.is_signed() and v != 0:
                    ck.failing_input("C06:decimal-roundtrip", "Decimal %r sent as %r reads back as %r" % (v, out, back),
                                     {"value": str(v), "sent": out, "back": str(back)})
            except Exception as ex:  # noqa
                ck.failing_input("C06:decimal-roundtrip", "Decimal %r sent as %r cannot be read back (%r)" % (v, out, ex),
                                 {"value": str(v), "sent": out})
    ck.sample({"decimal": str(decs[40]), "as_tuple": list(map(str, decs[40].as_tuple())), "sent": dmeta[40][1]})
    res = ck.run_cases("dec", PRE, "dcase", dcases, ["dec_agrees", "dec_spec_ok"])
    for i in res["dec_spec_ok"]:
        v, out = dmeta[i]
        ck.failing_input("C06:decimal-text", "Decimal %r is sent as %r: not a valid/exact XSD decimal" % (v, out),
                         {"value": str(v), "as_tuple": repr(v.as_tuple()), "sent": out,
                          "how": "suds.xsd.sxbuiltin.XDecimal.translate(Decimal(value), topython=False)"})
    dec_disagree = [dmeta[i] for i in res["dec_agrees"] if i not in set(res["dec_spec_ok"])]

    # ---- parsing --------------------------------------------------------
    ttexts = gen_time_texts(ck)
    dttexts = gen_datetime_texts(ck)
    dtexts = gen_date_texts(ck)
    valid_pool = [t for t, _ in ttexts[:400]] + [t for t, _ in dttexts[:400]] + [t for t, _ in dtexts[:200]]
    bad = gen_malformed(ck, valid_pool)

    pcases, pmeta = [], []
    rmeta, rx_errors = [], []

    def rx_spans(kind, text):
        """What the compiled pattern of the source answers on `text`: None | spans of its groups
        (cross-check of the Coq regex semantics, see x_regex_agrees); recorded in rmeta."""
        nm = RX_KIND[kind][1]
        try:
            m = getattr(sdate, nm).match(text)
            spans = None if m is None else [m.span(i + 1) for i in range(m.re.groups)]
            groups = None if m is None else list(m.groups())
        except Exception as ex:  # noqa
            rx_errors.append((nm, text, repr(ex)))
            spans = groups = None
        rmeta.append((nm, text, groups))
        ck.count("regex-vs-re-" + ("match" if spans is not None else "nomatch"))
        if spans is None:
            return "None"
        return "(Some %s)" % clist(["None" if a < 0 else "(Some (%s, %s))" % (common.cnat(a), common.cnat(b))
                                    for a, b in spans], "option (nat * nat)")

    def add_parse(kind, text, exp):
        if kind == "time":
            r = run_impl(lambda s: sdate.Time(s).value, text)
            if r[0] == "ok":
                tz = c_tz(r[1].tzinfo)
                cr = "(Ok (%s, %s))" % (c_tod(r[1]), tz)
            else:
                cr = c_res(r, None)
            pcases.append("(%s, PTime %s, %s)" % (cstr(text), cr, rx_spans(kind, text)))
        elif kind == "date":
            r = run_impl(lambda s: sdate.Date(s).value, text)
            cr = c_res(r, c_civil)
            pcases.append("(%s, PDate %s, %s)" % (cstr(text), cr, rx_spans(kind, text)))
        else:
            r = run_impl(lambda s: sdate.DateTime(s).value, text)
            if r[0] == "ok":
                cr = "(Ok (%s, %s, %s))" % (c_civil(r[1].date()), c_tod(r[1].time()), c_tz(r[1].tzinfo))
            else:
                cr = c_res(r, None)
            pcases.append("(%s, PDateTime %s, %s)" % (cstr(text), cr, rx_spans(kind, text)))
        pmeta.append((kind, text, r, exp))
        ck.seen((kind, text), nontrivial=True)
        ck.count("parse-" + kind + ("-ok" if r[0] == "ok" else "-" + r[0]))
        # ---- spec, harness side: the generator's own exact-rational expectation
        if exp is None:
            return
        verdict = None
        if kind == "time":
            carry, hmsu, tzc = exp
            if r[0] != "ok":
                verdict = "valid lexical time %r rejected (%s)" % (text, r[1])
            else:
                v = r[1]
                got = (v.hour, v.minute, v.second, v.microsecond)
                if got != hmsu or c_tz(v.tzinfo) != tzc:
                    verdict = "time %r decoded as %r %s, XSD value is %r %s" % (text, got, c_tz(v.tzinfo), hmsu, tzc)
        elif kind == "date":
            if exp[0] == "ok":
                if r[0] != "ok":
                    verdict = "valid date %r rejected (%s)" % (text, r[1])
                elif (r[1].year, r[1].month, r[1].day) != exp[1]:
                    verdict = "date %r decoded as %r" % (text, r[1])
            elif r[0] != "value":
                verdict = "impossible date %r did not raise ValueError (%r)" % (text, r)
        else:
            if exp[0] == "ok":
                if r[0] != "ok":
                    verdict = "valid dateTime %r rejected (%s)" % (text, r[1])
                else:
                    v = r[1]
                    got = ((v.year, v.month, v.day), (v.hour, v.minute, v.second, v.microsecond), c_tz(v.tzinfo))
                    if got != (exp[1], exp[2], exp[3]):
                        verdict = "dateTime %r decoded as %r, XSD value is %r" % (text, got, exp[1:])
            elif exp[0] == "value":
                if r[0] != "value":
                    verdict = "impossible dateTime %r did not raise ValueError (%r)" % (text, r)
            # 'unrepresentable': any error will do
            elif r[0] == "ok":
                verdict = "dateTime %r beyond datetime.max produced %r" % (text, r[1])
        if verdict:
            key, what = classify_parse_failure(text)
            ck.failing_input(key or "C06:parse-" + kind, what or verdict,
                             {"kind": kind, "text": text, "impl": repr(r), "expected": repr(exp),
                              "how": "suds.sax.date.%s(text).value" % {"time": "Time", "date": "Date", "datetime": "DateTime"}[kind]})

    for t, exp in ttexts:
        add_parse("time", t, exp)
    for t, exp in dttexts:
        add_parse("datetime", t, exp)
    for t, exp in dtexts:
        add_parse("date", t, exp)
    # explicit 24:00:00 probes (valid XSD; known finding if rejected)
    for t in ["24:00:00", "24:00:00Z"]:
        add_parse("time", t, (1, (0, 0, 0, 0), "TzNone" if not t.endswith("Z") else "TzUtc"))
    add_parse("datetime", "2000-01-01T24:00:00", ("ok", (2000, 1, 2), (0, 0, 0, 0), "TzNone"))
    for s in bad:
        for kind in ("time", "date", "datetime"):
            add_parse(kind, s, None)
    ck.sample({"parse": pmeta[5][1], "impl": repr(pmeta[5][2])})
    ck.sample({"parse": pmeta[-7][1], "impl": repr(pmeta[-7][2])})
    # one shard set for: model vs implementation, spec on the implementation's result, the Coq regex
    # semantics (on the AST regenerated from the source) vs CPython's engine, scanner vs that regex
    res_p = ck.run_cases("parse", PRE_RX, "xcase", pcases,
                         ["x_parse_agrees", "x_parse_spec_ok", "x_regex_agrees", "x_scanner_regex_agrees"],
                         shard=500)
    spec_bad = set(res_p["x_parse_spec_ok"])
    for i in sorted(spec_bad):
        kind, text, r, exp = pmeta[i]
        key, what = classify_parse_failure(text)
        ck.failing_input(key or "C06:parse-" + kind,
                         what or "%s text %r -> %r: not the value XSD defines / not rejected with ValueError" % (kind, text, r),
                         {"kind": kind, "text": text, "impl": repr(r)})
    parse_disagree = [pmeta[i][:3] for i in res_p["x_parse_agrees"] if i not in spec_bad]

    # ---- the Coq regex semantics against CPython's engine, and the scanner against the
    # regenerated regex, on every (pattern, text) above
    rx_sem_bad = [rmeta[i] for i in res_p["x_regex_agrees"]]
    rx_scan_bad = [rmeta[i] for i in res_p["x_scanner_regex_agrees"]]
    ck.extra["regex_crosscheck"] = {"cases": len(rmeta), "semantics_vs_cpython_disagree": len(rx_sem_bad),
                                    "scanner_vs_regenerated_regex_disagree": len(rx_scan_bad)}
    ck.sample({"regex": rmeta[7][0], "text": rmeta[7][1], "groups": rmeta[7][2]})

    # ---- writing --------------------------------------------------------
    rng = ck.rng
    wcases, wmeta = [], []
    tzs = [None, sdate.UtcTimezone(), sdate.FixedOffsetTimezone(1), sdate.FixedOffsetTimezone(-5),
           sdate.FixedOffsetTimezone(datetime.timedelta(hours=5, minutes=45)),
           sdate.FixedOffsetTimezone(datetime.timedelta(hours=-23, minutes=-59)),
           sdate.FixedOffsetTimezone(datetime.timedelta(hours=23, minutes=59)),
           sdate.FixedOffsetTimezone(datetime.timedelta(minutes=-30)),
           sdate.FixedOffsetTimezone(datetime.timedelta(0))]
    wvals = []
    for (y, m, d) in DATES:
        wvals.append(datetime.date(y, m, d))
        for (h, mi, s, us) in [(0, 0, 0, 0), (23, 59, 59, 999999), (1, 2, 3, 4), (12, 0, 0, 500000), (9, 9, 9, 100)]:
            tz = rng.choice(tzs)
            wvals.append(datetime.datetime(y, m, d, h, mi, s, us, tzinfo=tz))
    for tz in tzs:
        for (h, mi, s, us) in [(0, 0, 0, 0), (23, 59, 59, 999999), (1, 2, 3, 4), (12, 0, 0, 500000), (0, 0, 0, 1)]:
            wvals.append(datetime.time(h, mi, s, us, tzinfo=tz))
    for _ in range(2000 if ck.tier == "thorough" else 400):
        tz = rng.choice(tzs + [sdate.FixedOffsetTimezone(datetime.timedelta(minutes=rng.randrange(-1439, 1440)))])
        t = datetime.time(rng.randrange(24), rng.randrange(60), rng.randrange(60),
                          rng.choice([0, rng.randrange(1000000), rng.randrange(10) * 100000]), tzinfo=tz)
        wvals.append(t)
        dd = datetime.date.fromordinal(rng.randrange(1, datetime.date.max.toordinal() + 1))
        wvals.append(dd)
        wvals.append(datetime.datetime.combine(dd, t))
    for v in wvals:
        if isinstance(v, datetime.datetime):
            X, W = XDateTime, "(WDateTime %s %s %s)" % (c_civil(v.date()), c_tod(v.time()), c_tz(v.tzinfo))
            P = sdate.DateTime
        elif isinstance(v, datetime.date):
            X, W = XDate, "(WDate %s)" % c_civil(v)
            P = sdate.Date
        else:
            X, W = XTime, "(WTime %s %s)" % (c_tod(v), c_tz(v.tzinfo))
            P = sdate.Time
        r = run_impl(lambda x: str(X.translate(x, topython=False)), v)
        out = r[1] if r[0] == "ok" else "\x00" + repr(r)
        wcases.append("(%s, %s)" % (W, cstr(out)))
        wmeta.append((v, out))
        ck.seen(("w", repr(v)))
        ck.count("write-" + type(v).__name__)
        # reading the text back yields an equal value with the same UTC offset
        if r[0] == "ok":
            rb = run_impl(lambda s: P(s).value, out)
            same = rb[0] == "ok" and rb[1] == v if not isinstance(v, datetime.time) else \
                rb[0] == "ok" and rb[1].replace(tzinfo=None) == v.replace(tzinfo=None)
            if same and not isinstance(v, datetime.date) or same and isinstance(v, datetime.datetime):
                off_a = v.utcoffset() if v.tzinfo is not None else None
                off_b = rb[1].utcoffset() if rb[1].tzinfo is not None else None
                same = off_a == off_b
            if not same:
                ck.failing_input("C06:write-roundtrip", "%r is sent as %r which reads back as %r" % (v, out, rb),
                                 {"value": repr(v), "sent": out, "back": repr(rb)})
    ck.sample({"write": repr(wmeta[3][0]), "sent": wmeta[3][1]})
    res_w = ck.run_cases("write", PRE, "wval * str", wcases, ["write_agrees", "write_spec_ok"])
    for i in res_w["write_spec_ok"]:
        v, out = wmeta[i]
        ck.failing_input("C06:write-text", "%r is sent as %r: not a valid XSD lexical form of that value" % (v, out),
                         {"value": repr(v), "sent": out})
    write_disagree = [(repr(wmeta[i][0]), wmeta[i][1]) for i in res_w["write_agrees"]
                      if i not in set(res_w["write_spec_ok"])]

    # ---- booleans, ints, floats -----------------------------------------
    fcases, fmeta = [], []
    for v in gen_floats(ck):
        r = run_impl(lambda x: XFloat.translate(x, topython=False), v)
        text = str(r[1]) if r[0] == "ok" else "\x00"
        fcases.append("(FFloat, %s)" % cstr(text))
        fmeta.append((v, text))
        ck.seen(("f", repr(v)))
        ck.count("float")
        if r[0] == "ok" and v == v and v not in (float("inf"), float("-inf")):
            back = XFloat.translate(text, topython=True)
            if back != v or (back == 0 and str(back) != str(v)):
                ck.failing_input("C06:float-roundtrip", "float %r sent as %r reads back %r" % (v, text, back),
                                 {"value": repr(v), "sent": text})
    for v in gen_ints(ck):
        for X in (XInteger, XLong):
            r = run_impl(lambda x: X.translate(x, topython=False), v)
            text = str(r[1]) if r[0] == "ok" else "\x00"
            fcases.append("(FInt %s, %s)" % (cZ(v), cstr(text)))
            fmeta.append((v, text))
            ck.seen(("i", v, X.__name__))
            ck.count("int")
            for variant in (text, "+" + text.lstrip("-") if v >= 0 else text, text.replace("-", "-000") if v < 0 else "000" + text):
                back = run_impl(lambda s: X.translate(s, topython=True), variant)
                if back != ("ok", v):
                    ck.failing_input("C06:int-read", "integer text %r decodes to %r, not %r" % (variant, back, v),
                                     {"text": variant, "expected": v})
    for b in (True, False):
        text = XBoolean.translate(b, topython=False)
        fcases.append("(FBool %s, %s)" % (cbool(b), cstr(str(text))))
        fmeta.append((b, str(text)))
        ck.seen(("b", b))
        for lexical, val in (("true", True), ("1", True), ("false", False), ("0", False)):
            if XBoolean.translate(lexical, topython=True) is not val:
                ck.failing_input("C06:bool-read", "boolean text %r decodes wrongly" % lexical, {"text": lexical})
    res_f = ck.run_cases("prim", PRE, "fkind * str", fcases, ["prim_spec_ok"])
    for i in res_f["prim_spec_ok"]:
        v, text = fmeta[i]
        if isinstance(v, float) and (v != v or v in (float("inf"), float("-inf"))):
            ck.failing_input("C06:float-special-lexical",
                             "float %r is sent as %r; XSD spells these INF, -INF, NaN" % (v, text),
                             {"value": repr(v), "sent": text,
                              "how": "str(XFloat.translate(float(value), topython=False))"})
        else:
            ck.failing_input("C06:prim-text", "%r is sent as %r: not a valid XSD lexical form" % (v, text),
                             {"value": repr(v), "sent": text})

    # builtin tag table sanity: each mapped XSD name goes to the translator this check covered
    expected_map = {"decimal": "XDecimal", "boolean": "XBoolean", "date": "XDate", "time": "XTime",
                    "dateTime": "XDateTime", "int": "XInteger", "integer": "XInteger", "long": "XLong",
                    "float": "XFloat", "double": "XFloat", "string": "XString"}
    for k, v in expected_map.items():
        if Factory.tags.get(k).__name__ != v:
            ck.failing_input("C06:builtin-map", "xsd:%s is translated by %s, not %s" % (k, Factory.tags.get(k).__name__, v),
                             {"xsd": k})

    ck.rule = ("Decimals: %s; parse texts: boundary grid x lexical variants + random + single-character "
               "mutations, each through Time/Date/DateTime; written values: grid + random with 9+ timezones; "
               "floats by random bit pattern; ints to 10^40. distinct = distinct (kind, input); non-trivial = "
               "everything except Decimals with exponent 0" %
               (getattr(ck, "exhaustive_note", "random <=4-digit mantissas, exponent -8..8, plus up to 60 digits")))
    ck.exhaustive = False

    # ---- proof / correspondence broken without a failing input -----------
    if not proof_ok:
        wit = ""
        if rx_scan_bad:
            nm, text, py = rx_scan_bad[0]
            wit = ("witness: %s.match(%r) -> %s but the scanner model says %s; " %
                   (nm, text, "groups %r" % (py,) if py is not None else "None",
                    "no match" if py is not None else "match"))
        ck.unproved("proof obligation of C06 no longer checks: " + wit + ck.proof_log[-1500:],
                    {"theorems": THEOREMS, "log": ck.proof_log[-3000:],
                     "scanner_vs_regex_witnesses": [(n, t, g) for n, t, g in rx_scan_bad[:5]]})
    elif rx_scan_bad:
        ck.unproved("the scanner model and the regenerated regex disagree on a concrete text although "
                    "scanner_is_python_match is proved: harness/translator inconsistency",
                    {"witnesses": [(n, t, g) for n, t, g in rx_scan_bad[:5]]})
    table_is_baseline = any(n == "C06Tables" for n, _ in gen_tables.FAILURES)   # reported by finish()
    if (rx_sem_bad and not table_is_baseline) or rx_errors:
        ck.unproved("the Coq regex semantics (coq/C06/Regex.v, run on the AST translated from the source) "
                    "does not answer what CPython's re answers: %r" % ((rx_sem_bad or rx_errors)[0],),
                    {"correspondence": "regex_agrees", "disagreements": [(n, t, g) for n, t, g in rx_sem_bad[:5]],
                     "errors": rx_errors[:5]})
    disagree = {"decimal": [(str(v), o) for v, o in dec_disagree[:5]],
                "parse": [(k, t, repr(r)) for k, t, r in parse_disagree[:5]],
                "write": write_disagree[:5]}
    if any(disagree.values()):
        ck.unproved("model/implementation correspondence of C06 no longer holds "
                    "(the implementation meets the executable spec on every generated input, "
                    "but it is no longer the algorithm the theorems are about)",
                    {"correspondence": "C06 agrees", "disagreements": disagree})


def replay(ck, payload):
    common.force_repo_path()
    from suds.sax import date as sdate
    from suds.xsd.sxbuiltin import XDecimal, XFloat
    print(payload.get("what"))
    if "text" in payload and "kind" in payload:
        cls = {"time": sdate.Time, "date": sdate.Date, "datetime": sdate.DateTime}[payload["kind"]]
        print("impl now:", run_impl(lambda s: cls(s).value, payload["text"]), " expected:", payload.get("expected"))
    elif "as_tuple" in payload:
        print("impl now:", XDecimal.translate(decimal.Decimal(payload["value"]), topython=False))
    elif "sent" in payload:
        print("was sent:", payload["sent"])
    return 0
