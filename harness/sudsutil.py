"""Helpers shared by the per-property harnesses: building clients from WSDL
text held in memory, and an independent XML processor (expat, namespace mode)
returning a canonical infoset."""
import xml.parsers.expat

from . import common

suds = common.force_repo_path()
import suds.client   # noqa: E402
import suds.store    # noqa: E402


def client_from_wsdl(wsdl_bytes, extra_docs=None, **kwargs):
    """A non-caching client over documents held in a private DocumentStore."""
    assert isinstance(wsdl_bytes, bytes)
    store = suds.store.DocumentStore()
    docs = {"main.wsdl": wsdl_bytes}
    if extra_docs:
        docs.update(extra_docs)
    store.update(docs)
    kwargs.setdefault("cache", None)
    kwargs.setdefault("documentStore", store)
    return suds.client.Client("suds://main.wsdl", **kwargs)


WSDL_TEMPLATE = """<?xml version='1.0' encoding='UTF-8'?>
<wsdl:definitions targetNamespace="%(tns)s"
xmlns:tns="%(tns)s"
xmlns:soap="http://schemas.xmlsoap.org/wsdl/soap/"
xmlns:wsdl="http://schemas.xmlsoap.org/wsdl/"
xmlns:xsd="http://www.w3.org/2001/XMLSchema">
  <wsdl:types>
    <xsd:schema targetNamespace="%(tns)s" elementFormDefault="%(form)s">
%(schema)s
    </xsd:schema>
  </wsdl:types>
  <wsdl:message name="fRequestMessage">%(inparts)s</wsdl:message>
  <wsdl:message name="fResponseMessage">%(outparts)s</wsdl:message>
  <wsdl:portType name="dummyPortType">
    <wsdl:operation name="f">
      <wsdl:input message="tns:fRequestMessage"/>
      <wsdl:output message="tns:fResponseMessage"/>
    </wsdl:operation>
  </wsdl:portType>
  <wsdl:binding name="dummy" type="tns:dummyPortType">
    <soap:binding style="document" transport="http://schemas.xmlsoap.org/soap/http"/>
    <wsdl:operation name="f">
      <soap:operation soapAction="my-soap-action" style="document"/>
      <wsdl:input><soap:body use="literal"/></wsdl:input>
      <wsdl:output><soap:body use="literal"/></wsdl:output>
    </wsdl:operation>
  </wsdl:binding>
  <wsdl:service name="dummy">
    <wsdl:port name="dummy" binding="tns:dummy">
      <soap:address location="http://unused.invalid/svc"/>
    </wsdl:port>
  </wsdl:service>
</wsdl:definitions>
"""


def doc_wsdl(schema, input_element="Wrapper", output_element=None,
             tns="my-namespace", form="qualified"):
    inparts = ('<wsdl:part name="parameters" element="tns:%s"/>' % input_element
               if input_element else "")
    outparts = ('<wsdl:part name="parameters" element="tns:%s"/>' % output_element
                if output_element else "")
    return (WSDL_TEMPLATE % dict(tns=tns, form=form, schema=schema,
                                 inparts=inparts, outparts=outparts)).encode("utf-8")


# ---------------------------------------------------------------------------
# independent XML processor
# ---------------------------------------------------------------------------

class Node(object):
    __slots__ = ("ns", "name", "attrs", "children", "text", "nsmap")

    def __init__(self, ns, name, attrs, nsmap=None):
        self.ns = ns
        self.name = name
        self.attrs = attrs          # dict (ns, local) -> value
        self.children = []          # Node or str, in document order
        self.text = None
        self.nsmap = nsmap or {}    # prefix ('' = default) -> uri in scope at this element

    def resolve_qname(self, text):
        """(uri or None, local) of a QName-valued attribute/text in this
        element's scope; raises KeyError for an undeclared prefix."""
        if ":" in text:
            p, local = text.split(":", 1)
            return self.nsmap[p], local
        return self.nsmap.get("") or None, text

    def elements(self):
        return [c for c in self.children if isinstance(c, Node)]

    def own_text(self):
        return "".join(c for c in self.children if isinstance(c, str))

    def find(self, name, ns=None):
        for c in self.elements():
            if c.name == name and (ns is None or c.ns == ns):
                return c
        return None

    def canon(self, strip_ws=True):
        """Hashable canonical form; whitespace-only text between elements
        dropped when the node has element children."""
        kids = []
        has_el = any(isinstance(c, Node) for c in self.children)
        buf = []
        for c in self.children:
            if isinstance(c, Node):
                if buf:
                    t = "".join(buf)
                    if not (strip_ws and has_el and not t.strip()):
                        kids.append(t)
                    buf = []
                kids.append(c.canon(strip_ws))
            else:
                buf.append(c)
        if buf:
            t = "".join(buf)
            if not (strip_ws and has_el and not t.strip()):
                kids.append(t)
        return (self.ns, self.name, tuple(sorted(self.attrs.items())), tuple(kids))


def _split(qn):
    if " " in qn:
        ns, local = qn.split(" ", 1)
        return ns, local
    return None, qn


def expat_parse(data):
    """Parse bytes with expat in namespace mode (not suds' parser).  Raises
    xml.parsers.expat.ExpatError on ill-formed / namespace-ill-formed input."""
    p = xml.parsers.expat.ParserCreate(namespace_separator=" ")
    p.buffer_text = True
    p.ordered_attributes = False
    stack = []
    root = []
    scopes = [{"xml": "http://www.w3.org/XML/1998/namespace"}]
    pending = {}

    def start_ns(prefix, uri):
        pending[prefix or ""] = uri

    def start(name, attrs):
        ns, local = _split(name)
        a = {}
        for k, v in attrs.items():
            a[_split(k)] = v
        scope = dict(scopes[-1])
        for k, v in pending.items():
            if v:
                scope[k] = v
            else:
                scope.pop(k, None)
        pending.clear()
        scopes.append(scope)
        n = Node(ns, local, a, scope)
        if stack:
            stack[-1].children.append(n)
        else:
            root.append(n)
        stack.append(n)

    def end(name):
        stack.pop()
        scopes.pop()

    def chars(data):
        if stack:
            stack[-1].children.append(data)

    p.StartNamespaceDeclHandler = start_ns
    p.StartElementHandler = start
    p.EndElementHandler = end
    p.CharacterDataHandler = chars
    if isinstance(data, str):
        data = data.encode("utf-8")
    p.Parse(data, True)
    return root[0]
