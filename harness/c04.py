"""C04 - Character data survives the wire unchanged in both directions.

Proof: coq/C04/Props.v over the model coq/C04/Model.v (Encoder.encode/decode with
the tables regenerated from /repo, Text.escape and its flag, the serialisation
of text and attribute values, Element.plain/str, PrefixNormalizer.refitValue,
the SAX Handler) and the XML 1.0 rules written as an executable specification
(decoding of character data and attribute values in Model.v, cutting a
serialised element into events in Tokens.v).

Tie to the code (every run):
  enc    Encoder.encode / decode on generated strings                   -> enc_agrees
  txt    Text.escape / unescape / trim / + with the escaped flag         -> txt_agrees
  ser    one value as element text and as attribute value of a standalone
         Element, pretty and plain serialiser; the raw slice found by an
         independent tokenizer is decoded by the Coq specification        -> req_*
  esc    Text objects carrying the escaped flag, and Raw text, through both
         serialisers                                                      -> esc_agrees
  refit  attribute values through PrefixNormalizer on standalone trees    -> req_*
  req    values as arguments of a document/literal, an rpc/literal and an
         rpc/encoded operation (element / attribute position) ->
         RequestContext.envelope (4 client configurations) -> slices      -> req_*
  doc    the same, judged as WHOLE DOCUMENTS in Coq: the Element tree taken at
         the `marshalled` hook -> model writes the same characters
         (nsdeclarations, prefixed names, Envelope/Header/Body, Document);
         characters -> grammar -> decoding -> namespaces -> the strings given
         sit at their positions under the expanded names expat reports     -> doc_*
  rep    strings written by the independent writer under random mixes of
         entity / decimal / hex references, CDATA and literal text, with
         comments and processing instructions inside the text, between the
         elements and around the root, xml:lang, in
         UTF-8 / UTF-16 / ISO-8859-1 / US-ASCII, compact or indented ->
         reply processed by suds (process_reply and __inject)             -> rep_*
  tree   random standalone trees -> Document.plain()/str() -> suds' parser
         and expat; the Coq XML grammar on the same characters            -> tree_*

Findings re-observed on the unchanged tree (KNOWN_FINDINGS.json): K_ENTITY, K_QNAME.
K_FIXED_WS names the defect repaired in /repo f9fe39d: reported as a VIOLATION if it returns.
"""
import itertools
import re
import xml.parsers.expat

from . import common
from .common import cstr, cbool, clist, copt

THEOREMS = [
    "encode_single_pass", "encode_wellformed", "attr_wellformed",
    "text_roundtrip_partial", "text_roundtrip_refuted", "text_roundtrip_exact",
    "attr_roundtrip_partial", "attr_roundtrip_refuted_entity", "attr_roundtrip_refuted_qname",
    "escape_once", "decode_encode_partial", "unescape_escape", "decode_encode_bounded",
    "reply_any_encoding", "reply_attr_any_encoding", "reply_text_exact", "trim_only_nonleaf",
    "text_roundtrip_bounded", "attr_roundtrip_bounded",
    "tree_reparse_plain", "tree_reparse_pretty", "tree_roundtrip", "pretty_plain_same",
    "refit_only_bound_prefixes", "attr_without_colon", "chunking_irrelevant",
    "plain_tokens", "pretty_tokens", "plain_end_to_end", "pretty_end_to_end",
    "plain_ns_flatten", "pretty_ns_flatten", "spec_tree_canon", "infoset_flatten", "request_end_to_end",
    "request_position",
]

PRE = "From SV Require Import Lib.Base Gen.C04Tables C04.Model C04.Tokens C04.NsModel."

K_ENTITY = "C04:text-contains-entity-reference"
K_QNAME = "C04:attr-value-looks-like-qname"
K_FIXED_WS = "C04:raw-cr-or-attr-whitespace"

# the alphabet of markup-significant characters and entity fragments
ALPHA = "&<>\"';altgmp#x38\r\n\t ]"

ENTITY_RE = re.compile(r"&(amp|lt|gt|quot|apos);")

XSI = "http://www.w3.org/2001/XMLSchema-instance"
XSD = "http://www.w3.org/2001/XMLSchema"
XMLNS = "http://www.w3.org/XML/1998/namespace"
SOAPENV = "http://schemas.xmlsoap.org/soap/envelope/"


# ---------------------------------------------------------------------------
# Coq literal printers
# ---------------------------------------------------------------------------

def c_text(s, escaped=False):
    return "(mkText %s %s)" % (cstr(s), cbool(escaped))


def c_ostr(s):
    return copt(None if s is None else cstr(s), "str")


def c_pairs(pairs):
    return clist(["(%s, %s)" % (cstr(a), cstr(b)) for a, b in pairs], "str * str")


def c_pos(pos):
    if pos[0] == "text":
        return "PosText"
    return "(PosAttr %s %s)" % (c_pairs(pos[1]), c_pairs(pos[2]))


def c_req(s, pos, raw, seen):
    return "(%s, %s, %s, %s)" % (cstr(s), c_pos(pos), cstr(raw), c_ostr(seen))


def c_piece(p):
    return "(%s %s)" % ({"lit": "PLit", "ent": "PEnt", "dec": "PDec", "hex": "PHex", "cdata": "PCData",
                         "com": "PComment", "pi": "PPI"}[p[0]], cstr(p[1]))


def c_elem(t):
    """t = (name, [(attr, value)], text or None, [kids])"""
    name, attrs, text, kids = t
    return "(El %s %s %s %s)" % (
        cstr(name),
        clist(["(%s, %s)" % (cstr(a), c_text(v)) for a, v in attrs], "str * text"),
        copt(None if text is None else c_text(text), "text"),
        clist([c_elem(k) for k in kids], "elem"))


def c_nelem(t):
    """t = (prefix, name, expns, [(p, u)], [(attr qname, value)], text or None, [kids])"""
    pf, name, ex, nsp, attrs, text, kids = t
    return "(NEl %s %s %s %s %s %s %s)" % (
        c_ostr(pf), cstr(name), c_ostr(ex), c_pairs(nsp),
        clist(["(%s, %s)" % (cstr(a), c_text(v)) for a, v in attrs], "str * text"),
        copt(None if text is None else c_text(text), "text"),
        clist([c_nelem(k) for k in kids], "nelem"))


def c_ename(en):
    return "(%s, %s)" % (c_ostr(en[0]), cstr(en[1]))


def c_position(p):
    path, what, s = p
    return "(%s, %s, %s)" % (clist(["(%d%%nat, %s)" % (i, c_ename(en)) for i, en in path], "nat * ename"),
                             copt(None if what is None else c_ename(what), "ename"), cstr(s))


def dump_nelem(e):
    """suds Element -> the tuple c_nelem prints (taken at the `marshalled` hook)"""
    return (e.prefix, e.name, e.expns, [(p, u) for p, u in e.nsprefixes.items()],
            [(a.qname(), "" if a.value is None else str(a.value)) for a in e.attributes],
            None if e.text is None else str(e.text), [dump_nelem(c) for c in e.children])


def c_ev(e):
    if e[0] == "start":
        return "(EvStart %s %s)" % (cstr(e[1]), c_pairs(e[2]))
    if e[0] == "chars":
        return "(EvChars %s)" % cstr(e[1])
    return "(EvEnd %s)" % cstr(e[1])


# ---------------------------------------------------------------------------
# independent tokenizer: where, in a serialised document, the raw text of an
# element and the raw value of each attribute are (expat offsets + a start-tag
# scanner); nothing of suds is used here
# ---------------------------------------------------------------------------

class Rec(object):
    __slots__ = ("qname", "attrs", "raw_attrs", "children", "chunks", "start", "content", "raw_text", "decl")

    def __init__(self, qname):
        self.qname = qname
        self.attrs = []        # [(qname, value)] as expat reports them, document order
        self.raw_attrs = {}    # qname -> raw slice between the quotes
        self.children = []
        self.chunks = []       # character data chunks directly in this element
        self.start = None
        self.content = None    # (start, end) byte offsets of the content, None for <a/>
        self.raw_text = None   # raw content when there are no child elements
        self.decl = {}         # prefix ('' = default) -> uri declared here

    @property
    def local(self):
        return self.qname.split(":", 1)[-1]

    def find(self, local):
        for c in self.children:
            if c.local == local:
                return c
        return None

    def path(self, *locals_):
        n = self
        for l in locals_:
            n = n.find(l) if n is not None else None
        return n

    def text(self):
        return "".join(self.chunks)


_WS = b" \t\r\n"


def scan_start_tag(data, i):
    """data[i] == '<' of a start tag.  Returns (qname, {attr: raw bytes}, end, empty)
    where end is the offset just after '>'."""
    assert data[i:i + 1] == b"<"
    j = i + 1
    while data[j:j + 1] not in (b" ", b"\t", b"\r", b"\n", b"/", b">"):
        j += 1
    name = data[i + 1:j]
    attrs = {}
    while True:
        while data[j:j + 1] in (b" ", b"\t", b"\r", b"\n"):
            j += 1
        if data[j:j + 1] == b">":
            return name, attrs, j + 1, False
        if data[j:j + 2] == b"/>":
            return name, attrs, j + 2, True
        k = j
        while data[k:k + 1] not in (b"=", b" ", b"\t", b"\r", b"\n"):
            k += 1
        an = data[j:k]
        while data[k:k + 1] in (b" ", b"\t", b"\r", b"\n"):
            k += 1
        if data[k:k + 1] != b"=":
            raise ValueError("start tag scanner: '=' expected at %d" % k)
        k += 1
        while data[k:k + 1] in (b" ", b"\t", b"\r", b"\n"):
            k += 1
        q = data[k:k + 1]
        if q not in (b'"', b"'"):
            raise ValueError("start tag scanner: quote expected at %d" % k)
        e = data.index(q, k + 1)
        attrs[an.decode("utf-8")] = data[k + 1:e]
        j = e + 1


def index_document(data):
    """Parse bytes with expat (no namespace processing, unbuffered character
    data) and return the root Rec.  Raises ExpatError when ill-formed."""
    p = xml.parsers.expat.ParserCreate()
    p.buffer_text = False
    p.ordered_attributes = True
    stack, root = [], []

    def start(name, attrs):
        r = Rec(name)
        r.attrs = [(attrs[i], attrs[i + 1]) for i in range(0, len(attrs), 2)]
        r.start = p.CurrentByteIndex
        qn, raw, end, empty = scan_start_tag(data, r.start)
        if qn.decode("utf-8") != name:
            raise ValueError("start tag scanner out of step at %d" % r.start)
        r.raw_attrs = dict((k, v.decode("utf-8")) for k, v in raw.items())
        r.content = None if empty else (end, None)
        for k, v in r.attrs:
            if k == "xmlns":
                r.decl[""] = v
            elif k.startswith("xmlns:"):
                r.decl[k[6:]] = v
        (stack[-1].children if stack else root).append(r)
        stack.append(r)

    def end(name):
        r = stack.pop()
        if r.content is not None:
            r.content = (r.content[0], p.CurrentByteIndex)
            if not r.children:
                r.raw_text = data[r.content[0]:r.content[1]].decode("utf-8")
        elif not r.children:
            r.raw_text = ""

    def chars(d):
        if stack:
            stack[-1].chunks.append(d)

    p.StartElementHandler = start
    p.EndElementHandler = end
    p.CharacterDataHandler = chars
    p.Parse(data, True)
    return root[0]


def scope_at(root, target):
    """prefix -> uri declarations in scope at `target` (nearest first) as a list
    of pairs; the default namespace is not a prefix."""
    chain = []

    def walk(n, acc):
        acc = [n] + acc
        if n is target:
            chain.extend(acc)
            return True
        return any(walk(c, acc) for c in n.children)
    walk(root, [])
    out = []
    for n in chain:
        for k, v in n.decl.items():
            if k:
                out.append((k, v))
    return out


def sax_events(data):
    p = xml.parsers.expat.ParserCreate()
    p.buffer_text = False
    p.ordered_attributes = True
    evs = []
    p.StartElementHandler = lambda n, a: evs.append(("start", n, [(a[i], a[i + 1]) for i in range(0, len(a), 2)]))
    p.EndElementHandler = lambda n: evs.append(("end", n))
    p.CharacterDataHandler = lambda d: evs.append(("chars", d))
    p.Parse(data, True)
    return evs


# ---------------------------------------------------------------------------
# generators
# ---------------------------------------------------------------------------

def alpha_strings(maxlen):
    for n in range(0, maxlen + 1):
        for t in itertools.product(ALPHA, repeat=n):
            yield "".join(t)


FRAGMENTS = ["&lt;", "&gt;", "&amp;", "&quot;", "&apos;", "&#13;", "&#x41;", "&#10;", "&foo;", "&;", "&", "&&",
             "&amp", "amp;", "&lt", "lt;", "&amp;lt;", "&amp;amp;", "&#38;", "&LT;", "& lt;", "]]>", "]]", "<![CDATA[",
             "<!--", "-->", "<?", "?>", "</a>", "<a>", "\r\n", "\r", "\n", "\t", "  ", "\"", "'", "<", ">", ";", "#",
             "=", "/", "\\", "%s", "{0}", "\u00a0", "\u0085", "\u2028", "\u2029", "\u3000", "\ufeff", "\ufffd",
             "\ud7ff", "\ue000", "\U00010000", "\U0010ffff", "\U0001f600", "\u00e9", "e\u0301", "\u05d0", "\u4e2d"]
QNAMEY = ["tns:", "SOAP-ENV:", "xsi:", "xs:", "xsd:", "xml:", "ns0:", "ns1:", "ns2:", "p:", "q:", ":", "a:b:c", "http://x/y"]


def random_char(rng):
    k = rng.random()
    if k < 0.45:
        return chr(rng.randrange(0x20, 0x7f))
    if k < 0.60:
        return rng.choice(ALPHA)
    if k < 0.70:
        return rng.choice("\t\n\r  \u0085\u00a0\u2028")
    if k < 0.85:
        while True:
            c = rng.randrange(0xa0, 0xfffe)
            if not 0xd800 <= c <= 0xdfff:
                return chr(c)
    if k < 0.95:
        return chr(rng.randrange(0x10000, 0x110000))
    return rng.choice("\ud7ff\ue000\ufffd\U00010000\U0010ffff")


def random_string(rng, maxlen=200):
    n = rng.choice([0, 1, 2, 3, 5, 8, 13, 21, 34, 55, 89, 144, 200])
    n = min(n, maxlen)
    out = []
    if rng.random() < 0.15:
        out.append(rng.choice(QNAMEY))
    while sum(len(x) for x in out) < n:
        out.append(rng.choice(FRAGMENTS) if rng.random() < 0.3 else random_char(rng))
    s = "".join(out)
    if rng.random() < 0.2:
        s = rng.choice([" ", "\n", "\t ", "\r\n", "\u00a0"]) + s
    if rng.random() < 0.2:
        s = s + rng.choice([" ", "\n", " \t", "\r", "\u2003"])
    return s[:maxlen + 8]


def alpha_random(rng, lo, hi):
    return "".join(rng.choice(ALPHA) for _ in range(rng.randrange(lo, hi + 1)))


def is_legal(s):
    for ch in s:
        c = ord(ch)
        if not (c in (9, 10, 13) or 0x20 <= c <= 0xd7ff or 0xe000 <= c <= 0xfffd or 0x10000 <= c <= 0x10ffff):
            return False
    return True


# ---------------------------------------------------------------------------
# the independent writer (reply direction)
# ---------------------------------------------------------------------------

ENT_OF = {"<": "lt", ">": "gt", "&": "amp", '"': "quot", "'": "apos"}


def write_pieces(rng, s, attr=False, q='"', maxlit=0x10ffff):
    """Encode s as a list of pieces ('lit'|'ent'|'dec'|'hex'|'cdata', payload),
    choosing among every form XML allows for each character."""
    pieces = []
    k = 0          # number of literal ']' just written (]]> must not be completed)
    i = 0
    style = rng.random()
    while i < len(s):
        ch = s[i]
        c = ord(ch)
        opts = ["dec", "hex"]
        lit_ok = ch not in "&<\r" and not (ch == ">" and k >= 2)
        if attr:
            lit_ok = ch not in "&<\r\n\t" and ch != q
        lit_ok = lit_ok and c <= maxlit
        if lit_ok:
            opts += ["lit"] * (6 if style < 0.7 else 1)
        if ch in ENT_OF:
            opts += ["ent"] * 2
        if not attr and ch != "\r" and c <= maxlit:
            opts += ["cdata"] * (3 if style > 0.5 else 1)
        o = rng.choice(opts)
        if o == "lit":
            j = i + 1
            kk = k + 1 if ch == "]" else 0
            # extend the literal run
            while j < len(s) and rng.random() < 0.7:
                d = s[j]
                ok = d not in "&<\r" and not (d == ">" and kk >= 2)
                if attr:
                    ok = d not in "&<\r\n\t" and d != q
                if not ok or ord(d) > maxlit:
                    break
                kk = kk + 1 if d == "]" else 0
                j += 1
            pieces.append(("lit", s[i:j]))
            k = kk
            i = j
            continue
        k = 0
        if o == "ent":
            pieces.append(("ent", ENT_OF[ch]))
        elif o == "dec":
            pieces.append(("dec", "0" * rng.choice([0, 0, 0, 1, 3]) + str(c)))
        elif o == "hex":
            h = "%x" % c
            h = rng.choice([h, h.upper(), "".join(rng.choice([x, x.upper()]) for x in h)])
            pieces.append(("hex", "0" * rng.choice([0, 0, 1, 2]) + h))
        else:
            j = i + 1
            while j < len(s) and rng.random() < 0.8 and s[j] != "\r" and ord(s[j]) <= maxlit:
                j += 1
            body = s[i:j]
            cut = body.find("]]>")
            if cut >= 0:           # split inside the terminator
                j = i + cut + rng.choice([1, 2])
                body = s[i:j]
            pieces.append(("cdata", body))
            i = j
            continue
        i += 1
    if rng.random() < 0.1:
        pieces.insert(rng.randrange(len(pieces) + 1), ("lit", ""))
    if not attr and rng.random() < 0.1:
        # an empty CDATA section contributes nothing (and only ever breaks a run of literal `]`)
        pieces.insert(rng.randrange(len(pieces) + 1), ("cdata", ""))
    if not attr:
        # comments and processing instructions anywhere between the pieces denote nothing
        for _ in range(rng.choice([0, 0, 0, 1, 1, 2, 3])):
            pieces.insert(rng.randrange(len(pieces) + 1),
                          ("com", comment_body(rng, maxlit)) if rng.random() < 0.6 else ("pi", pi_body(rng, maxlit)))
    return pieces


def noise(rng, maxlit, n):
    out = []
    for _ in range(n):
        ch = rng.choice("<>&;'\"]-? \n\tabc") if rng.random() < 0.6 else random_char(rng)
        out.append(ch if ord(ch) <= maxlit and ch != "\r" else "x")
    return "".join(out)


def comment_body(rng, maxlit=0x10ffff):
    b = noise(rng, maxlit, rng.choice([0, 1, 3, 8, 20]))
    while "--" in b:
        b = b.replace("--", "- ")
    if b.endswith("-"):
        b += " "
    return b


def pi_body(rng, maxlit=0x10ffff):
    target = rng.choice(["p", "php", "xml-stylesheet", "x", "Xm", "xmlx", "t.1"])
    b = noise(rng, maxlit, rng.choice([0, 0, 2, 6, 15])).replace("?>", "? ")
    return target + (" " + b if b or rng.random() < 0.3 else "")


def render_pieces(pieces):
    out = []
    for kind, p in pieces:
        if kind == "lit":
            out.append(p)
        elif kind == "ent":
            out.append("&%s;" % p)
        elif kind == "dec":
            out.append("&#%s;" % p)
        elif kind == "hex":
            out.append("&#x%s;" % p)
        elif kind == "com":
            out.append("<!--%s-->" % p)
        elif kind == "pi":
            out.append("<?%s?>" % p)
        else:
            out.append("<![CDATA[%s]]>" % p)
    return "".join(out)


# ---------------------------------------------------------------------------
# driving the implementation
# ---------------------------------------------------------------------------

SCHEMA = """
<xsd:complexType name="T"><xsd:sequence><xsd:element name="s" type="xsd:string" minOccurs="0"/></xsd:sequence>
  <xsd:attribute name="a" type="xsd:string"/></xsd:complexType>
<xsd:complexType name="SC"><xsd:simpleContent><xsd:extension base="xsd:string">
  <xsd:attribute name="a" type="xsd:string"/></xsd:extension></xsd:simpleContent></xsd:complexType>
<xsd:element name="Wrapper"><xsd:complexType><xsd:sequence>
 <xsd:element name="s" type="xsd:string" minOccurs="0"/>
 <xsd:element name="t" type="tns:T" minOccurs="0"/>
 <xsd:element name="c" type="tns:SC" minOccurs="0"/>
</xsd:sequence></xsd:complexType></xsd:element>
<xsd:element name="Out"><xsd:complexType><xsd:sequence>
 <xsd:element name="r" type="xsd:string" minOccurs="0"/>
 <xsd:element name="t" type="tns:T" minOccurs="0"/>
 <xsd:element name="c" type="tns:SC" minOccurs="0"/>
</xsd:sequence></xsd:complexType></xsd:element>
"""

# (declared encoding of a reply, highest code point it can carry literally)
ENCODINGS = [("UTF-8", 0x10ffff)] * 6 + [("UTF-16", 0x10ffff)] * 2 + [("ISO-8859-1", 0xff)] * 2 + [("US-ASCII", 0x7f)]

CONFIGS = [(False, True), (True, True), (False, False), (True, False)]     # (prettyxml, prefixes)

# one service, three operations over the same argument types: f document/literal (wrapped),
# g rpc/literal, h rpc/encoded (mx.encoded: xsi:type on every value)
OPS = ["f", "g", "h"]
OP_STYLE = {"f": "document/literal", "g": "rpc/literal", "h": "rpc/encoded"}
TNS = "my-namespace"
WSDL = """<?xml version='1.0' encoding='UTF-8'?>
<wsdl:definitions targetNamespace="%(tns)s" xmlns:tns="%(tns)s"
 xmlns:soap="http://schemas.xmlsoap.org/wsdl/soap/" xmlns:wsdl="http://schemas.xmlsoap.org/wsdl/"
 xmlns:xsd="http://www.w3.org/2001/XMLSchema">
  <wsdl:types><xsd:schema targetNamespace="%(tns)s" elementFormDefault="qualified">%(schema)s</xsd:schema></wsdl:types>
  <wsdl:message name="fIn"><wsdl:part name="parameters" element="tns:Wrapper"/></wsdl:message>
  <wsdl:message name="fOut"><wsdl:part name="parameters" element="tns:Out"/></wsdl:message>
  <wsdl:message name="gIn"><wsdl:part name="s" type="xsd:string"/><wsdl:part name="t" type="tns:T"/>
    <wsdl:part name="c" type="tns:SC"/></wsdl:message>
  <wsdl:message name="gOut"><wsdl:part name="r" type="xsd:string"/></wsdl:message>
  <wsdl:portType name="PT">
    <wsdl:operation name="f"><wsdl:input message="tns:fIn"/><wsdl:output message="tns:fOut"/></wsdl:operation>
    <wsdl:operation name="g"><wsdl:input message="tns:gIn"/><wsdl:output message="tns:gOut"/></wsdl:operation>
    <wsdl:operation name="h"><wsdl:input message="tns:gIn"/><wsdl:output message="tns:gOut"/></wsdl:operation>
  </wsdl:portType>
  <wsdl:binding name="B" type="tns:PT">
    <soap:binding style="document" transport="http://schemas.xmlsoap.org/soap/http"/>
    <wsdl:operation name="f"><soap:operation soapAction="f" style="document"/>
      <wsdl:input><soap:body use="literal"/></wsdl:input><wsdl:output><soap:body use="literal"/></wsdl:output>
    </wsdl:operation>
    <wsdl:operation name="g"><soap:operation soapAction="g" style="rpc"/>
      <wsdl:input><soap:body use="literal" namespace="%(tns)s"/></wsdl:input>
      <wsdl:output><soap:body use="literal" namespace="%(tns)s"/></wsdl:output>
    </wsdl:operation>
    <wsdl:operation name="h"><soap:operation soapAction="h" style="rpc"/>
      <wsdl:input><soap:body use="encoded" namespace="%(tns)s"
        encodingStyle="http://schemas.xmlsoap.org/soap/encoding/"/></wsdl:input>
      <wsdl:output><soap:body use="encoded" namespace="%(tns)s"
        encodingStyle="http://schemas.xmlsoap.org/soap/encoding/"/></wsdl:output>
    </wsdl:operation>
  </wsdl:binding>
  <wsdl:service name="S"><wsdl:port name="P" binding="tns:B">
    <soap:address location="http://unused.invalid/svc"/></wsdl:port></wsdl:service>
</wsdl:definitions>"""


def guard(fn, *a, **kw):
    """('ok', value) | ('err', repr)"""
    try:
        return ("ok", fn(*a, **kw))
    except Exception as e:   # noqa
        return ("err", "%s: %s" % (type(e).__name__, e))


class Clients(object):
    def __init__(self):
        from . import sudsutil as U
        self.U = U
        self.wsdl = (WSDL % dict(tns=TNS, schema=SCHEMA)).encode("utf-8")
        self.by_cfg = {}
        self.scopes = {}

    def client(self, cfg):
        if cfg not in self.by_cfg:
            from suds.plugin import MessagePlugin
            pretty, prefixes = cfg
            owner = self

            class Grab(MessagePlugin):
                def marshalled(self, context):
                    owner.last_tree = dump_nelem(context.envelope)
            self.by_cfg[cfg] = self.U.client_from_wsdl(self.wsdl, nosend=True, prettyxml=pretty, prefixes=prefixes,
                                                       plugins=[Grab()])
        return self.by_cfg[cfg]

    def request(self, cfg, vs, op="f"):
        """vs = (s, t.s, t@a, c, c@a) -> envelope bytes of operation `op`"""
        cl = self.client(cfg)
        t = cl.factory.create("ns0:T")
        t.s = vs[1]
        t._a = vs[2]
        c = cl.factory.create("ns0:SC")
        c.value = vs[3]
        c._a = vs[4]
        return bytes(getattr(cl.service, op)(s=vs[0], t=t, c=c).envelope)

    def reply(self, raws, q, encoding="UTF-8", indent=False, misc=None, lang=None):
        """raws = raw content for (r, t.s, t@a, c, c@a) -> (reply bytes in `encoding`,
        the same document in UTF-8 for the independent indexer).  indent: the
        writer pretty-prints (whitespace only inside elements that have children).
        misc: callable giving a comment / PI (or "") to drop between elements and
        around the root; lang: value of an xml:lang attribute on <r>."""
        m = misc or (lambda: "")

        def nl(k):
            return m() + ("\n" + "  " * k if indent else "")
        rattr = ' xml:lang=%s%s%s' % (q, lang, q) if lang else ""
        body = ('<e:Envelope xmlns:e="%s">%s<e:Body>%s<Out xmlns="my-namespace">'
                '%s<r%s>%s</r>%s<t a=%s%s%s>%s<s>%s</s>%s</t>%s<c a=%s%s%s>%s</c>%s</Out>%s</e:Body>%s</e:Envelope>'
                % (SOAPENV, nl(1), nl(2), nl(3), rattr, raws[0], nl(3), q, raws[2], q, nl(4), raws[1], nl(3), nl(3),
                   q, raws[4], q, raws[3], nl(2), nl(1), nl(0)))
        decl = '<?xml version="1.0" encoding="%s"?>' + ("\n" if indent else "")
        pre, post = m(), m()
        return ((decl % encoding + pre + body + post).encode(encoding),
                (decl % "UTF-8" + pre + body + post).encode("utf-8"))

    def process_reply(self, data, via_inject):
        cl = self.client((False, True))
        if via_inject:
            cl2 = self.by_cfg.get("send")
            if cl2 is None:
                cl2 = self.by_cfg["send"] = self.U.client_from_wsdl(self.wsdl)
            out = cl2.service.f(s="x", __inject={"reply": data})
        else:
            if "ctx" not in self.by_cfg:
                self.by_cfg["ctx"] = cl.service.f(s="x")
            out = self.by_cfg["ctx"].process_reply(data)

        def get(o, *names):
            for n in names:
                o = getattr(o, n, None)
                if o is None:
                    return None
            return None if o is None else str(o)
        self.last_lang = getattr(getattr(out, "r", None), "lang", None)
        return (get(out, "r"), get(out, "t", "s"), get(out, "t", "_a"), get(out, "c", "value"), get(out, "c", "_a"))


REQ_POS = [("s", ("s",), None), ("t.s", ("t", "s"), None), ("t@a", ("t",), "a"), ("c", ("c",), None), ("c@a", ("c",), "a")]


def body_wrapper(root):
    b = root.find("Body")
    return b.children[0] if b is not None and b.children else None


def classify_req(s, pos_is_attr, seen):
    """finding class of a request-side loss, or None when it is not one of the
    recorded ones"""
    if ENTITY_RE.search(s):
        return K_ENTITY, ("a value that already contains a predefined entity reference is sent verbatim "
                          "and read back with the reference decoded (%r -> %r)" % (s, seen))
    if pos_is_attr and seen is not None and ":" in s and ":" in seen and s.split(":", 1)[1] == seen.split(":", 1)[1]:
        return K_QNAME, ("an attribute value of the form prefix:rest whose prefix is bound on the request tree is "
                         "rewritten by PrefixNormalizer.refitValue (%r -> %r)" % (s, seen))
    return None, None


# ---------------------------------------------------------------------------
# trees
# ---------------------------------------------------------------------------

def random_tree(rng, depth=0):
    name = rng.choice(["a", "b", "c", "d", "e1", "long-name", "x.y"])
    attrs = []
    for an in rng.sample(["x", "y", "z"], rng.choice([0, 0, 1, 1, 2])):
        attrs.append((an, small_value(rng)))
    text = rng.choice([None, None, "", small_value(rng), small_value(rng), small_value(rng)])
    kids = []
    if depth < 3 and rng.random() < (0.65 if depth == 0 else 0.4):
        kids = [random_tree(rng, depth + 1) for _ in range(rng.choice([1, 1, 2, 3]))]
    return (name, attrs, text, kids)


def small_value(rng):
    k = rng.random()
    if k < 0.5:
        return alpha_random(rng, 0, 6)
    if k < 0.8:
        return random_string(rng, 12)
    return rng.choice([" ", "  x  ", "\n", "x\n", "\r", "\t", "a b", "\u00a0x\u00a0", "&lt;", "]]>", "a<b>&c"])


def build_element(t):
    from suds.sax.element import Element
    name, attrs, text, kids = t
    e = Element(name)
    for a, v in attrs:
        e.set(a, v)
    if text is not None:
        e.setText(text)
    for k in kids:
        e.append(build_element(k))
    return e


def dump_element(e):
    """suds Element -> (name, attrs, text, kids) as suds' parser built it"""
    return (e.qname(), [(a.qname(), None if a.value is None else str(a.value)) for a in e.attributes],
            None if e.text is None else str(e.text), [dump_element(c) for c in e.children])


def c_dumped(t):
    name, attrs, text, kids = t
    return "(El %s %s %s %s)" % (
        cstr(name), clist(["(%s, %s)" % (cstr(a), c_text(v or "")) for a, v in attrs], "str * text"),
        copt(None if text is None else c_text(text), "text"), clist([c_dumped(k) for k in kids], "elem"))


def run_grouped(ck, name, case_type, cases, preds, suspects=(), group=25, shard_groups=40, compact=None,
                ishard=150):
    """ck.run_cases with the cases that are expected to pass packed `group` to
    a Coq term (the per-case nat index of run_cases dominates Coq's time
    otherwise); members of a failing pack and the `suspects` (cases whose
    outcome is already known to differ) are evaluated one by one.  Returns
    pred -> sorted failing case indexes, exactly as run_cases would."""
    import resource
    import time as _time
    t0 = _time.time()
    ru0 = resource.getrusage(resource.RUSAGE_CHILDREN)
    suspects = set(suspects)
    packed = [i for i in range(len(cases)) if i not in suspects]
    groups = [packed[k:k + group] for k in range(0, len(packed), group)]
    redo = set(suspects)
    if groups:
        gpreds = ["(fun l => forallb (%s) l)" % p for p in preds]
        gtype, gcases = case_type, cases
        if compact:            # (type, cases, wrapper): a smaller literal for the packed cases
            gtype, gcases = compact[0], compact[1]
            gpreds = ["(fun l => forallb (fun c => %s (%s c)) l)" % (p, compact[2]) for p in preds]
        r = ck.run_cases(name + "_p", PRE, "list (%s)" % gtype,
                         [clist([gcases[i] for i in g], gtype) for g in groups], gpreds, shard=shard_groups)
        for gp in gpreds:
            for k in r[gp]:
                redo.update(groups[k])
    res = dict((p, []) for p in preds)
    ind = sorted(redo)
    if ind:
        r2 = ck.run_cases(name, PRE, case_type, [cases[i] for i in ind], preds, shard=ishard)
        for p in preds:
            res[p] = sorted(ind[j] for j in r2[p])
    ru1 = resource.getrusage(resource.RUSAGE_CHILDREN)
    ck.extra.setdefault("coq_cpu_s", {})[name] = round(ru1.ru_utime + ru1.ru_stime - ru0.ru_utime - ru0.ru_stime, 1)
    ck.extra.setdefault("coq_wall_s", {})[name] = round(_time.time() - t0, 1)
    ck.extra.setdefault("individually_evaluated", {})[name] = len(ind)
    return res


# ---------------------------------------------------------------------------
# the check
# ---------------------------------------------------------------------------

def run(ck):
    common.force_repo_path()
    from tools import gen_tables
    import suds.client   # noqa  (suds.sax.parser relies on suds.metrics being loaded)
    import suds.sax
    from suds.sax.enc import Encoder
    from suds.sax.text import Text
    from suds.sax.element import Element, PrefixNormalizer
    from suds.sax.document import Document
    from suds.sax.parser import Parser

    rng = ck.rng
    thorough = ck.tier == "thorough"
    ck.trusted = [
        "Coq 8.16.1 kernel + vm_compute (correspondence evaluation, bounded sweeps, _refuted witnesses); no native_compute",
        "tools/tables_c04.py: Encoder.encodings/decodings/special and the character-reference chains of "
        "Element.__escaped_text / Attribute.__unicode__ read from /repo (fail-closed on unknown regex shapes); "
        "CPython str.isspace table for str.strip",
        "correspondence harness harness/c04.py: generators, independent writer, start-tag scanner, "
        "expat (xml.parsers.expat, not suds' parser) as the independent XML processor",
        "modelled, not verified: re.sub / str.replace semantics (validated on every generated string), expat's "
        "tokenisation of a document into tags, character data chunks and attribute values (validated per case: "
        "req_oracle_ok / rep_oracle_ok compare the Coq XML decoder with expat)",
    ]
    ck.notes = [
        "an empty element / absent text is read as the empty string (suds returns None for an empty xsd:string)",
        "text of elements that have child elements is compared up to surrounding whitespace (suds trims it on "
        "parsing; the property names this)",
        "requests are judged twice: through slices located by an independent tokenizer (all positions, all "
        "strings) and, for a sample, as whole documents inside Coq (doc group: grammar of Tokens.v -> decoding -> "
        "Namespaces in XML), with the tree taken at the `marshalled` plugin hook as the model's input",
        "Name validity is not part of the Coq grammar (names are required to contain no delimiter); DOCTYPE is not "
        "handled; comments and processing instructions are",
    ]
    gen_tables.generate("C04Tables")
    proof_ok = ck.prove(THEOREMS)

    disagreements = {}
    timing = ck.extra.setdefault("timing_s", {})
    import time as _time
    clock = [_time.time()]

    def lap(name):
        now = _time.time()
        timing[name] = round(now - clock[0], 1)
        clock[0] = now
    lap("proof")

    def disagree(group, item):
        disagreements.setdefault(group, [])
        if len(disagreements[group]) < 5:
            disagreements[group].append(item)

    # ------------------------------------------------------------------ strings
    short = list(alpha_strings(4 if thorough else 3))
    mid = [alpha_random(rng, 4, 5) for _ in range(20000 if thorough else 1000)]
    longs = [random_string(rng) for _ in range(6000 if thorough else 700)]
    fixed = ["a &lt; b", "&lt;", "&amp;lt;", "x\ry", "x\r\ny", "a\tb\nc", "]]>", "<![CDATA[x]]>", "&#13;", "&#x26;",
             "SOAP-ENV:x", "tns:q", "xsi:z", "xml:k", "ns0:q", "ns1:q", "  lead trail  ", "", " ", "\n", "\r",
             "\U0001f600\u0085\u00a0", "'\"", "&", "&&amp;", "&amp", "& amp;", "\ufffd\ud7ff", "a]]>b"]

    # ------------------------------------------------------------------ enc
    enc = Encoder()
    pool = ([s for s in short if len(s) <= 2] + rng.sample(short, min(len(short), 6000 if thorough else 600))
            + mid[:600] + longs[:300] + fixed)
    cases, meta = [], []
    for s in pool:
        e = guard(enc.encode, s)
        d = guard(enc.decode, s)
        es = e[1] if e[0] == "ok" and isinstance(e[1], str) else "\x00" + repr(e)
        ds = d[1] if d[0] == "ok" and isinstance(d[1], str) else "\x00" + repr(d)
        cases.append("(%s, (%s, %s))" % (cstr(s), cstr(es), cstr(ds)))
        meta.append((s, es, ds))
        ck.seen(("enc", s), nontrivial=any(c in s for c in "&<>\"'"))
        ck.count("enc")
    ck.sample({"group": "enc", "value": "a<&lt;&", "encode": enc.encode("a<&lt;&"), "decode": enc.decode("a<&lt;&")})
    res = run_grouped(ck, "enc", "enc_case", cases, ["enc_agrees"])
    for i in res["enc_agrees"]:
        disagree("Encoder.encode/decode", {"value": meta[i][0], "encode": meta[i][1], "decode": meta[i][2]})

    lap("enc")
    # ------------------------------------------------------------------ txt
    cases, meta = [], []
    tpool = rng.sample(short, 500) + mid[:300] + longs[:200] + fixed
    for s in tpool:
        flag = rng.random() < 0.3
        op = rng.choice(["escape", "escape", "unescape", "trim", "add", "escape2"])
        if op == "trim":
            s = rng.choice(["", " ", "\n\t", "\u00a0", "\x1f", "  "]) + s + rng.choice(["", " ", "\r\n", "\u3000", "\x85"])
        other, oflag = None, None
        t = Text(s, escaped=flag)

        def call():
            if op == "escape":
                return t.escape()
            if op == "escape2":
                return t.escape().escape()
            if op == "unescape":
                return t.unescape()
            if op == "trim":
                return t.trim()
            return t + (Text(other, escaped=oflag) if oflag is not None else other)
        if op == "add":
            other = rng.choice(tpool)
            oflag = rng.choice([None, True, False])
        r = guard(call)
        if r[0] == "ok" and isinstance(r[1], Text):
            got = c_text(str(r[1]), bool(r[1].escaped))
        else:
            got = c_text("\x00" + repr(r), False)
        term = {"escape": "(OpEscape %s)", "escape2": "(OpEscape2 %s)", "unescape": "(OpUnescape %s)",
                "trim": "(OpTrim %s)"}.get(op)
        if term:
            term = term % c_text(s, flag)
        else:
            term = "(OpAdd %s %s %s)" % (c_text(s, flag), cstr(other), copt(None if oflag is None else cbool(oflag), "bool"))
        cases.append("(%s, %s)" % (term, got))
        meta.append((op, s, flag, other, oflag, repr(r)))
        ck.seen(("txt", op, s, flag, other, oflag))
        ck.count("txt-" + op)
    res = run_grouped(ck, "txt", "txt_case", cases, ["txt_agrees"])
    for i in res["txt_agrees"]:
        disagree("Text." + meta[i][0], {"case": repr(meta[i])})

    # ------------------------------------------------------------------ shared evaluation of req_case groups
    def eval_req(group, cases, meta):
        """meta[i] = dict(value, attr(bool), seen, raw, where, how, scope-rewrite(bool))"""
        res = run_grouped(ck, group, "req_case", [c_req(*c) for c in cases],
                          ["req_agrees", "req_spec_ok", "req_wf_ok", "req_oracle_ok"],
                          suspects=[i for i, m in enumerate(meta) if m["seen"] != m["value"]],
                          compact=("req_case3", ["(%s, %s, %s)" % (cstr(c[0]), c_pos(c[1]), cstr(c[2])) for c in cases],
                                   "expand3"))
        bad_spec = set(res["req_spec_ok"]) | set(res["req_wf_ok"])
        for i in sorted(bad_spec):
            m = meta[i]
            key, what = classify_req(m["value"], m["attr"], m["seen"])
            if i in set(res["req_wf_ok"]):
                key, what = None, None
            if key is None:
                if not is_legal(m["value"]):
                    continue
                key = "C04:%s-%s-roundtrip" % (group, "attr" if m["attr"] else "text")
                what = ("%s %r given %s is written as %r, which an XML parser reads as %r"
                        % ("attribute value" if m["attr"] else "element text", m["value"], m["where"], m["raw"], m["seen"]))
                normalised = (re.sub("\r\n|[\t\n\r]", " ", m["value"]) if m["attr"]
                              else re.sub("\r\n?", "\n", m["value"]))
                if m["seen"] == normalised:      # the defect repaired in f9fe39d is back
                    key = K_FIXED_WS
            ck.failing_input(key, what, dict(m, kind=group, codepoints=[ord(c) for c in m["value"]]))
        for i in res["req_agrees"]:
            if i not in bad_spec or classify_req(meta[i]["value"], meta[i]["attr"], meta[i]["seen"])[0]:
                disagree(group + " serialisation", {k: meta[i][k] for k in ("value", "attr", "raw", "where")})
        for i in res["req_oracle_ok"]:
            if i not in bad_spec:
                disagree(group + " XML decoder vs expat", {k: meta[i][k] for k in ("value", "raw", "seen")})
        return res

    lap("txt")
    # ------------------------------------------------------------------ ser (standalone Element)
    cases, meta = [], []

    def add_ser(s, attr, pretty, escaped=False):
        def build():
            e = Element("a")
            if attr:
                e.set("b", s)
            else:
                e.setText(s)
            doc = Document(e)
            return (doc.str() if pretty else doc.plain()).encode("utf-8")
        r = guard(build)
        where = "Element('a').%s; Document(e).%s()" % ("set('b', v)" if attr else "setText(v)", "str" if pretty else "plain")
        raw, seen, err = "\x00", None, None
        if r[0] == "ok":
            ix = guard(index_document, r[1])
            if ix[0] == "ok":
                root = ix[1]
                if attr:
                    raw = root.raw_attrs.get("b", "\x00missing")
                    seen = dict(root.attrs).get("b")
                else:
                    raw = root.raw_text if root.raw_text is not None else "\x00children"
                    seen = root.text()
            else:
                err = ix[1]
                raw = "\x00" + r[1].decode("utf-8", "replace")
        else:
            err = r[1]
        cases.append((s, ("attr", [], []) if attr else ("text",), raw, seen))
        meta.append({"value": s, "attr": attr, "seen": seen, "raw": raw, "where": where, "error": err,
                     "pretty": pretty})
        ck.seen(("ser", s, attr, pretty), nontrivial=any(c in s for c in "&<>\"'\r\n\t"))
        ck.count("ser-attr" if attr else "ser-text")

    n = 0
    for s in short + mid + longs + fixed:
        if not is_legal(s):
            continue
        add_ser(s, False, n % 2 == 0)
        # attribute position: every string of length <= 2, every 4th of length 3, every 2nd longer one
        # (all of them in the thorough tier)
        if thorough or len(s) <= 2 or (len(s) > 3 and n % 2 == 0) or n % 4 == 0:
            add_ser(s, True, n % 2 == 1)
        n += 1
    ck.sample({"group": "ser", "value": meta[2000]["value"], "raw": meta[2000]["raw"], "expat": meta[2000]["seen"]})
    eval_req("ser", cases, meta)

    lap("ser")
    # ------------------------------------------------------------------ esc (Text carrying the escaped flag)
    cases, meta = [], []
    epool = rng.sample(short, 250) + mid[:150] + longs[:100] + fixed
    from suds.sax.text import Raw
    for n, s in enumerate(epool):
        flag = n % 3 != 0
        israw = n % 7 == 3
        attr = n % 2 == 0
        pretty = n % 4 < 2
        # a Text flagged as escaped is written verbatim: only feed it content that is well-formed as it stands
        v = enc.encode(s) if flag and n % 5 else s

        def build():
            e = Element("a")
            val = Raw(v) if israw else Text(v, escaped=flag)
            if attr:
                e.set("b", val)
            else:
                e.setText(val)
            return (e.str() if pretty else e.plain())
        r = guard(build)
        raw = "\x00" + r[1]
        if r[0] == "ok":
            out = r[1]
            if attr and out.startswith('<a b="') and out.endswith('"/>'):
                raw = out[len('<a b="'):-len('"/>')]
            elif not attr and v and out.startswith("<a>") and out.endswith("</a>"):
                raw = out[3:-4]
            elif not attr and not v:
                raw = "" if out == "<a></a>" else "\x00" + out
        cases.append("(%s, %d%%N, %s, %s)" % (cstr(v), 2 if israw else int(flag), cbool(attr), cstr(raw)))
        meta.append({"value": v, "escaped": flag, "Raw": israw, "attr": attr, "raw": raw})
        ck.seen(("esc", v, flag, israw, attr), nontrivial=flag or israw)
        ck.count("esc-raw" if israw else "esc")
    res = run_grouped(ck, "esc", "esc_case", cases, ["esc_agrees"])
    for i in res["esc_agrees"]:
        disagree("serialisation of Text(escaped=%s)" % meta[i]["escaped"], meta[i])
    lap("esc")

    # ------------------------------------------------------------------ refit (PrefixNormalizer on standalone trees)
    cases, meta = [], []
    uris = ["urn:a", "urn:b", "urn:c", XSI, XSD, SOAPENV]
    for _ in range(1500 if thorough else 300):
        root_decl = dict((p, rng.choice(uris)) for p in rng.sample(["p", "q", "xsi", "xs", "xsd", "tns", "ns0", "ns1"],
                                                                 rng.randrange(1, 5)))
        kid_decl = dict((p, rng.choice(uris)) for p in rng.sample(["p", "q", "r", "ns0"], rng.randrange(0, 3)))
        pfx = rng.choice(list(root_decl) + list(kid_decl) + ["zz", "xml", "xsi", "xs"])
        rest = rng.choice(["x", "", "a:b", "q x", "<&>", "\t"]) if rng.random() < 0.5 else alpha_random(rng, 0, 4)
        v = rng.choice([pfx + ":" + rest, pfx + ":" + rest, rest, ":" + rest, pfx])
        on_kid = rng.random() < 0.6

        def build():
            r = Element("r")
            r.nsprefixes.update(root_decl)
            k = Element("k")
            k.nsprefixes.update(kid_decl)
            r.append(k)
            (k if on_kid else r).set("v", v)
            pn = PrefixNormalizer(r)
            pi = dict(pn.prefixes)
            pn.refit()
            return pi, r.plain().encode("utf-8")
        r = guard(build)
        scope = (list(kid_decl.items()) if on_kid else []) + list(root_decl.items())
        raw, seen, pi = "\x00", None, []
        if r[0] == "ok":
            pi = list(r[1][0].items())
            ix = guard(index_document, r[1][1])
            if ix[0] == "ok":
                n_ = ix[1].find("k") if on_kid else ix[1]
                raw = n_.raw_attrs.get("v", "\x00missing")
                seen = dict(n_.attrs).get("v")
            else:
                raw = "\x00" + ix[1]
        else:
            raw = "\x00" + r[1]
        cases.append((v, ("attr", scope, pi), raw, seen))
        meta.append({"value": v, "attr": True, "seen": seen, "raw": raw, "scope": scope, "pi": pi,
                     "root_decl": root_decl, "kid_decl": kid_decl, "on_kid": on_kid,
                     "where": "as attribute v on %s of <r %s><k %s/></r>; PrefixNormalizer(r).refit(); r.plain()"
                              % ("k" if on_kid else "r", root_decl, kid_decl)})
        ck.seen(("refit", v, tuple(sorted(scope))), nontrivial=":" in v)
        ck.count("refit")
    eval_req("refit", cases, meta)

    lap("refit")
    # ------------------------------------------------------------------ req (operation arguments -> envelope)
    clients = Clients()
    cases, meta = [], []
    # scope of prefixes on the request tree before normalisation: read from the
    # prefixes=False envelope (refitPrefixes keeps every declaration) by expat
    scopes = {}
    for op in OPS:
        probe = guard(lambda: index_document(clients.request((False, False), ("x",) * 5, op)))
        if probe[0] == "ok":
            w = body_wrapper(probe[1])
            for label, path, attr in REQ_POS:
                node = w.path(*path) if w is not None else None
                scopes[op, label] = scope_at(probe[1], node) if node is not None else []
    # mostly medium-sized values (the long ones went through the standalone serialisers above)
    medium = [random_string(rng, 40) for _ in range(3000 if thorough else 500)]
    rpool = (fixed + rng.sample(short, 400) + mid[:500] + medium + longs[:2000 if thorough else 60]
             + [q + alpha_random(rng, 0, 3) for q in QNAMEY * 3])
    rpool = [s for s in rpool if is_legal(s)]
    ncalls = 6000 if thorough else 450
    for n in range(ncalls):
        cfg = CONFIGS[n % 4]
        op = OPS[(n // 4) % 3]
        vs = tuple(rng.choice(rpool) for _ in range(5))
        if n < 3 * len(fixed):
            vs = (fixed[n // 3],) * 5
            op = OPS[n % 3]
        r = guard(clients.request, cfg, vs, op)
        ix = guard(index_document, r[1]) if r[0] == "ok" else ("err", r[1])
        w = body_wrapper(ix[1]) if ix[0] == "ok" else None
        if n == 3:
            ck.sample({"group": "req", "operation": op, "config": "prettyxml=%s prefixes=%s" % cfg, "values": vs,
                       "envelope": r[1].decode("utf-8", "replace")[:900] if r[0] == "ok" else r[1]})
        for (label, path, attr), s in zip(REQ_POS, vs):
            node = w.path(*path) if w is not None else None
            raw, seen, pos = "\x00" + (ix[1] if ix[0] == "err" else "no such element"), None, ("text",)
            if attr:
                pos = ("attr", [], [])
            if node is not None:
                if attr:
                    raw = node.raw_attrs.get(attr, "\x00missing")
                    seen = dict(node.attrs).get(attr)
                    if cfg[1]:
                        here = scope_at(ix[1], node)
                        pi = [(u, p) for p, u in here if re.fullmatch(r"ns\d+", p)]
                        pos = ("attr", scopes.get((op, label), []), pi)
                else:
                    raw = node.raw_text if node.raw_text is not None else "\x00children"
                    seen = node.text()
            cases.append((s, pos, raw, seen))
            meta.append({"value": s, "attr": bool(attr), "seen": seen, "raw": raw, "position": label,
                         "prettyxml": cfg[0], "prefixes": cfg[1], "operation": op,
                         "where": "as %s of operation %s (%s; prettyxml=%s, prefixes=%s); RequestContext.envelope"
                                  % (label, op, OP_STYLE[op], cfg[0], cfg[1])})
            ck.seen(("req", s, label, cfg, op), nontrivial=bool(s))
            ck.count("req-" + label)
            ck.count("req-op-" + op)
    eval_req("req", cases, meta)

    lap("req")
    # ------------------------------------------------------------------ doc (requests judged as whole documents)
    cases, meta = [], []
    ndoc = 1500 if thorough else 150
    dpool = [s for s in fixed + medium[:300] + mid[:200] + rng.sample(short, 200)
             + [q + alpha_random(rng, 0, 3) for q in QNAMEY] if is_legal(s) and len(s) <= 48]
    for n in range(ndoc):
        cfg = CONFIGS[n % 4]
        op = OPS[(n // 4) % 3]
        vs = tuple(rng.choice(dpool) for _ in range(5))
        clients.last_tree = None
        r = guard(clients.request, cfg, vs, op)
        tree = clients.last_tree
        doc = r[1].decode("utf-8", "replace") if r[0] == "ok" else "\x00" + r[1]
        positions, seen_all, err = [], [], None
        nsroot = guard(clients.U.expat_parse, r[1]) if r[0] == "ok" else ("err", r[1])
        if nsroot[0] == "ok":
            # path of (child index, expanded name) as the independent namespace-aware parser reports them
            root = nsroot[1]
            body_i = [i for i, c in enumerate(root.elements()) if c.name == "Body"]
            wrap = root.elements()[body_i[0]].elements()[0] if body_i and root.elements()[body_i[0]].elements() else None
            base = [(0, (root.ns, root.name))]
            if wrap is not None:
                base += [(body_i[0], (root.elements()[body_i[0]].ns, "Body")), (0, (wrap.ns, wrap.name))]
                for (label, path, attr), s in zip(REQ_POS, vs):
                    node, steps = wrap, []
                    for l in path:
                        idx = [i for i, c in enumerate(node.elements()) if c.name == l]
                        if not idx:
                            node = None
                            break
                        node = node.elements()[idx[0]]
                        steps.append((idx[0], (node.ns, node.name)))
                    if node is None:
                        continue
                    positions.append((base + steps, (None, attr) if attr else None, s))
                    seen_all.append(node.attrs.get((None, attr)) if attr else node.own_text())
            if (root.ns, root.name) != (SOAPENV, "Envelope") or not body_i or wrap is None \
                    or root.elements()[body_i[0]].ns != SOAPENV or (wrap.ns, wrap.name) != (TNS, {"f": "Wrapper"}.get(op, op)):
                err = "frame"
        else:
            err = nsroot[1]
        if tree is None:
            tree = (None, "\x00no-tree", None, [], [], None, [])
        if len(positions) != 5:
            positions = positions + [([(0, (None, "\x00missing"))], None, "")]
        cases.append("(%s, %s, %s, %s)" % (c_nelem(tree), cbool(cfg[0]), cstr(doc),
                                           clist([c_position(p) for p in positions], "position_t")))
        meta.append({"values": vs, "seen": seen_all, "operation": op, "prettyxml": cfg[0], "prefixes": cfg[1],
                     "document": doc, "error": err})
        ck.seen(("doc", vs, op, cfg), nontrivial=True)
        ck.count("doc-" + op)
    if ndoc:
        ck.sample({"group": "doc", "operation": meta[1]["operation"], "values": meta[1]["values"],
                   "document": meta[1]["document"][:1200]})
    res = run_grouped(ck, "doc", "doc_case", cases, ["doc_agrees", "doc_spec_ok"],
                      suspects=[i for i, m in enumerate(meta) if list(m["seen"]) != list(m["values"])],
                      group=5, shard_groups=3, ishard=12)
    bad_spec = set(res["doc_spec_ok"])
    for i in sorted(bad_spec):
        m = meta[i]
        keys = [classify_req(v, lab in ("t@a", "c@a"), sn)[0] if sn != v else "same"
                for v, sn, lab in zip(m["values"], list(m["seen"]) + [None] * 5, [p[0] for p in REQ_POS])]
        if m["error"] is None and len(m["seen"]) == 5 and all(k for k in keys) and any(k != "same" for k in keys):
            for k, v, sn, lab in zip(keys, m["values"], m["seen"], [p[0] for p in REQ_POS]):
                if k != "same":
                    ck.failing_input(k, classify_req(v, lab in ("t@a", "c@a"), sn)[1], dict(m, kind="doc"))
            continue
        ck.failing_input("C04:request-document",
                         "operation %s (%s; prettyxml=%s, prefixes=%s) given %r sends a document in which the XML grammar, "
                         "decoding and namespace resolution do not find these strings at their positions "
                         "(independent parser reads %r; %s)" % (m["operation"], OP_STYLE[m["operation"]], m["prettyxml"],
                                                                m["prefixes"], m["values"], m["seen"], m["error"]),
                         dict(m, kind="doc"))
    for i in res["doc_agrees"]:
        disagree("whole-document serialisation (nsdeclarations / Element.plain,str / Document)",
                 {k: meta[i][k] for k in ("values", "operation", "prettyxml", "prefixes", "document")})

    lap("doc")
    # ------------------------------------------------------------------ rep (independent writer -> suds)
    cases, meta = [], []
    ppool = fixed + rng.sample(short, 500) + mid[:400] + medium + longs[:2000 if thorough else 80]
    ppool = [s for s in ppool if is_legal(s)]
    nrep = 6000 if thorough else 700
    for n in range(nrep):
        q = rng.choice(['"', "'"])
        vs = [rng.choice(ppool) for _ in range(5)]
        if n < len(fixed) and is_legal(fixed[n]):
            vs = [fixed[n]] * 5
        encoding, maxlit = rng.choice(ENCODINGS)
        indent = rng.random() < 0.4
        pcs = [write_pieces(rng, s, attr=(i in (2, 4)), q=q, maxlit=maxlit) for i, s in enumerate(vs)]
        raws = [render_pieces(p) for p in pcs]
        noisy = rng.random() < 0.35

        def misc():
            if not noisy or rng.random() < 0.5:
                return ""
            return ("<!--%s-->" % comment_body(rng, maxlit) if rng.random() < 0.6 else "<?%s?>" % pi_body(rng, maxlit))
        lang = rng.choice([None, None, "en", "de-AT"])
        sent, data = clients.reply(raws, q, encoding, indent, misc, lang)
        via_inject = n % 3 == 0
        r = guard(clients.process_reply, sent, via_inject)
        ix = guard(index_document, data)
        if ix[0] != "ok":
            raise RuntimeError("the independent writer produced an ill-formed reply: %s\n%r" % (ix[1], data))
        out = body_wrapper(ix[1])
        if r[0] == "ok" and r[1][0] is not None and clients.last_lang != lang:
            ck.failing_input("C04:reply-xml-lang", "xml:lang=%r on a string element comes back as lang=%r"
                             % (lang, clients.last_lang), {"kind": "rep", "value": vs[0], "position": "s",
                                                           "reply": data.decode("utf-8"), "encoding": encoding})
        if noisy:
            ck.count("rep-with-comments-and-PIs-between-elements")
        if n == 5:
            ck.sample({"group": "rep", "strings": vs, "reply": data.decode("utf-8")[:900], "suds": repr(r[1])[:400]})
        for i, ((label, path, attr), s) in enumerate(zip(REQ_POS, vs)):
            path = ("r",) if label == "s" else path
            node = out.path(*path)
            if attr:
                chunks = [dict(node.attrs)[attr]]
            else:
                chunks = node.chunks
            got = r[1][i] if r[0] == "ok" else "\x00" + r[1]
            cases.append("(%s, %s, %d%%N, %s, %s, %s)" % (
                clist([c_piece(p) for p in pcs[i]], "piece"), cbool(bool(attr)), ord(q), cstr(raws[i]),
                clist([cstr(c) for c in chunks], "str"), c_ostr(got)))
            meta.append({"value": s, "attr": bool(attr), "raw": raws[i], "got": got, "position": label,
                         "reply": data.decode("utf-8"), "encoding": encoding,
                         "via": "__inject" if via_inject else "RequestContext.process_reply"})
            ck.seen(("rep", raws[i], label), nontrivial=bool(len(pcs[i]) > 1 or (pcs[i] and pcs[i][0][0] != "lit")))
            ck.count("rep-" + ("attr" if attr else "text"))
            ck.count("rep-" + encoding + ("-indented" if indent else ""))
            for kind, _ in pcs[i]:
                ck.count("piece-" + kind)
    res = run_grouped(ck, "rep", "rep_case", cases,
                      ["rep_writer_ok", "rep_agrees", "rep_spec_ok", "rep_oracle_ok"],
                      suspects=[i for i, m in enumerate(meta) if (m["got"] or "") != m["value"]], group=10)
    if res["rep_writer_ok"]:
        i = res["rep_writer_ok"][0]
        raise RuntimeError("independent writer / Coq render_pieces out of step on %r" % (meta[i],))
    bad_spec = set(res["rep_spec_ok"])
    for i in sorted(bad_spec):
        m = meta[i]
        ck.failing_input("C04:reply-%s" % ("attr" if m["attr"] else "text"),
                         "reply content %r (%s, position %s) denotes %r but suds hands back %r"
                         % (m["raw"], "attribute value" if m["attr"] else "element text", m["position"], m["value"], m["got"]),
                         dict(m, kind="rep", codepoints=[ord(c) for c in m["value"]]))
    for i in res["rep_agrees"]:
        if i not in bad_spec:
            disagree("reply reading (Handler/umx)", {k: meta[i][k] for k in ("value", "raw", "got", "position")})
    for i in res["rep_oracle_ok"]:
        if i not in bad_spec:
            disagree("reply XML decoder vs expat", {k: meta[i][k] for k in ("value", "raw")})

    lap("rep")
    # ------------------------------------------------------------------ tree
    cases, meta = [], []
    ntree = 3000 if thorough else 450
    for n in range(ntree):
        t = random_tree(rng)
        for pretty in (False, True):
            def build():
                doc = Document(build_element(t))
                return doc.str() if pretty else doc.plain()
            r = guard(build)
            out, evs, reread = "\x00", [], None
            if r[0] == "ok" and r[1].startswith(Document.DECL + ("\n" if pretty else "")):
                data = r[1].encode("utf-8")
                out = r[1][len(Document.DECL) + (1 if pretty else 0):]
                e = guard(sax_events, data)
                evs = e[1] if e[0] == "ok" else [("chars", "\x00" + e[1])]
                p = guard(lambda: dump_element(Parser().parse(string=data).root()))
                reread = p[1] if p[0] == "ok" else None
            elif r[0] == "ok":
                out = "\x00" + r[1]
            else:
                out = "\x00" + r[1]
            cases.append("(%s, %s, %s, %s, %s)" % (
                c_elem(t), cbool(pretty), cstr(out), clist([c_ev(x) for x in evs], "ev"),
                copt(None if reread is None else c_dumped(reread), "elem")))
            meta.append({"tree": repr(t), "pretty": pretty, "out": out})
            ck.seen(("tree", repr(t), pretty), nontrivial=bool(t[3]) or bool(t[2]))
            ck.count("tree-pretty" if pretty else "tree-plain")
    ck.sample({"group": "tree", "tree": meta[7]["tree"], "pretty": meta[7]["pretty"], "out": meta[7]["out"]})
    res = run_grouped(ck, "tree", "tree_case", cases, ["tree_agrees", "tree_spec_ok", "tree_tokens_ok"],
                      suspects=[i for i, m in enumerate(meta) if ENTITY_RE.search(m["tree"])], group=10)
    bad_spec = set(res["tree_spec_ok"])
    for i in sorted(bad_spec):
        m = meta[i]
        if ENTITY_RE.search(m["tree"]):
            ck.failing_input(K_ENTITY, "a value that already contains a predefined entity reference is written verbatim", m)
            continue
        ck.failing_input("C04:tree-%s-roundtrip" % ("pretty" if m["pretty"] else "plain"),
                         "the standalone tree %s serialised with Document.%s() is not read back as the same tree: %r"
                         % (m["tree"], "str" if m["pretty"] else "plain", m["out"]), dict(m, kind="tree"))
    for i in res["tree_agrees"]:
        if i not in bad_spec or ENTITY_RE.search(meta[i]["tree"]):
            disagree("tree serialisation / parser", meta[i])
    for i in res["tree_tokens_ok"]:
        if i not in bad_spec:
            disagree("XML grammar of coq/C04/Tokens.v vs expat", meta[i])

    lap("tree")
    # ------------------------------------------------------------------ thorough: the full sweep named by the quantifier
    if thorough:
        sweep_python(ck, Element, Document)

    ck.rule = ("strings: every string of length <= %d over the %d-symbol alphabet %r, %d random strings of length 4-5 "
               "over it, %d random strings over the XML Char production (ASCII, markup, entity fragments, "
               "whitespace incl. NBSP/NEL/LS, BMP, astral, boundary code points) up to length 200, plus fixed probes; "
               "each as element text (and, for every string of length <= 2, every 4th of length 3 and every 2nd longer one, as "
               "attribute value) of a standalone Element (pretty/plain alternating); Text objects carrying the escaped "
               "flag through both serialisers; attribute values through PrefixNormalizer on trees with random prefix "
               "declarations; a "
               "sample as arguments of a document/literal, an rpc/literal and an rpc/encoded operation under 4 client "
               "configurations (5 positions per call; located slices, and %d calls judged as whole documents in Coq) and, "
               "encoded by the independent writer under a random mix of literal/entity/decimal/hex/CDATA forms, as "
               "reply content (5 positions per reply; comments and processing instructions inside the text, "
               "between elements and around the root; xml:lang; replies in UTF-8, UTF-16, ISO-8859-1 or US-ASCII, "
               "compact or indented); random standalone trees under both serialisers re-read by "
               "suds' parser and expat. distinct = distinct (group, input, position, configuration); non-trivial = "
               "contains a markup-significant or whitespace character / uses a non-literal piece / has text or children"
               % (4 if thorough else 3, len(ALPHA), ALPHA, len(mid), len(longs), ndoc))
    ck.exhaustive = False
    ck.extra["alphabet"] = ALPHA

    if not proof_ok:
        ck.unproved("proof obligation of C04 no longer checks: " + ck.proof_log[-1500:],
                    {"theorems": THEOREMS, "log": ck.proof_log[-3000:]})
    if disagreements:
        ck.unproved("model/implementation correspondence of C04 no longer holds (the implementation is no longer "
                    "the algorithm the theorems are about): " + ", ".join(sorted(disagreements)),
                    {"disagreements": disagreements})


def sweep_python(ck, Element, Document):
    """Thorough tier: every string of length <= 5 over the alphabet as text and as
    attribute value of a standalone element, read back by expat (no Coq evaluation:
    the lengths <= 4 went through Coq above)."""
    n = 0
    for t in itertools.product(ALPHA, repeat=5):
        s = "".join(t)
        e = Element("a")
        e.setText(s)
        e.set("b", s)
        try:
            data = (e.plain() if n % 2 else e.str()).encode("utf-8")
            root = index_document(data)
            seen_t, seen_a = root.text(), dict(root.attrs).get("b")
        except Exception as ex:   # noqa
            seen_t = seen_a = "\x00" + repr(ex)
        n += 1
        for attr, seen in ((False, seen_t), (True, seen_a)):
            if seen != s:
                key, what = classify_req(s, attr, seen)
                if key is None:
                    key = "C04:ser-%s-roundtrip" % ("attr" if attr else "text")
                    what = "%r as %s of a standalone element reads back as %r" % (s, "attribute" if attr else "text", seen)
                ck.failing_input(key, what, {"kind": "ser", "value": s, "attr": attr, "seen": seen, "pretty": n % 2 == 0})
        ck.evaluations += 2
    ck.count("sweep-len5", 2 * n)
    ck.exhaustive = True


# ---------------------------------------------------------------------------
# replay
# ---------------------------------------------------------------------------

def replay(ck, payload):
    common.force_repo_path()
    import suds.client   # noqa
    from suds.sax.element import Element
    from suds.sax.document import Document
    print(payload.get("what"))
    kind = payload.get("kind")
    v = payload.get("value")
    try:
        if kind == "ser":
            e = Element("a")
            if payload.get("attr"):
                e.set("b", v)
            else:
                e.setText(v)
            data = (Document(e).str() if payload.get("pretty") else Document(e).plain()).encode("utf-8")
            root = index_document(data)
            print("serialised now:", data.decode("utf-8"))
            print("expat reads   :", repr(dict(root.attrs).get("b") if payload.get("attr") else root.text()), " sent:", repr(v))
        elif kind == "req":
            cl = Clients()
            pos = payload["position"]
            vs = ["x"] * 5
            vs[[p[0] for p in REQ_POS].index(pos)] = v
            data = cl.request((payload["prettyxml"], payload["prefixes"]), tuple(vs), payload.get("operation", "f"))
            print("envelope now:", data.decode("utf-8"))
            w = body_wrapper(index_document(data))
            label, path, attr = [p for p in REQ_POS if p[0] == pos][0]
            node = w.path(*path)
            print("expat reads :", repr(dict(node.attrs).get(attr) if attr else node.text()), " sent:", repr(v))
        elif kind == "doc":
            cl = Clients()
            data = cl.request((payload["prettyxml"], payload["prefixes"]), tuple(payload["values"]),
                              payload.get("operation", "f"))
            print("document now:", data.decode("utf-8"))
            print("values given:", payload["values"])
        elif kind == "refit":
            from suds.sax.element import PrefixNormalizer
            r = Element("r")
            r.nsprefixes.update(payload["root_decl"])
            k = Element("k")
            k.nsprefixes.update(payload["kid_decl"])
            r.append(k)
            (k if payload["on_kid"] else r).set("v", v)
            PrefixNormalizer(r).refit()
            print("after PrefixNormalizer(r).refit():", r.plain(), " value was:", repr(v))
        elif kind == "tree":
            import ast
            from suds.sax.parser import Parser
            t = ast.literal_eval(payload["tree"])
            doc = Document(build_element(t))
            out = doc.str() if payload.get("pretty") else doc.plain()
            print("serialised now:", out)
            print("suds re-reads :", dump_element(Parser().parse(string=out.encode("utf-8")).root()))
            print("tree was      :", t)
        elif kind == "rep":
            cl = Clients()
            print("reply (sent in %s):" % payload.get("encoding", "UTF-8"), payload["reply"])
            enc_ = payload.get("encoding", "UTF-8")
            data = payload["reply"].replace('encoding="UTF-8"', 'encoding="%s"' % enc_, 1).encode(enc_)
            print("suds returns now:", cl.process_reply(data, payload.get("via") == "__inject"))
            print("position %s should be %r" % (payload["position"], v))
        else:
            print(payload)
    except Exception as e:   # noqa
        print("implementation raised:", repr(e))
    return 0
