"""C03 — factory-built objects mirror the schema type they are created from.

Proof: coq/C03/Props.v (over the model coq/C03/Model.v of PathResolver /
BlindQuery / Builder / sudsobject.Iter and the checker coq/C03/Spec.v written
from the property text).  Tie to the code: every named type / element /
dotted member of every generated WSDL, in every spelling, is given to
client.factory.create; the canonical iteration of what comes back is judged
inside Coq against the model (create_agrees) and by the specification
(create_spec_ok).  PathResolver.split/qualify are also driven directly on
adversarial strings.  Object-vs-dict requests are compared as namespace
infosets (expat).
"""
import copy
import logging
import os

from . import common, family as F
from .common import cN, cbool, clist, copt, cstr

THEOREMS = [
    "create_meets_spec", "create_meets_strict_spec_partial", "create_undeclared_prefix_raises", "create_mirrors_type", "member_object_mirrors_type", "build_fuel_sufficient",
    "split_wellformed", "split_fuel_sufficient", "qualify_spellings", "create_spelling_independent",
    "create_known_name_mirrors", "create_unknown_raises", "create_never_partial",
    "content_model_flattening_agrees", "object_vs_dict_request", "filled_object_vs_dict",
    "prebuilt_member_carries_declared_type", "fill_marks_declared_types",
    "compound_choice_branch_marked", "deep_search_finds_local_names_only",
    "strict_reading_refuted", "malformed_path_accepted",
]

PRE = "From SV Require Import Lib.Base Fam.Schema C03.Model C03.Spec."

# finding classes with a fixed wording (the others are worded where they are found)
FINDINGS = {
    "C03:undeclared-prefix-raises-plain-exception":
        "factory.create(%r) with a prefix the WSDL does not declare raises a bare Exception (%s) instead of "
        "TypeNotFound (repaired in /repo by 4632494: this is a regression)",
    "C03:enum-member-prebuilt-as-property":
        "a required non-repeating member whose type is an enumeration is pre-built as a Property object "
        "{value = None} instead of None: factory.create(%r) = %s",
}

HID = 50          # namespace index offset of the (unnameable) anonymous complex types

ENUM_VALUES = ["red", "green", "v1", "A", "b-c", "dark blue", "x_y", "Z9"]


# ---------------------------------------------------------------------------
# the family, extended with what C03 needs (recursion, enumerations, wildcards,
# empty types, same-named members in unrelated types, global elements in every
# namespace, several prefixes per namespace)
# ---------------------------------------------------------------------------

class Simple(object):
    def __init__(self, name, ns, vals):
        self.name = name
        self.ns = ns
        self.vals = vals            # [] = restriction without enumeration


class GElem(object):
    def __init__(self, name, ns, tref):
        self.name = name
        self.ns = ns
        self.tref = tref


def all_elems(S):
    """every local Elem with its owning type and its container"""
    out = []

    def walk(t, c):
        for k in c.kids:
            if isinstance(k, F.Cont):
                walk(t, k)
            elif isinstance(k, F.Elem):
                out.append((t, c, k))
    for t in S.types:
        for c in t.content:
            if isinstance(c, F.Cont):
                walk(t, c)
    return out


def all_conts(S):
    out = []

    def walk(t, c):
        out.append((t, c))
        for k in c.kids:
            if isinstance(k, F.Cont):
                walk(t, k)
    for t in S.types:
        for c in t.content:
            if isinstance(c, F.Cont):
                walk(t, c)
    return out


def clone_content(content):
    """a copy of a content model for an anonymous type; an inline type is written once, so a
    copied member that itself has an inline type gets a built-in type instead"""
    c = copy.deepcopy(content)

    def walk(p):
        if isinstance(p, F.Cont):
            p.group = None                     # a named group is referenced once
            for k in p.kids:
                walk(k)
        elif isinstance(p, F.Elem):
            p.ref = False
            if p.tref[0] == "n" and p.tref[1] >= HID:
                p.tref = ("b", "string")
    for p in c:
        walk(p)
    return c


def group_elem_names(S):
    """names of the elements declared inside named groups (ElementQuery's deep search reaches
    them through the group definition, which the model does not represent)"""
    out = set()
    for (t, c) in all_conts(S):
        if getattr(c, "group", None):
            out.update(e.name for e in leaf_elems(c))
    return out


def related(S, a, b):
    return S.derived_from(a, b) or S.derived_from(b, a)


def add_shapes(rng, S):
    """fixed shapes every interface carries (in random namespaces):
    Drawing{seg: Segment{start: Point, end: Point}, shape: Shape, title?}   two same-typed required
        complex siblings below the top level (history must be copied per child);
    Shape{id, choice(circle | square | pt: Point), label, @unit}            a choice followed by
        sequence members and an attribute (sudsobject.Iter ordering vs insertion order);
    Order{customer: Customer{name, address: Address{street, city, @kind}}, total, @ref}
        dotted paths of >= 3 parts through elements typed by reference to named types."""
    nns = len(S.namespaces)

    def E(name, ns, tref, **kw):
        e = F.Elem(name, ns, S.namespaces[ns][1], tref, **kw)
        e.pinned = True
        return e

    def T(name, kids, attrs):
        ns = rng.randrange(nns)
        t = F.CType(name, ns, None, [F.Cont("sequence", False, kids(ns))], attrs)
        t.pinned = True
        S.types.append(t)
        return t

    point = T("Point", lambda ns: [E("x", ns, ("b", "int")), E("y", ns, ("b", "int"))],
              [F.Attr("unit", "string", default="adef")])
    P = ("n", point.ns, point.name)
    seg = T("Segment", lambda ns: [E("start", ns, P), E("end", ns, P)], [])
    def grouped(cont, name):
        cont.group = name
        return cont

    # the choice has simple branches and COMPOUND ones: a nested sequence, a nested all, a group ref
    shape = T("Shape", lambda ns: [E("id", ns, ("b", "int")),
                                   F.Cont("choice", False, [E("circle", ns, ("b", "int")),
                                                            E("square", ns, ("b", "string")),
                                                            E("pt", ns, P),
                                                            F.Cont("sequence", False, [E("w", ns, ("b", "int")),
                                                                                       E("h", ns, P)]),
                                                            F.Cont("all", False, [E("rx", ns, ("b", "int"))]),
                                                            grouped(F.Cont("sequence", False,
                                                                           [E("gw", ns, ("b", "int")),
                                                                            E("gh", ns, ("b", "int"))]),
                                                                    "GShape")]),
                                   E("label", ns, ("b", "string"))],
              [F.Attr("unit", "string", default="adef")])
    T("Drawing", lambda ns: [E("seg", ns, ("n", seg.ns, seg.name)), E("shape", ns, ("n", shape.ns, shape.name)),
                             E("title", ns, ("b", "string"), opt=True)], [])
    addr = T("Address", lambda ns: [E("street", ns, ("b", "string")), E("city", ns, ("b", "string"))],
             [F.Attr("kind", "string")])
    cust = T("Customer", lambda ns: [E("name", ns, ("b", "string")), E("address", ns, ("n", addr.ns, addr.name))], [])
    money = T("Money", lambda ns: [], [F.Attr("cur", "string", default="adef"), F.Attr("exact", "boolean")])
    money.content = []
    money.simple_base = "decimal"                       # <simpleContent><extension base="xsd:decimal">
    nns_ = rng.randrange(nns)
    S.gelems.append(GElem("note", nns_, ("b", "string")))

    def order_kids(ns):
        r = F.Elem("note", nns_, True, ("b", "string"), opt=True)      # <xsd:element ref="..:note" minOccurs="0"/>
        r.pinned = True
        r.ref = True
        return [E("customer", ns, ("n", cust.ns, cust.name)), E("total", ns, ("n", money.ns, money.name)), r]
    T("Order", order_kids, [F.Attr("ref", "string", required=True)])


def gen_interface(rng):
    S = F.gen_schema(rng, allow_any=True, max_types=5)
    nns = len(S.namespaces)
    S.simples = []
    S.gelems = []
    feats = set()
    # simple types
    for k in range(rng.choice([0, 1, 1, 2, 3])):
        vals = []
        if rng.random() < 0.75:
            vals = rng.sample(ENUM_VALUES, rng.randrange(1, 5))
        S.simples.append(Simple("S%d" % k, rng.randrange(nns), vals))
    elems = all_elems(S)
    for (t, c, e) in elems:
        if S.simples and e.tref[0] == "b" and e.default is None and rng.random() < 0.2:
            s = rng.choice(S.simples)
            e.tref = ("n", s.ns, s.name)
            feats.add("enum-member" if s.vals else "simple-member")
    # an empty type / a type with attributes only, used by some member
    if rng.random() < 0.3:
        attrs = [F.Attr("ax", "string", default=rng.choice([None, "adef"]))] if rng.random() < 0.5 else []
        et = F.CType("TE", rng.randrange(nns), None, [] if rng.random() < 0.5 else [F.Cont("sequence", False, [])],
                     attrs)
        S.types.append(et)
        cands = [x for x in elems if x[2].default is None]
        for (t, c, e) in rng.sample(cands, min(len(cands), rng.choice([1, 2]))):
            e.tref = ("n", et.ns, et.name)
        feats.add("attrs-only-type" if attrs else "empty-type")
    # recursion: members referring to their own or to later types
    for t in S.types:
        if rng.random() < 0.4:
            own = [x for x in elems if x[0] is t and x[2].default is None]
            if own:
                (_, c, e) = rng.choice(own)
                tgt = t if rng.random() < 0.5 else rng.choice(S.types)
                e.tref = ("n", tgt.ns, tgt.name)
                if rng.random() < 0.6:
                    e.opt = False
                    if c.kind != "all" and rng.random() < 0.8:
                        e.multi = False
                feats.add("recursive-ref")
    # wildcards
    if rng.random() < 0.35:
        seqs = [c for (_, c) in all_conts(S) if c.kind in ("sequence", "choice")]
        if seqs:
            c = rng.choice(seqs)
            c.kids.insert(rng.randrange(len(c.kids) + 1), F.Any())
            feats.add("wildcard")
    # same member name in unrelated types
    if rng.random() < 0.4 and len(S.types) > 1 and elems:
        for _ in range(3):
            (ta, ca, ea), (tb, cb, eb) = rng.choice(elems), rng.choice(elems)
            if ta is not tb and not related(S, ta, tb):
                ea.name = eb.name
                feats.add("same-name-in-two-types")
                break
    # simpleContent types (extension of a built-in by attributes; without attributes: no members at all)
    for k in range(rng.choice([0, 0, 1, 2])):
        attrs = [F.Attr("m%d%d" % (k, j), rng.choice(["string", "int"]), default=rng.choice([None, "adef"]))
                 for j in range(rng.choice([0, 1, 1, 2]))]
        mt = F.CType("M%d" % k, rng.randrange(nns), None, [], attrs)
        mt.simple_base = rng.choice(["string", "decimal", "int"])
        S.types.append(mt)
        cands = [x for x in elems if x[2].default is None and x[2].tref[0] == "b"]
        for (t, c, e) in rng.sample(cands, min(len(cands), rng.choice([1, 2]))):
            e.tref = ("n", mt.ns, mt.name)
            if rng.random() < 0.6:
                e.opt = False
                if c.kind != "all":
                    e.multi = False
        feats.add("simpleContent-type" if attrs else "simpleContent-type-without-attributes")
    # <element ref=".."/> members: the member takes name, namespace and type of a global element
    S.refcount = 0
    for (t, c, e) in elems:
        if e.default is None and rng.random() < 0.08 and not (e.tref[0] == "n" and e.tref[1] >= HID):
            gns = rng.randrange(nns)
            gname = "r%d" % S.refcount
            S.refcount += 1
            S.gelems.append(GElem(gname, gns, e.tref))
            e.name, e.ns, e.qualified, e.nillable, e.ref = gname, gns, True, False, True
            feats.add("element-ref")
    # named groups, each referenced once: <xsd:group ref=".."/> in place of a nested container
    conts = [c for (t, c) in all_conts(S)]
    for k in range(rng.choice([0, 0, 1, 2])):
        if conts:
            c = rng.choice(conts)
            if not getattr(c, "group", None):
                c.group = "G%d" % k
                feats.add("group-ref")
    add_shapes(rng, S)
    feats.add("fixed-shapes")
    # anonymous complex types: a local or global element carrying its own <complexType>
    # (abstractly: a type in a namespace no spelling can name, called like the element)
    S.visible = list(S.types)
    if rng.random() < 0.5:
        for _ in range(rng.choice([1, 2])):
            src = rng.choice(S.visible)
            cands = [x for x in all_elems(S) if x[2].default is None and x[0].ns < HID
                     and not getattr(x[2], "pinned", False) and not getattr(x[2], "ref", False)]
            if not cands:
                break
            (t, c, e) = rng.choice(cands)
            if S.type(t.ns + HID, e.name) is not None:
                continue
            S.types.append(F.CType(e.name, t.ns + HID, src.base, clone_content(src.content),
                                   copy.deepcopy(src.attrs)))
            e.tref = ("n", t.ns + HID, e.name)
            feats.add("anonymous-type")
    if rng.random() < 0.3:
        src = rng.choice(S.visible)
        gns = rng.randrange(nns)
        if S.type(gns + HID, "ga") is None:
            S.types.append(F.CType("ga", gns + HID, src.base, clone_content(src.content), copy.deepcopy(src.attrs)))
            S.gelems.append(GElem("ga", gns, ("n", gns + HID, "ga")))
            feats.add("anonymous-type")
    # global elements: one wrapper per complex type (also used as operations),
    # plus elements of built-in / simple / complex type in any namespace
    for k, t in enumerate(S.visible):
        S.gelems.append(GElem("op%d" % k, 0, ("n", t.ns, t.name)))
    S.gelems.append(GElem("gb", rng.randrange(nns), ("b", rng.choice(F.BUILTINS))))
    if S.simples:
        s = rng.choice(S.simples)
        S.gelems.append(GElem("gs", rng.randrange(nns), ("n", s.ns, s.name)))
    t = rng.choice(S.visible)
    S.gelems.append(GElem("gc", rng.randrange(nns), ("n", t.ns, t.name)))
    if rng.random() < 0.25:
        # an element called like a type (separate symbol spaces in XSD)
        t1 = rng.choice([t for t in S.visible if not getattr(t, "pinned", False)])
        t2 = rng.choice(S.visible)
        S.gelems.append(GElem(t1.name, t1.ns, ("n", t2.ns, t2.name)))
        feats.add("element-named-like-type")
    if any(isinstance(p, F.Any) for t in S.types for p, _ in S.flat(t)):
        feats.add("wildcard")
    S.feats = feats
    return S


PREFIX_POOL = ["t%d", "ns%d", "p%d", "tns%d", "q-%d", "M_%d"]


class Renderer3(F.Renderer):
    def __init__(self, S, rng):
        style = rng.choice(PREFIX_POOL)
        F.Renderer.__init__(self, S, [style % i for i in range(len(S.namespaces))])
        # a second prefix for some namespaces, a prefix for a namespace without schema
        self.alt = []
        for i, (u, _) in enumerate(S.namespaces):
            if rng.random() < 0.4:
                self.alt.append(("alt%d" % i, u))
        self.alt.append(("nowhere", "urn:fam:nowhere"))
        self.rng = rng
        self.occ = {}
        self.rotate = rng.randrange(3)

    def elem(self, e, declaring_ns, indent):
        # occurrence bounds in every lexical variety (SchemaObject.optional / multi_occurrence)
        occ = self.occ.get(id(e))
        if occ is None:
            r = self.rng
            occ = ""
            if e.opt:
                occ += ' minOccurs="0"'
            elif r.random() < 0.15:
                occ += ' minOccurs="1"'
            if e.multi:
                occ += ' maxOccurs="%s"' % r.choice(["unbounded", "unbounded", "2", "7", "10"])
            elif r.random() < 0.15:
                occ += ' maxOccurs="1"'
            self.occ[id(e)] = occ
        if getattr(e, "ref", False):
            return '%s<xsd:element ref="%s:%s"%s/>' % (indent, self.prefixes[e.ns], e.name, occ)
        if e.tref[0] == "n" and e.tref[1] >= HID:
            a = ' name="%s"%s%s' % (e.name, occ, ' nillable="true"' if e.nillable else "")
            if e.qualified != self.S.namespaces[declaring_ns][1]:
                a += ' form="%s"' % ("qualified" if e.qualified else "unqualified")
            return "%s<xsd:element%s>\n%s\n%s</xsd:element>" % (
                indent, a, self.anon(self.S.type(e.tref[1], e.tref[2]), declaring_ns, indent + "  "), indent)
        a = ' name="%s" type="%s"%s' % (e.name, self.tref(e.tref), occ)
        if e.nillable:
            a += ' nillable="true"'
        if e.default is not None:
            a += ' default="%s"' % e.default
        if e.qualified != self.S.namespaces[declaring_ns][1]:
            a += ' form="%s"' % ("qualified" if e.qualified else "unqualified")
        return "%s<xsd:element%s/>" % (indent, a)

    def particle(self, p, ns, indent, _level=0):
        g = getattr(p, "group", None) if isinstance(p, F.Cont) else None
        if g:
            inner = copy.copy(p)
            inner.group, inner.opt = None, False
            body = F.Renderer.particle(self, inner, ns, "        ", 0)
            self._group_defs.setdefault(ns, []).append(
                '      <xsd:group name="%s">\n%s\n      </xsd:group>' % (g, body))
            return '%s<xsd:group ref="%s:%s"%s/>' % (indent, self.prefixes[ns], g, ' minOccurs="0"' if p.opt else "")
        return F.Renderer.particle(self, p, ns, indent, _level)

    def ctype(self, t, indent="      "):
        base = getattr(t, "simple_base", None)
        if base:
            attrs = "\n".join(self.attr(a, indent + "      ") for a in t.attrs)
            return ('%s<xsd:complexType name="%s">\n%s  <xsd:simpleContent>\n%s    <xsd:extension base="xsd:%s">\n'
                    '%s\n%s    </xsd:extension>\n%s  </xsd:simpleContent>\n%s</xsd:complexType>'
                    % (indent, t.name, indent, indent, base, attrs, indent, indent, indent))
        return F.Renderer.ctype(self, t, indent)

    def anon(self, h, real_ns, indent):
        t2 = copy.copy(h)
        t2.ns = real_ns
        txt = F.Renderer.ctype(self, t2, indent)
        return txt.replace('<xsd:complexType name="%s">' % h.name, "<xsd:complexType>", 1)

    def gelem(self, g):
        if g.tref[0] == "n" and g.tref[1] >= HID:
            return '      <xsd:element name="%s">\n%s\n      </xsd:element>' % (
                g.name, self.anon(self.S.type(g.tref[1], g.tref[2]), g.ns, "        "))
        return '      <xsd:element name="%s" type="%s"/>' % (g.name, self.tref(g.tref))

    def nsdecls(self):
        return F.Renderer.nsdecls(self) + " " + " ".join('xmlns:%s="%s"' % pu for pu in self.alt)

    def simple(self, s):
        body = "".join('<xsd:enumeration value="%s"/>' % v for v in s.vals) or '<xsd:maxLength value="8"/>'
        return ('      <xsd:simpleType name="%s"><xsd:restriction base="xsd:string">%s</xsd:restriction>'
                '</xsd:simpleType>' % (s.name, body))

    def schema_block(self, ns, extra=""):
        lines = [extra] if extra else []
        lines += [self.simple(s) for s in self.S.simples if s.ns == ns]
        lines += [self.gelem(g) for g in self.S.gelems
                  if g.ns == ns and not (ns == 0 and g.name.startswith("op"))]
        return F.Renderer.schema_block(self, ns, "\n".join(lines))

    def prefix_table(self):
        tab = [(p, self.S.namespaces[i][0]) for i, p in enumerate(self.prefixes)] + list(self.alt)
        tab += [("soap", "http://schemas.xmlsoap.org/wsdl/soap/"), ("wsdl", "http://schemas.xmlsoap.org/wsdl/"),
                ("xsd", F.XSD)]
        return tab


def render(S, R):
    ops = [F.Op("op%d" % k, "wrapped", in_type=(t.ns, t.name)) for k, t in enumerate(S.visible)]
    text = F.render_ops(S, ops, R).decode("utf-8")
    # the schema blocks in a rotated order: the first block (whose namespace the merged
    # suds schema reports as its own) need not be the WSDL's target namespace
    head, rest = text.split("  <wsdl:types>\n", 1)
    body, tail = rest.split("\n  </wsdl:types>", 1)
    blocks = body.split("\n    <xsd:schema ")
    blocks = [blocks[0]] + ["    <xsd:schema " + b for b in blocks[1:]]
    k = R.rotate % len(blocks)
    blocks = blocks[k:] + blocks[:k]
    return (head + "  <wsdl:types>\n" + "\n".join(blocks) + "\n  </wsdl:types>" + tail).encode("utf-8")


# ---------------------------------------------------------------------------
# Coq literals
# ---------------------------------------------------------------------------

def new_interner():
    I = F.new_interner()
    assert I("value") == 4
    return I


def schema_names(S):
    names = set()
    for t in S.types:
        names.add(t.name)
        for a in t.attrs:
            names.add(a.name)
        for p, _ in S.flat(t):
            if isinstance(p, F.Elem):
                names.add(p.name)
    for s in S.simples:
        names.add(s.name)
        names.update(s.vals)
    for g in S.gelems:
        names.add(g.name)
    return sorted(names)


def schema_all(client, S):
    """the named complex types in suds' schema.all (what the schema blocks after the first one
    contributed to the merged schema, in merge order), as abstract (namespace index, name)"""
    from suds.xsd.sxbasic import Complex
    uri_ix = dict((u, i) for i, (u, _) in enumerate(S.namespaces))
    out = []
    for x in client.wsdl.schema.all:
        if type(x) is Complex and x.name is not None and x.qname[1] in uri_ix:
            out.append((uri_ix[x.qname[1]], x.name))
    return out


def wsdl_literal(S, R, I, client=None):
    P = F.CoqPrinter(S, I)
    for n in schema_names(S):
        I(n)
    types = P.schema()
    simples = clist(["(%s, %s, %s)" % (cN(s.ns + 1), cN(I(s.name)), clist([cN(I(v)) for v in s.vals], "N"))
                     for s in S.simples], "N * N * list N")
    elems = clist(["(%s, %s, %s)" % (cN(g.ns + 1), cN(I(g.name)), P.tref(g.tref)) for g in S.gelems],
                  "N * N * tref")
    prefixes = clist(["(%s, %s)" % (cstr(p), cstr(u)) for p, u in R.prefix_table()], "str * str")
    uris = clist(["(%s, %s)" % (cstr(u), cN(i + 1)) for i, (u, _) in enumerate(S.namespaces)], "str * N")
    names = clist(["(%s, %s)" % (cstr(n), cN(I(n))) for n in schema_names(S)] +
                  ["(%s, %s)" % (cstr("value"), cN(4))], "str * N")
    mixed = clist(["(%s, %s)" % (cN(t.ns + 1), cN(I(t.name))) for t in S.types if getattr(t, "simple_base", None)],
                  "N * N")
    allq = clist(["(%s, %s)" % (cN(ns + 1), cN(I(n))) for ns, n in (schema_all(client, S) if client else [])],
                 "N * N")
    return "(mkWsdl %s %s %s %s %s %s %s %s %s)" % (types, simples, elems, cstr(S.namespaces[0][0]), prefixes, uris,
                                                    names, mixed, allq)


class Sp(object):
    """structured spelling: root = ('plain', n) | ('prefixed', p, n) | ('braced', u, n);
    members = [(prefix or None, is_attr, name)]"""

    def __init__(self, root, members=()):
        self.root = root
        self.members = list(members)

    def text(self):
        r = self.root
        s = r[1] if r[0] == "plain" else "%s:%s" % (r[1], r[2]) if r[0] == "prefixed" else "{%s}%s" % (r[1], r[2])
        for (p, isattr, n) in self.members:
            s += "." + (p + ":" if p is not None else "") + ("@" if isattr else "") + n
        return s

    def coq(self):
        r = self.root
        root = "(RPlain %s)" % cstr(r[1]) if r[0] == "plain" else \
            "(RPrefixed %s %s)" % (cstr(r[1]), cstr(r[2])) if r[0] == "prefixed" else \
            "(RBraced %s %s)" % (cstr(r[1]), cstr(r[2]))
        ms = clist(["(mkM %s %s %s)" % (copt(cstr(p) if p is not None else None, "str"), cbool(a), cstr(n))
                    for (p, a, n) in self.members], "member")
        return "(mkSp %s %s)" % (root, ms)

    def with_members(self, members):
        return Sp(self.root, members)


def canon(obj, I, known_names, depth=0):
    """the iteration of a factory object as a Coq pv"""
    import suds.sudsobject as so
    if obj is None:
        return "PNone"
    if isinstance(obj, list):
        return "PList" if not obj else "(PStr 9999991%N)"
    if isinstance(obj, str):
        return None  # handled by the caller (needs the key)
    if isinstance(obj, so.Object):
        cname = type(obj).__name__
        cls = 0 if type(obj) is so.Object else (I(cname) if cname in known_names else 0)
        items = []
        if depth > 60:
            return "(PStr 9999992%N)"
        for k, v in obj:
            isattr = isinstance(k, str) and k.startswith("_")
            kn = k[1:] if isattr else k
            if isinstance(v, str):
                cv = "(PStr %s)" % cN(0 if v == "" else I("text:" + v if isattr else v))
            else:
                cv = canon(v, I, known_names, depth + 1)
            items.append("((%s, %s), %s)" % (cN(I(kn)), cbool(isattr), cv))
        return "(PObj %s %s)" % (cN(cls), clist(items, "key * pv"))
    return "(PStr 9999993%N)"


def run_create(client, path, I, known_names):
    """('ROk pv' | 'RTypeNotFound' | 'ROther', printable)"""
    import suds
    try:
        obj = client.factory.create(path)
    except suds.TypeNotFound as e:
        return "RTypeNotFound", "TypeNotFound(%s)" % (e,)
    except Exception as e:  # noqa
        return "ROther", "%s(%s)" % (type(e).__name__, e)
    try:
        return "(ROk %s)" % canon(obj, I, known_names), str(obj)
    except Exception as e:  # noqa
        return "ROther", "object could not be iterated: %r" % (e,)


# ---------------------------------------------------------------------------
# spellings of every name of an interface
# ---------------------------------------------------------------------------

def root_forms(rng, S, R, ns, name, all_forms=True):
    """every way to spell the global name (ns, name)"""
    uri = S.namespaces[ns][0]
    forms = [Sp(("braced", uri, name))]
    for p, u in R.prefix_table():
        if u == uri:
            forms.append(Sp(("prefixed", p, name)))
    if ns == 0:
        forms.append(Sp(("plain", name)))
    if not all_forms:
        return [rng.choice(forms)]
    return forms


def member_walks(rng, S, t, max_depth):
    """a random walk along members starting in complex type t:
    list of (prefix, isattr, name)"""
    out = []
    cur = t
    for d in range(max_depth):
        flat = [p for p, _ in S.flat(cur) if isinstance(p, F.Elem)]
        attrs = S.all_attrs(cur)
        if attrs and rng.random() < 0.15:
            out.append((None, True, rng.choice(attrs).name))
            return out
        if not flat:
            return out
        e = rng.choice(flat)
        out.append((None, False, e.name))
        if e.tref[0] != "n":
            return out
        nxt = S.type(e.tref[1], e.tref[2])
        if nxt is None or rng.random() < 0.3:
            return out
        cur = nxt
    return out


def deep_paths(S, t, max_members=3, limit=6):
    """dotted member paths of >= 2 members from type t whose second-to-last member is an element
    typed by reference to a complex type; ends on elements and on an @attribute"""
    out = []

    def rec(cur, path, seen):
        for p, _ in S.flat(cur):
            if len(out) >= limit:
                return
            if not (isinstance(p, F.Elem) and p.tref[0] == "n"):
                continue
            nxt = S.type(p.tref[1], p.tref[2])
            if nxt is None:
                continue
            newpath = path + [(None, False, p.name)]
            ends = [(None, False, q.name) for q, _ in S.flat(nxt) if isinstance(q, F.Elem)][:2]
            ends += [(None, True, a.name) for a in S.all_attrs(nxt)][:1]
            for e in ends:
                out.append(newpath + [e])
            if len(newpath) < max_members - 1 and id(nxt) not in seen:
                rec(nxt, newpath, seen | {id(nxt)})
    rec(t, [], {id(t)})
    return out


def gen_spellings(rng, S, R, thorough):
    """[(text, Sp or None, class label)]"""
    out = []
    globals_ = [(t.ns, t.name, "type") for t in S.visible] + [(s.ns, s.name, "simple") for s in S.simples] + \
               [(g.ns, g.name, "element") for g in S.gelems]
    # 1. every global name in every root form
    for ns, name, kind in globals_:
        for sp in root_forms(rng, S, R, ns, name):
            out.append((sp.text(), sp, "global-%s-%s" % (kind, sp.root[0])))
    # 2. every member of every complex type, by dotted path
    roots = [(t.ns, t.name, t) for t in S.visible] + \
            [(g.ns, g.name, S.type(g.tref[1], g.tref[2])) for g in S.gelems
             if g.tref[0] == "n" and S.type(g.tref[1], g.tref[2]) is not None]
    for ns, name, t in roots:
        if t not in S.types:
            continue
        is_type = any(x is t and x.name == name and x.ns == ns for x in S.types)
        if not is_type and not thorough and rng.random() < 0.5:
            continue
        seen = set()
        for p, _ in S.flat(t):
            if isinstance(p, F.Elem) and p.name not in seen:
                seen.add(p.name)
                for sp in root_forms(rng, S, R, ns, name, all_forms=thorough):
                    sp = sp.with_members([(None, False, p.name)])
                    out.append((sp.text(), sp, "member-depth1"))
        for a in S.all_attrs(t):
            sp = rng.choice(root_forms(rng, S, R, ns, name)).with_members([(None, True, a.name)])
            out.append((sp.text(), sp, "attribute-path"))
        for _ in range(8 if thorough else 4):
            w = member_walks(rng, S, t, rng.choice([2, 3, 4]))
            if len(w) >= 2:
                sp = rng.choice(root_forms(rng, S, R, ns, name)).with_members(w)
                out.append((sp.text(), sp, "member-depth%d" % len(w)))
    # 2b. paths of three and more parts through members typed by reference, in every root form
    for t in S.visible:
        pinned = getattr(t, "pinned", False)
        for w in deep_paths(S, t, limit=(8 if thorough else 5) if pinned else (6 if thorough else 2)):
            for sp in root_forms(rng, S, R, t.ns, t.name, all_forms=pinned or thorough):
                sp = sp.with_members(w)
                out.append((sp.text(), sp, "deep-path-%d%s" % (len(w) + 1, "-attr" if w[-1][1] else "")))
    # 2c. local element names spelled WITHOUT their path (ElementQuery's deep search; no claim)
    gnames = group_elem_names(S)
    local = [(t, e) for (t, c, e) in all_elems(S) if t.ns < HID and e.name not in gnames
             and not getattr(e, "ref", False)]
    for (t, e) in (local if thorough else rng.sample(local, min(len(local), 14))):
        for sp in root_forms(rng, S, R, t.ns, e.name, all_forms=thorough):
            out.append((sp.text(), sp, "local-name-without-path"))
        if e.tref[0] == "n" and S.type(e.tref[1], e.tref[2]) is not None:
            inner = [q.name for q, _ in S.flat(S.type(e.tref[1], e.tref[2])) if isinstance(q, F.Elem)][:1]
            for m in inner + ["bogus"]:
                sp = rng.choice(root_forms(rng, S, R, t.ns, e.name)).with_members([(None, False, m)])
                out.append((sp.text(), sp, "local-name-without-path"))
    # 3. enumeration values by path (no claim) and members of simple things
    for s in S.simples:
        for v in s.vals[:2]:
            sp = rng.choice(root_forms(rng, S, R, s.ns, s.name)).with_members([(None, False, v)])
            out.append((sp.text(), sp, "enum-value-path"))
    # 4. unknown names
    unknown = []
    t = rng.choice(S.visible)
    uri_t = S.namespaces[t.ns][0]
    pfx_t = R.prefixes[t.ns]
    # never the name of a local element: ElementQuery's deep search (not modelled) would find it
    taken = set(schema_names(S))
    bogus = rng.choice([b for b in ["Bogus", "T", "T99", t.name + "x", t.name.lower(), "e0", "op", "value",
                                    "x" + t.name] if b not in taken or b == "value"] or ["Bogus"])
    unknown.append(Sp(("plain", bogus)))
    unknown.append(Sp(("prefixed", pfx_t, bogus)))
    unknown.append(Sp(("braced", uri_t, bogus)))
    unknown.append(Sp(("braced", "urn:fam:other", t.name)))
    unknown.append(Sp(("braced", uri_t + "x", t.name)))
    unknown.append(Sp(("prefixed", "nowhere", t.name)))
    unknown.append(Sp(("prefixed", "zz", t.name)))                       # undeclared prefix
    unknown.append(Sp(("prefixed", pfx_t.upper() + "x", t.name)))        # undeclared prefix
    for i, (u, _) in enumerate(S.namespaces):
        if i != t.ns and S.type(i, t.name) is None and not any(g.ns == i and g.name == t.name for g in S.gelems):
            unknown.append(Sp(("prefixed", R.prefixes[i], t.name)))      # right name, wrong namespace
            unknown.append(Sp(("braced", u, t.name)))
    for ns, name, tt in rng.sample(roots, min(len(roots), 4 if thorough else 2)):
        if tt not in S.types:
            continue
        base = rng.choice(root_forms(rng, S, R, ns, name))
        flat = [p for p, _ in S.flat(tt) if isinstance(p, F.Elem)]
        others = [e.name for (ot, _, e) in all_elems(S) if e.name not in set(p.name for p in flat)]
        unknown.append(base.with_members([(None, False, "bogus")]))
        unknown.append(base.with_members([(None, True, "bogus")]))
        if others:
            unknown.append(base.with_members([(None, False, rng.choice(others))]))   # member of another type
        for a in S.all_attrs(tt)[:1]:
            unknown.append(base.with_members([(None, False, a.name)]))               # attribute without '@'
        if flat:
            e = rng.choice(flat)
            unknown.append(base.with_members([(None, True, e.name)]))                # element with '@'
            unknown.append(base.with_members([(None, False, e.name), (None, False, "bogus")]))
            unknown.append(base.with_members([(None, False, "bogus"), (None, False, e.name)]))
            unknown.append(base.with_members([(None, False, e.name.upper())]))
            unknown.append(base.with_members([(R.prefixes[0], False, e.name)]))      # prefixed member: no claim
            unknown.append(base.with_members([("zz", False, e.name)]))
    for sp in unknown:
        out.append((sp.text(), sp, "unknown-or-odd"))
    # 5. built-ins (no claim) and malformed strings (model only)
    out.append(("xsd:string", Sp(("prefixed", "xsd", "string")), "builtin"))
    out.append(("xsd:Bogus", Sp(("prefixed", "xsd", "Bogus")), "builtin"))
    g = rng.choice(globals_)
    base = rng.choice(root_forms(rng, S, R, g[0], g[1])).text()
    for s in ["", ".", base + ".", "." + base, base + "..x", base + ".@", "{" + base, base + "}", "{}" + base,
              "{" + S.namespaces[0][0] + "}", ":" + base, base + ":", "@" + base, base + "\n", base + ".x\ny",
              "{a}{" + S.namespaces[g[0]][0] + "}" + g[1], "{" + S.namespaces[g[0]][0] + "}" + g[1] + "}x"]:
        out.append((s, None, "malformed"))
    return out


# ---------------------------------------------------------------------------
# the exhaustive small scope of the thorough tier
# ---------------------------------------------------------------------------
SCOPE = ("ALL interfaces with one namespace and two types: T0 = sequence of 0..2 members, with or without an "
         "attribute that has a default; T1 = sequence or choice of 0..1 member, alone or extending T0; every member "
         "of type xsd:string, T0 or T1 and required, optional or repeating (182 x 40 = 7280 interfaces), each with "
         "every global name in every root form, every member and @attribute by path, paths of three parts, and "
         "unknown names of each kind")


def small_scope():
    kinds = [("b", "string"), ("n", 0, "T0"), ("n", 0, "T1")]
    occurs = [(False, False), (True, False), (False, True)]
    member = [(tr, o, m) for tr in kinds for (o, m) in occurs]                 # 9

    def seqs(names, maxlen):
        out = [[]]
        for n in range(1, maxlen + 1):
            import itertools
            for combo in itertools.product(member, repeat=n):
                out.append([F.Elem(names[i], 0, True, tr, opt=o, multi=m) for i, (tr, o, m) in enumerate(combo)])
        return out

    for m0 in seqs(["e1", "e2"], 2):                                           # 91
        for attr in (False, True):
            for m1 in seqs(["e3"], 1):                                         # 10
                for kind in ("sequence", "choice"):
                    for base in (None, (0, "T0")):
                        S = F.Schema([("urn:fam:ns0", True)])
                        t0 = F.CType("T0", 0, None, [F.Cont("sequence", False, copy.deepcopy(m0))],
                                     [F.Attr("a1", "string", default="adef")] if attr else [])
                        t1 = F.CType("T1", 0, base, [F.Cont(kind, False, copy.deepcopy(m1))], [])
                        S.types = [t0, t1]
                        S.visible = [t0, t1]
                        S.simples = []
                        S.gelems = [GElem("op0", 0, ("n", 0, "T0")), GElem("op1", 0, ("n", 0, "T1"))]
                        S.feats = set()
                        yield S


def small_spellings(S, R):
    uri = S.namespaces[0][0]
    pfx = R.prefixes[0]
    out = []
    for name in ("T0", "T1"):
        for sp in (Sp(("plain", name)), Sp(("prefixed", pfx, name)), Sp(("braced", uri, name))):
            out.append((sp.text(), sp, "scope-global"))
    for name in ("op0", "op1"):
        out.append((name, Sp(("plain", name)), "scope-global"))
    for t in S.types:
        for p, _ in S.flat(t):
            sp = Sp(("plain", t.name), [(None, False, p.name)])
            out.append((sp.text(), sp, "scope-member"))
            if p.tref[0] == "n":
                for q, _ in S.flat(S.type(p.tref[1], p.tref[2])):
                    sp = Sp(("braced", uri, t.name), [(None, False, p.name), (None, False, q.name)])
                    out.append((sp.text(), sp, "scope-path3"))
                sp = Sp(("prefixed", pfx, t.name), [(None, False, p.name), (None, True, "a1")])
                out.append((sp.text(), sp, "scope-path3"))
        sp = Sp(("plain", t.name), [(None, True, "a1")])
        out.append((sp.text(), sp, "scope-attr"))
        sp = Sp(("plain", t.name), [(None, False, "bogus")])
        out.append((sp.text(), sp, "scope-unknown"))
    for sp in (Sp(("plain", "Bogus")), Sp(("prefixed", "zz", "T0")), Sp(("braced", uri + "x", "T0")),
               Sp(("plain", "e1")), Sp(("plain", "e3"))):
        out.append((sp.text(), sp, "scope-unknown"))
    return out


ALPHABET = "{}.:@a\nB"


def gen_strings(rng, n, extra):
    out = []
    for _ in range(n):
        k = rng.choice([0, 1, 2, 3, 4, 5, 6, 8, 10, 12])
        s = "".join(rng.choice(ALPHABET) for _ in range(k))
        out.append(s)
    return out + list(extra)


# ---------------------------------------------------------------------------
# object vs dict
# ---------------------------------------------------------------------------

def fill(rng, client, S, R, obj, t, depth):
    """give values to the members of a factory object of complex type t (in
    place); members the factory did not create stay absent"""
    import suds.sudsobject as so
    members = {}
    for p, _ in S.flat(t):
        if isinstance(p, F.Elem) and p.name not in members:
            members[p.name] = p

    def value_for(e, depth):
        if e.tref[0] == "b":
            return F.gen_leaf(rng, e.tref[1])[0]
        for s in S.simples:
            if (s.ns, s.name) == (e.tref[1], e.tref[2]):
                return rng.choice(s.vals) if s.vals else "abc"
        tt = S.type(e.tref[1], e.tref[2])
        o = client.factory.create("{%s}%s" % (S.namespaces[tt.ns][0], tt.name))
        fill(rng, client, S, R, o, tt, depth + 1)
        return o

    for k in list(obj.__keylist__):
        v = getattr(obj, k)
        if k.startswith("_"):
            if rng.random() < 0.5:
                setattr(obj, k, rng.choice(["x", "7", "true"]))
            continue
        e = members.get(k)
        if e is None:
            continue
        if isinstance(v, so.Object) and not isinstance(v, so.Property):
            tt = S.type(e.tref[1], e.tref[2])
            if tt is not None:
                fill(rng, client, S, R, v, tt, depth + 1)
            continue
        if isinstance(v, list):
            if depth < 3:
                for _ in range(rng.choice([0, 1, 2])):
                    v.append(value_for(e, depth))
            continue
        # None (built-in, optional, simple) or a Property (enumeration)
        if e.opt and (depth >= 3 or rng.random() < 0.4):
            setattr(obj, k, None)
            continue
        if e.tref[0] == "n" and S.type(e.tref[1], e.tref[2]) is not None and depth >= 3:
            setattr(obj, k, None)
            continue
        setattr(obj, k, value_for(e, depth))
    # one branch of some choices (the factory leaves all of them out)
    for c in S.chain(t):
        for top in c.content:
            for ch in outer_choices(top):
                leaves = [e for e in leaf_elems(ch) if e.name not in obj.__keylist__
                          and (e.tref[0] == "b" or depth < 3)]
                if leaves and rng.random() < 0.7:
                    e = rng.choice(leaves)
                    v = value_for(e, depth)
                    setattr(obj, e.name, [v] if e.multi else v)


def outer_choices(p):
    if isinstance(p, F.Cont):
        if p.kind == "choice":
            return [p]
        return [c for k in p.kids for c in outer_choices(k)]
    return []


def leaf_elems(p):
    if isinstance(p, F.Cont):
        return [e for k in p.kids for e in leaf_elems(k)]
    return [p] if isinstance(p, F.Elem) else []


def to_dict(S, v, t):
    """the equivalent dict of a filled factory object of complex type t: the same members, written
    down in schema order (not in the object's own iteration order), attributes last"""
    import suds.sudsobject as so
    if isinstance(v, list):
        return [to_dict(S, x, t) for x in v]
    if not isinstance(v, so.Object):
        return v
    if t is None:
        return dict((k, getattr(v, k)) for k in v.__keylist__)
    members = {}
    order = []
    for p, _ in S.flat(t):
        if isinstance(p, F.Elem) and p.name not in members:
            members[p.name] = p
            order.append(p.name)
    keys = [k for k in order if k in v.__keylist__] + [k for k in v.__keylist__ if k not in members]
    out = {}
    for k in keys:
        e = members.get(k)
        tt = S.type(e.tref[1], e.tref[2]) if (e is not None and e.tref[0] == "n") else None
        out[k] = to_dict(S, getattr(v, k), tt)
    return out


# ---------------------------------------------------------------------------

def run(ck):
    common.force_repo_path()
    from tools import gen_tables
    from . import sudsutil as U
    from . import c01
    import suds

    ck.trusted = [
        "Coq 8.16.1 kernel + vm_compute; no axioms declared",
        "tools/tables_c03.py: built-in type names regenerated from suds.xsd.sxbuiltin.Factory.tags",
        "harness/family.py + harness/c03.py: interface generator (recursion, enumerations, wildcards, extension "
        "chains, several namespaces and prefixes), WSDL renderer, spelling generator, canonical iteration of "
        "factory objects",
        "expat (namespace mode) as the independent XML processor for the object-vs-dict requests",
    ]
    ck.notes = [
        "modelled: PathResolver.split (the regex with its backtracking order), qualify (altp, splitPrefix, prefix "
        "table of the wsdl root), root (BlindQuery: built-ins, elements before types), branch/leaf (get_child with "
        "wildcard capture, get_attribute, prefixes of later parts ignored), TypedContent.resolve(nobuiltin), "
        "sxbase.Iter order after Extension.merge, Builder.build/process/add_attributes/skip_child/skip_value/"
        "ordering with the history cut-off, Object.__setattr__, sudsobject.Iter, Factory.create incl. enumerations",
        "covered by correspondence only: the request built from a filled factory object equals the one built from "
        "the equivalent dict (compared as namespace infosets)",
        "anonymous complex types (local and global elements with an inline complexType, also extending a named "
        "type) are generated; abstractly they are types in a namespace no spelling can name, called like their "
        "element (which is the class name suds gives the object)",
        "element refs (a member taking name, namespace and type of a global element), simpleContent types (a Property: "
        "'value' then the attributes), ElementQuery's deep search (a local element name spelled without its path: "
        "found only directly in the first container of a non-derived type of schema.all; the order of schema.all is "
        "read from the loaded client), named groups referenced once and choices with compound branches are "
        "generated and modelled",
        "bridge to C01: filled_object_vs_dict is stated over the object the C03 model builds and the marshaller model "
        "of coq/C01/Marshal.v (imported read-only)",
        "not modelled / not generated: the deep search THROUGH a named group definition (names of elements declared "
        "in groups are never spelled without a path), simpleContent over a user type, Factory.separator, names "
        "containing '.'",
    ]
    # suds reports every failed look-up through logging.error: keep the output readable
    lg = logging.getLogger("suds")
    lg.addHandler(logging.NullHandler())
    lg.propagate = False
    gen_tables.generate("C03Tables")
    proof_ok = ck.prove(THEOREMS) if THEOREMS else None

    thorough = ck.tier != "quick"
    n_schemas = int(os.environ.get("VERIF_C03_RANDOM", "0")) or (32 if not thorough else 400)   # env: development aid
    batch = 12
    rng = ck.rng
    unproved = []

    create_cases = []        # (wname, case text, meta)
    wdefs = []
    qual_cases = []
    all_strings = []
    env_cases = []
    env_meta = []

    for si in range(n_schemas):
        S = gen_interface(rng)
        R = Renderer3(S, rng)
        wsdl = render(S, R)
        try:
            client = U.client_from_wsdl(wsdl, nosend=True)
        except Exception as e:  # noqa
            ck.failing_input("C03:wsdl-load", "generated WSDL could not be loaded: %r" % (e,),
                             {"wsdl": wsdl.decode("utf-8"), "error": repr(e)})
            continue
        I = new_interner()
        wlit = wsdl_literal(S, R, I, client)
        wname = "W%d" % si
        known_names = set(schema_names(S)) | {"value"}
        for f in S.feats:
            ck.count("schemas-with-" + f)
        # ---- factory.create on every spelling
        for text, sp, label in gen_spellings(rng, S, R, thorough):
            impl, shown = run_create(client, text, I, known_names)
            case = "(mkCC %s %s %s %s)" % (wname, cstr(text), copt(sp.coq() if sp else None, "spelling"), impl)
            create_cases.append((si, case, {"wsdl": wsdl, "path": text, "impl": shown, "label": label}))
            ck.seen(("create", si, text), nontrivial=(impl != "RTypeNotFound" or "." in text))
            ck.count("create-%s-%s" % (label, impl.split(" ")[0].strip("(")))
            if len(create_cases) in (5, 400, 900):
                ck.sample({"create": text, "impl": shown[:500]})
        # ---- PathResolver.qualify / split directly
        res = client.factory.resolver
        strings = gen_strings(rng, 25 if not thorough else 60,
                              [t for t, _, l in gen_spellings(rng, S, R, False) if l in ("malformed", "unknown-or-odd")][:10])
        for s in strings:
            try:
                q = res.qualify(s)
                qi = copt("(%s, %s)" % (cstr(q[0]), cstr(q[1])), "str * str") \
                    if isinstance(q, tuple) and len(q) == 2 and all(isinstance(x, str) for x in q) else None
            except Exception:  # noqa
                qi = copt(None, "str * str")
            if qi is not None:
                qual_cases.append((si, "(mkQC %s %s %s)" % (wname, cstr(s), qi), s))
                ck.seen(("qualify", si, s))
            all_strings.append(s)
        # the W literal is the last thing printed: every name met is interned
        wdefs.append("Definition %s : wsdl := %s." % (wname, wlit))
        # ---- object vs dict
        for k, t in enumerate(S.visible):
            params = [p for p, _ in S.flat(t) if isinstance(p, F.Elem)]
            if reaches_wildcard(S, t):
                # a wildcard before a named member captures the look-up of an untyped dict
                # (schemas violating Unique Particle Attribution; guarded in C01 as well)
                ck.count("object-vs-dict-skipped-wildcard-or-shadowed-type")
                continue
            reps = 3 if not thorough else 6
            for rep in range(reps):
                try:
                    okw, dkw = {}, {}
                    in_choice = set().union(*[choice_members(c) for c in S.chain(t)])
                    for p in params:
                        if p.name in okw or p.name in in_choice or rng.random() < 0.2:
                            continue
                        if p.tref[0] == "n" and S.type(p.tref[1], p.tref[2]) is not None and not p.multi:
                            tt = S.type(p.tref[1], p.tref[2])
                            o = client.factory.create("{%s}%s" % (S.namespaces[tt.ns][0], tt.name))
                            fill(rng, client, S, R, o, tt, 1)
                            okw[p.name] = o
                            dkw[p.name] = to_dict(S, o, tt)
                    if not okw:
                        continue
                    errs = []
                    envs = []
                    for kw in (okw, dkw):
                        try:
                            envs.append(getattr(client.service, "op%d" % k)(**kw).envelope)
                            errs.append(None)
                        except Exception as e:  # noqa
                            envs.append(None)
                            errs.append("%s(%s)" % (type(e).__name__, e))
                    if errs[0] is not None or errs[1] is not None:
                        # the arguments are valid by construction: a request must come out of both
                        ck.failing_input("C03:object-vs-dict-request",
                                         "op%d: the filled factory object gives %s, the equivalent dict gives %s"
                                         % (k, errs[0] or "a request", errs[1] or "a request"),
                                         {"wsdl": wsdl.decode("utf-8"), "operation": "op%d" % k,
                                          "object_args": repr(okw)[:3000], "dict_args": repr(dkw)[:3000]})
                        ck.count("object-vs-dict-raised")
                        continue
                    e1, e2 = envs
                    b1 = c01.envelope_body(e1)[1].elements()
                    b2 = c01.envelope_body(e2)[1].elements()
                    I2 = F.new_interner()
                    n1 = clist([F.node_to_coq(S, I2, n) for n in b1], "xnode")
                    n2 = clist([F.node_to_coq(S, I2, n) for n in b2], "xnode")
                    env_cases.append("(%s, %s)" % (n1, n2))
                    env_meta.append({"wsdl": wsdl, "operation": "op%d" % k, "object_args": repr(okw)[:3000],
                                     "dict_args": repr(dkw)[:3000], "envelope_object": e1.decode("utf-8", "replace"),
                                     "envelope_dict": e2.decode("utf-8", "replace")})
                    ck.seen(("objdict", si, k, rep))
                    ck.count("object-vs-dict")
                    if len(env_cases) == 3:
                        ck.sample({"operation": "op%d" % k, "object_args": repr(okw)[:300],
                                   "envelope": e1.decode("utf-8", "replace")[:600]})
                except Exception as e:  # noqa
                    # creating / filling the argument objects failed (create() itself is judged above)
                    ck.count("object-vs-dict-setup-failed")
                    ck.extra.setdefault("object_vs_dict_failures", []).append(repr(e)[:200])

    # ---- thorough: the exhaustive small scope
    n_scope = 0
    if thorough:
        limit = int(os.environ.get("VERIF_SCOPE_LIMIT", "0"))      # development aid only
        for k, S in enumerate(small_scope()):
            if limit and k % (7280 // limit) != 0:
                continue
            si = 100000 + k
            R = Renderer3(S, rng)
            wsdl = render(S, R)
            try:
                client = U.client_from_wsdl(wsdl, nosend=True)
            except Exception as e:  # noqa
                ck.failing_input("C03:wsdl-load", "generated WSDL could not be loaded: %r" % (e,),
                                 {"wsdl": wsdl.decode("utf-8"), "error": repr(e)})
                continue
            I = new_interner()
            wlit = wsdl_literal(S, R, I, client)
            known_names = set(schema_names(S)) | {"value"}
            for text, sp, label in small_spellings(S, R):
                impl, shown = run_create(client, text, I, known_names)
                case = "(mkCC W%d %s %s %s)" % (si, cstr(text), copt(sp.coq(), "spelling"), impl)
                create_cases.append((si, case, {"wsdl": wsdl, "path": text, "impl": shown, "label": label}))
                ck.seen(("create", si, text), nontrivial=(impl != "RTypeNotFound" or "." in text))
                ck.count("create-%s-%s" % (label, impl.split(" ")[0].strip("(")))
            wdefs.append("Definition W%d : wsdl := %s." % (si, wlit))
            n_scope += 1
        ck.extra["exhaustive_scope"] = {"interfaces": n_scope, "scope": SCOPE}
        ck.exhaustive = True
    ck.extra["phase_seconds"] = {"proof+generation+implementation": round(__import__("time").time() - ck.t0, 1)}
    # ------------------------------------------------------------------ judge
    def batches(cases):
        by = {}
        for c in cases:
            by.setdefault(c[0] // batch if c[0] < 100000 else 100000 + (c[0] - 100000) // 200, []).append(c)
        return [by[k] for k in sorted(by)]

    def pre_for(chunk):
        idx = sorted(set(c[0] for c in chunk))
        return PRE + "\n" + "\n".join(wdefs_by_index[i] for i in idx)

    wdefs_by_index = {}
    for d in wdefs:
        wdefs_by_index[int(d.split()[1][1:])] = d

    n_claimed = n_guard = n_inst_bad = 0
    n_strict = {}
    for bi, chunk in enumerate(batches(create_cases)):
        preds = ["create_agrees", "create_spec_ok", "create_strict_ok", "create_claimed",
                 "fun c => negb (theorem_guard c)"]
        if bi == 0 or thorough:
            preds.append("theorem_instance")      # re-runs the model: first batch only in the quick tier
        res = ck.run_cases("create%d" % bi, pre_for(chunk), "ccase", [c[1] for c in chunk], preds, shard=250)
        spec_bad = set(res["create_spec_ok"])
        n_claimed += len(chunk) - len(res["create_claimed"])
        n_guard += len(res["fun c => negb (theorem_guard c)"])
        n_inst_bad += len(res.get("theorem_instance", []))
        for i in sorted(spec_bad):
            m = chunk[i][2]
            impl = m["impl"]
            if impl.startswith("Exception(prefix (") and "not resolved" in impl:
                key, what = "C03:undeclared-prefix-raises-plain-exception", \
                    FINDINGS["C03:undeclared-prefix-raises-plain-exception"]
            elif impl.startswith("TypeNotFound"):
                key, what = "C03:known-name-not-created", "factory.create(%r) raises %s for a name the WSDL declares"
            elif "(" in impl and not impl.startswith("(") and not impl.startswith("<empty>") and \
                    impl.split("(")[0].endswith(("Error", "Exception")):
                key, what = "C03:create-raises-other-exception", "factory.create(%r) raises %s"
            elif m["label"] == "unknown-or-odd":
                key, what = "C03:unknown-name-yields-object", \
                    "factory.create(%r) returns an object for a name that denotes nothing: %s"
            else:
                key, what = "C03:object-does-not-mirror-type", \
                    "factory.create(%r) returns an object that is not the content model of the type: %s"
            ck.failing_input(key, what % (m["path"], impl[:300]),
                             {"wsdl": m["wsdl"].decode("utf-8"), "path": m["path"], "impl": impl, "case": chunk[i][1]})
        # the letter of the text (strict reading): the only departure the lenient
        # specification tolerates is the enumeration-typed required member
        for i in res["create_strict_ok"]:
            if i in spec_bad:
                continue
            m = chunk[i][2]
            key = "C03:enum-member-prebuilt-as-property"
            n_strict[key] = n_strict.get(key, 0) + 1
            ck.failing_input(key, FINDINGS[key] % (m["path"], m["impl"][:300]),
                             {"wsdl": m["wsdl"].decode("utf-8"), "path": m["path"], "impl": m["impl"],
                              "case": chunk[i][1]})
        dis = [i for i in res["create_agrees"] if i not in spec_bad]
        if dis:
            m = chunk[dis[0]][2]
            unproved.append({"correspondence": "create_agrees", "count": len(dis),
                             "first": {"path": m["path"], "impl": m["impl"], "case": chunk[dis[0]][1],
                                       "wsdl": m["wsdl"].decode("utf-8")}})
    ck.extra["strict_reading_departures"] = n_strict
    ck.extra["create_cases_inside_the_claim"] = n_claimed
    ck.extra["create_cases_inside_theorem_guard"] = n_guard
    ck.extra["theorem_instance_failures"] = n_inst_bad
    if n_inst_bad:
        unproved.append({"correspondence": "theorem_instance", "count": n_inst_bad,
                         "first": "create_meets_spec does not compute to true on a case inside its guard"})

    for bi, chunk in enumerate(batches(qual_cases)):
        res = ck.run_cases("qualify%d" % bi, pre_for(chunk), "qcase", [c[1] for c in chunk], ["qualify_agrees"],
                           shard=400)
        if res["qualify_agrees"]:
            i = res["qualify_agrees"][0]
            unproved.append({"correspondence": "qualify_agrees", "count": len(res["qualify_agrees"]),
                             "first": {"part": chunk[i][2], "case": chunk[i][1]}})

    # split on adversarial strings (any client's resolver: split does not depend on the WSDL)
    import suds.resolver
    res0 = suds.resolver.PathResolver(client.wsdl)
    strings = sorted(set(all_strings + gen_strings(rng, 1500 if not thorough else 12000, [])))
    scases, smeta = [], []
    for s in strings:
        try:
            parts = res0.split(s)
            ok = isinstance(parts, list) and all(isinstance(p, str) for p in parts)
        except Exception:  # noqa
            ok = False
            parts = None
        if not ok:
            ck.failing_input("C03:split-raises", "PathResolver.split(%r) raises or returns a non-list" % s, {"string": s})
            continue
        scases.append("(mkSC %s %s)" % (cstr(s), clist([cstr(p) for p in parts], "str")))
        smeta.append((s, parts))
        ck.seen(("split", s), nontrivial=len(s) > 1)
    ck.count("split-strings", len(scases))
    res = ck.run_cases("split", PRE, "scase", scases, ["split_agrees", "split_spec_ok"], shard=500)
    for i in res["split_spec_ok"][:1]:
        ck.failing_input("C03:split-parts", "PathResolver.split(%r) = %r: not a dot-separated prefix of the input"
                         % smeta[i], {"string": smeta[i][0], "parts": smeta[i][1]})
    if res["split_agrees"]:
        i = res["split_agrees"][0]
        unproved.append({"correspondence": "split_agrees", "count": len(res["split_agrees"]),
                         "first": {"string": smeta[i][0], "impl_parts": smeta[i][1]}})

    # object vs dict: the two request bodies are the same infoset
    if env_cases:
        res = ck.run_cases("objdict", PRE, "list xnode * list xnode", env_cases,
                           ["fun c => list_eqb xnode_eqb (fst c) (snd c)"], shard=60)
        for i in list(res.values())[0][:2]:
            m = env_meta[i]
            ck.failing_input("C03:object-vs-dict-request",
                             "the request built from a filled factory object differs from the one built from the "
                             "equivalent dict (%s)" % m["operation"],
                             dict(m, wsdl=m["wsdl"].decode("utf-8")))

    ck.rule = (("thorough: " + SCOPE + "; plus " if thorough else "") + "generated interfaces (family.gen_schema: 1-3 namespaces, nested sequence/choice/all, extension "
               "chains, attributes with defaults, occurs/nillable) extended with recursive and forward type "
               "references, enumerations and other simple types, wildcards, empty and attribute-only types, anonymous "
               "complex types on local and global elements, numeric/explicit occurrence bounds, schema blocks in rotated "
               "order, element refs, simpleContent types, named groups, fixed shapes in every interface (Drawing{seg: Segment{start: Point, end: Point}, shape: Shape{id, "
               "choice with simple and compound (sequence / all / group) branches, label, @unit}}, Order{customer: Customer{address: Address{.., @kind}}}), the same "
               "member name in unrelated types, global elements of built-in/simple/complex type in every namespace "
               "(one called like a type), two prefixes per namespace; x every global type/element in every root "
               "form (plain / each prefix / {uri}) x every member by dotted path (depth 1 exhaustively, random "
               "walks to depth 4, @attributes; paths of 3-4 parts through members typed by reference to named types, also "
               "ending in @attr, in every root form for the fixed shapes) x local element names spelled without their path (deep search) x unknown names of every form (bogus local name, wrong namespace, "
               "unknown URI, undeclared prefix, bogus/misplaced member, wrong case) x malformed strings; "
               "PathResolver.split on random strings over '{}.:@aB\\n'; qualify on the same; three filled-object (one "
               "branch of each choice set) vs schema-ordered dict requests per operation.  distinct = (interface, string); non-trivial = not a TypeNotFound for "
               "a dot-free name")
    if proof_ok is False:
        ck.unproved("proof obligation of C03 no longer checks: " + ck.proof_log[-1500:], {"log": ck.proof_log[-3000:]})
    if unproved:
        ck.unproved("model/implementation correspondence of C03 no longer holds: the implementation is no longer "
                    "the algorithm the theorems are about (%s)"
                    % "; ".join("%s x%d" % (u["correspondence"], u["count"]) for u in unproved),
                    {"disagreements": unproved})


def shadowed(S, t):
    """factory.create cannot name type t: a global element of another type has its name"""
    return any((g.ns, g.name) == (t.ns, t.name) and g.tref != ("n", t.ns, t.name) for g in S.gelems)


def reaches_wildcard(S, t):
    seen, todo = set(), [t]
    while todo:
        x = todo.pop()
        if id(x) in seen:
            continue
        seen.add(id(x))
        if shadowed(S, x) or x.ns >= HID or getattr(x, "simple_base", None):
            return True                       # factory.create cannot name the type / a Property has no dict form
        for p, _ in S.flat(x):
            if isinstance(p, F.Any):
                return True
            if isinstance(p, F.Elem) and p.tref[0] == "n":
                y = S.type(p.tref[1], p.tref[2])
                if y is not None:
                    todo.append(y)
    return False


def choice_members(t):
    out = set()

    def walk(p, inch):
        if isinstance(p, F.Cont):
            for k in p.kids:
                walk(k, inch or p.kind == "choice")
        elif isinstance(p, F.Elem) and inch:
            out.add(p.name)
    for c in t.content:
        walk(c, False)
    return out


def replay(ck, payload):
    common.force_repo_path()
    from . import sudsutil as U
    print(payload.get("what"))
    if "wsdl" in payload and "path" in payload:
        client = U.client_from_wsdl(payload["wsdl"].encode("utf-8"), nosend=True)
        I = new_interner()
        print("factory.create(%r) now:" % payload["path"], run_create(client, payload["path"], I, set())[1])
        print("recorded:", payload.get("impl"))
    elif "string" in payload:
        import suds.resolver
        r = suds.resolver.PathResolver.__new__(suds.resolver.PathResolver)
        import re
        r.splitp = re.compile('({.+})*[^\\.]+')
        print("split now:", r.split(payload["string"]), "recorded:", payload.get("parts"))
    elif "envelope_object" in payload:
        print("object:", payload["envelope_object"])
        print("dict:  ", payload["envelope_dict"])
    else:
        print(payload.get("disagreements") or payload)
    return 0
