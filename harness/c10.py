"""C10 - Service, port and method selection is deterministic and matches the WSDL.

Coq side: coq/C10/Model.v (declarations, load step, the three selector classes
of suds/client.py statement by statement, the request handed to the transport;
the specification `route` written from the property text over the declarations;
several clients over one WSDL), coq/C10/Proofs.v, coq/C10/Props.v.

This harness renders small WSDLs (0..3 services x 0..3 ports, each port over
one of two SOAP bindings with overlapping / disjoint operation sets or over a
non-SOAP binding), builds a real suds client over each with a recording
transport, evaluates selector expressions of depth <= 3 under settings of the
service / port / location options, and hands Coq the declarations, the
options, the expression and what the implementation did (URL, SOAPAction and
first Body child received by the transport, or the exception class).  Coq
evaluates
  sel_agrees   the model of the selectors does exactly that, and
  sel_spec_ok  that is what the property text fixes for this selection
(grp_agrees / grp_spec_ok: the same over groups of selections sharing one WSDL
literal; the selections of a failing group are then checked one by one) and
the same two for histories over several clients (set_options / clone / call) -
the "only for the client it is set on" part.

Tiers: quick = a seed-offset slice of 300 of the 65641 WSDL shapes x 24
selections, all depth<=2 expressions x 8 option settings on 3 core WSDLs (+ a
WSDL without SOAP ports, one without services), a sixth of the depth-3
expressions, 300 histories (about 33k selections); thorough = every shape x 8
selections, all depth<=2 expressions x all 144 option settings on 4 core WSDLs,
all depth-3 expressions (attribute access last) x 4 option settings on them,
3000 histories (about 1.05M selections).
"""
import itertools
import logging
import os
import re

from . import common
from .common import cN, cZ, clist, copt

THEOREMS = [
    "select_correct",
    "routed_request_is_declared",
    "unknown_service_raises",
    "unknown_default_service_raises",
    "unknown_port_raises",
    "unknown_default_port_raises",
    "unknown_method_raises",
    "explicit_pair_exact",
    "default_port_overrides_subscript",
    "single_service_subscript_is_port",
    "default_service_subscript_is_port",
    "attribute_access_uses_defaults",
    "first_service_first_port_by_default",
    "location_changes_url_only",
    "location_override_local",
    "clone_snapshot_independent",
    "selection_deterministic",
]

PRE = "From SV Require Import Lib.Base C10.Model.\n"

TNS = "urn:c10:tns"
SVC_NAMES = ["SvcB", "SvcA", "SvcC"]        # by position; deliberately not sorted
PORT_NAMES = ["PrtB", "PrtA", "PrtC"]       # by position inside the service (all ports counted)
OVERRIDE = "http://override.invalid/elsewhere"
SOAPNS = "http://schemas.xmlsoap.org/wsdl/soap/"
SOAP12NS = "http://schemas.xmlsoap.org/wsdl/soap12/"
ENVNS = "http://schemas.xmlsoap.org/soap/envelope/"

# operation tables: binding -> (binding style, [(op, soapAction|None, op style|None, body ns|None,
#                                               has soap:operation element)])
MODES = {
    # overlapping: g in both bindings, with different action / style / body root
    0: {"BndA": ("document", [("f", "urn:act/A/f", None, None, True),
                              ("g", "urn:act/A/g", None, None, True)]),
        "BndB": ("rpc", [("g", "urn:act/B/g", None, "urn:rpc/B", True),
                         ("h", None, "document", None, True)])},
    # disjoint
    1: {"BndA": ("document", [("f", "urn:act/A/f", None, None, True),
                              ("g", "urn:act/A/g", None, None, True)]),
        "BndB": ("rpc", [("h", None, None, None, False),
                         ("k", "urn:act/B/k", "document", None, True)])},
    # the same names in both, other order, styles crossed
    2: {"BndA": ("document", [("f", "urn:act/A/f", "rpc", "urn:rpc/A", True),
                              ("g", "urn:act/A/g", None, None, True)]),
        "BndB": ("rpc", [("g", "urn:act/B/g", None, None, True),
                         ("f", "urn:act/B/f", None, "urn:rpc/B", True)])},
}
OPS = ["f", "g", "h", "k"]
KIND_BINDING = {"A": "BndA", "B": "BndB", "H": "BndH", "X": "BndMissing"}

INT_KEYS = [-4, -3, -2, -1, 0, 1, 2, 3]
STR_KEYS = SVC_NAMES + PORT_NAMES + OPS + ["zz"]
KEYS = INT_KEYS + STR_KEYS
ATTR_NAMES = OPS + ["zz", "PrtA"]
STEPS = [("A", n) for n in ATTR_NAMES] + [("I", k) for k in KEYS]
ITEM_STEPS = [("I", k) for k in KEYS]

SERVICE_OPTS = [None, 0, 1, -1, 2, 5, "SvcB", "SvcA", "zz"]
PORT_OPTS = [None, 0, 1, -1, 3, "PrtB", "PrtA", "zz"]
LOCATION_OPTS = [None, OVERRIDE]


# ---------------------------------------------------------------------------
# interning
# ---------------------------------------------------------------------------

class Intern(object):
    def __init__(self):
        self.ids = {"": 0}
        self.names = [""]

    def __call__(self, s):
        i = self.ids.get(s)
        if i is None:
            i = len(self.names)
            self.ids[s] = i
            self.names.append(s)
        return i


INTERN = Intern()
for _s in ([TNS] + SVC_NAMES + PORT_NAMES + OPS + ["zz"] + sorted(KIND_BINDING.values()) + [OVERRIDE]):
    INTERN(_s)


def url_of(si, pi):
    return "http://h%d.invalid/svc%d/port%d" % (si, si, pi)


def elem_of(binding, op):
    return "%s_%s_req" % (binding, op)


# ---------------------------------------------------------------------------
# the WSDL family
# ---------------------------------------------------------------------------

class Shape(object):
    """mode + per service the tuple of port kinds ('A','B' SOAP bindings, 'H' a
    non-SOAP binding, 'X' a binding that is not declared)."""
    __slots__ = ("mode", "services")

    def __init__(self, mode, services):
        self.mode = mode
        self.services = tuple(tuple(s) for s in services)

    def key(self):
        return (self.mode, self.services)

    def label(self):
        return "mode%d:%s" % (self.mode, "|".join("".join(s) or "-" for s in self.services) or "(no services)")

    def loadable(self):
        return not any(k == "X" for s in self.services for k in s)

    def to_json(self):
        return {"mode": self.mode, "services": ["".join(s) for s in self.services]}

    @staticmethod
    def from_json(d):
        return Shape(d["mode"], [tuple(s) for s in d["services"]])


PORT_SEQS = [()] + [t for n in (1, 2, 3) for t in itertools.product("ABH", repeat=n)]   # 40
N_SHAPES = 1 + 40 + 40 ** 2 + 40 ** 3                                                     # 65641


def shape_by_index(i):
    """The i-th of the 65641 (services x ports x binding kind) shapes; the mode
    (operation tables) cycles with the index."""
    mode = i % 3
    if i == 0:
        return Shape(mode, [])
    i -= 1
    for n in (1, 2, 3):
        if i < 40 ** n:
            svcs = []
            for _ in range(n):
                svcs.append(PORT_SEQS[i % 40])
                i //= 40
            return Shape(mode, svcs)
        i -= 40 ** n
    raise IndexError(i)


def soap_prefix(mode, binding):
    """Binding B of mode 2 is declared with the SOAP 1.2 WSDL namespace (a SOAP
    binding all the same for suds: Binding.soaproot)."""
    return "soap12" if (mode == 2 and binding == "BndB") else "soap"


def render(shape):
    table = MODES[shape.mode]
    out = ['<?xml version="1.0" encoding="UTF-8"?>',
           '<wsdl:definitions targetNamespace="%s" xmlns:tns="%s" xmlns:soap="%s" xmlns:soap12="%s" '
           'xmlns:http="http://schemas.xmlsoap.org/wsdl/http/" '
           'xmlns:wsdl="http://schemas.xmlsoap.org/wsdl/" '
           'xmlns:xsd="http://www.w3.org/2001/XMLSchema">' % (TNS, TNS, SOAPNS, SOAP12NS),
           '<wsdl:types><xsd:schema targetNamespace="%s" elementFormDefault="qualified">' % TNS]
    for bn in sorted(table):
        for (op, _a, _s, _n, _e) in table[bn][1]:
            out.append('<xsd:element name="%s"><xsd:complexType><xsd:sequence/></xsd:complexType>'
                       '</xsd:element>' % elem_of(bn, op))
    out.append('</xsd:schema></wsdl:types>')
    for bn in sorted(table):
        bstyle = table[bn][0]
        for (op, _a, st, _n, _e) in table[bn][1]:
            if (st or bstyle) == "document":
                out.append('<wsdl:message name="%s_%s_in"><wsdl:part name="parameters" element="tns:%s"/>'
                           '</wsdl:message>' % (bn, op, elem_of(bn, op)))
            else:
                out.append('<wsdl:message name="%s_%s_in"/>' % (bn, op))
            out.append('<wsdl:message name="%s_%s_out"/>' % (bn, op))
    out.append('<wsdl:message name="H_in"/><wsdl:message name="H_out"/>')
    for bn in sorted(table):
        out.append('<wsdl:portType name="PT_%s">' % bn)
        for (op, _a, _s, _n, _e) in table[bn][1]:
            out.append('<wsdl:operation name="%s"><wsdl:input message="tns:%s_%s_in"/>'
                       '<wsdl:output message="tns:%s_%s_out"/></wsdl:operation>' % (op, bn, op, bn, op))
        out.append('</wsdl:portType>')
    out.append('<wsdl:portType name="PT_BndH"><wsdl:operation name="f"><wsdl:input message="tns:H_in"/>'
               '<wsdl:output message="tns:H_out"/></wsdl:operation></wsdl:portType>')
    # bindings: the non-SOAP one between the two SOAP ones
    for bn in ("BndB", "BndH", "BndA") if shape.mode != 1 else ("BndA", "BndB", "BndH"):
        if bn == "BndH":
            out.append('<wsdl:binding name="BndH" type="tns:PT_BndH"><http:binding verb="GET"/>'
                       '<wsdl:operation name="f"><http:operation location="/f"/><wsdl:input/><wsdl:output/>'
                       '</wsdl:operation></wsdl:binding>')
            continue
        bstyle, ops = table[bn]
        sp = soap_prefix(shape.mode, bn)
        out.append('<wsdl:binding name="%s" type="tns:PT_%s">' % (bn, bn))
        out.append('<%s:binding style="%s" transport="http://schemas.xmlsoap.org/soap/http"/>' % (sp, bstyle))
        for (op, action, st, ns, has_el) in ops:
            out.append('<wsdl:operation name="%s">' % op)
            if has_el:
                out.append('<%s:operation%s%s/>' % (
                    sp, ' soapAction="%s"' % action if action is not None else "",
                    ' style="%s"' % st if st is not None else ""))
            out.append('<wsdl:input><%s:body use="literal"%s/></wsdl:input>'
                       '<wsdl:output><%s:body use="literal"/></wsdl:output>'
                       % (sp, ' namespace="%s"' % ns if ns is not None else "", sp))
            out.append('</wsdl:operation>')
        out.append('</wsdl:binding>')
    for si, ports in enumerate(shape.services):
        out.append('<wsdl:service name="%s">' % SVC_NAMES[si])
        for pi, kind in enumerate(ports):
            out.append('<wsdl:port name="%s" binding="tns:%s">' % (PORT_NAMES[pi], KIND_BINDING[kind]))
            out.append('<%s:address location="%s"/>'
                       % ("http" if kind == "H" else soap_prefix(shape.mode, KIND_BINDING[kind]), url_of(si, pi)))
            out.append('</wsdl:port>')
        out.append('</wsdl:service>')
    out.append('</wsdl:definitions>')
    return "\n".join(out).encode("utf-8")


def c_style(s):
    return {"document": "Doc", "rpc": "Rpc"}[s]


def c_bindings(mode):
    """The declared bindings of a mode, in document order, as a Coq term."""
    table = MODES[mode]
    order = ("BndB", "BndH", "BndA") if mode != 1 else ("BndA", "BndB", "BndH")
    bs = []
    for bn in order:
        if bn == "BndH":
            bs.append("(mkB %s None [mkOp %s None None None 0%%N])" % (cN(INTERN("BndH")), cN(INTERN("f"))))
            continue
        bstyle, ops = table[bn]
        cops = []
        for (op, action, st, ns, has_el) in ops:
            cops.append("mkOp %s %s %s %s %s" % (
                cN(INTERN(op)),
                copt(cN(INTERN(action)) if action is not None else None, "N"),
                copt(c_style(st) if st is not None else None, "style"),
                copt(cN(INTERN(ns)) if ns is not None else None, "N"),
                cN(INTERN(elem_of(bn, op)))))
        bs.append("(mkB %s (Some %s) [%s])" % (cN(INTERN(bn)), c_style(bstyle), "; ".join(cops)))
    return "[" + "; ".join(bs) + "]"


def c_wsdl(shape):
    svcs = []
    for si, ports in enumerate(shape.services):
        ps = ["Pt %d %d %d" % (INTERN(PORT_NAMES[pi]), INTERN(KIND_BINDING[kind]), INTERN(url_of(si, pi)))
              for pi, kind in enumerate(ports)]
        svcs.append("Sv %d %s" % (INTERN(SVC_NAMES[si]), clist(ps, "portdecl")))
    return "(Wm%d %s)" % (shape.mode, clist(svcs, "service"))


def preamble():
    lines = [PRE,
             "Definition Pt (a b c : N) := mkP a b c.",
             "Definition Sv (a : N) (l : list portdecl) := mkS a l.",
             "Definition KI (z : Z) := KInt z.",
             "Definition KS (n : N) := KStr n.",
             "Definition At (n : N) := Attr n.",
             "Definition It (k : key) := Item k.",
             "Definition SNT (u a r1 r2 : N) := OSent u a (r1, r2)."]
    for mode in sorted(MODES):
        lines.append("Definition Wm%d (l : list service) := mkW %s %s l."
                     % (mode, cN(INTERN(TNS)), c_bindings(mode)))
    return "\n".join(lines)


# ---------------------------------------------------------------------------
# Coq printers for options, expressions, outcomes
# ---------------------------------------------------------------------------

def c_key(k):
    if isinstance(k, bool):
        raise ValueError(k)
    if isinstance(k, int):
        return "(KI %s)" % cZ(k)
    return "(KS %s)" % cN(INTERN(k))


def c_opts(o):
    svc, port, loc = o
    return "(mkO %s %s %s)" % (copt(c_key(svc) if svc is not None else None, "key"),
                               copt(c_key(port) if port is not None else None, "key"),
                               copt(cN(INTERN(loc)) if loc is not None else None, "N"))


def c_step(st):
    if st[0] == "A":
        return "At %s" % cN(INTERN(st[1]))
    return "It %s" % c_key(st[1])


def c_expr(e):
    return clist([c_step(s) for s in e], "step")


EXN = {"ServiceNotFound": "ServiceNotFound", "PortNotFound": "PortNotFound",
       "MethodNotFound": "MethodNotFound", "Exception": "PlainException",
       "TypeError": "TypeError", "AttributeError": "AttributeError"}


def c_outcome(x):
    if x[0] == "sent":
        _, url, action, (ns, name) = x
        return "(SNT %s %s %s %s)" % (cN(INTERN(url)), cN(INTERN(action)), cN(INTERN(ns or "")), cN(INTERN(name)))
    if x[0] == "exc":
        return "(ORaise %s)" % EXN.get(x[1], "OtherError")
    if x[0] == "sel":
        return "OSelector"
    if x[0] == "loadfail":
        return "OLoadFail"
    return "(OWeird %s)" % cN(x[1])


def show_expr(e):
    s = "client.service"
    for st in e:
        s += (".%s" % st[1]) if st[0] == "A" else ("[%r]" % (st[1],))
    return s


# ---------------------------------------------------------------------------
# the implementation side
# ---------------------------------------------------------------------------

_REPLY = ('<SOAP-ENV:Envelope xmlns:SOAP-ENV="%s"><SOAP-ENV:Body/></SOAP-ENV:Envelope>' % ENVNS).encode()
_cache = {}


def _transport_class():
    if "T" in _cache:
        return _cache["T"]
    import suds.transport

    class RecordingTransport(suds.transport.Transport):
        def __init__(self):
            suds.transport.Transport.__init__(self)
            self.log = []

        def __deepcopy__(self, memo):
            # Client.clone() deep-copies the option values; like suds' own
            # HttpTransport this transport says how: a fresh one, own log
            return RecordingTransport()

        def open(self, request):
            raise Exception("the C10 harness never opens URLs: %s" % request.url)

        def send(self, request):
            self.log.append((request.url, dict(request.headers), request.message))
            return suds.transport.Reply(200, {}, _REPLY)

    _cache["T"] = RecordingTransport
    return RecordingTransport


def make_client(shape):
    """(client, None) or (None, exception class name) when Client(...) raises."""
    from . import sudsutil
    try:
        c = sudsutil.client_from_wsdl(render(shape), transport=_transport_class()(), retxml=True)
        return c, None
    except Exception as e:       # the load step failed
        return None, type(e).__name__


def exc_class(e):
    import suds
    t = type(e)
    if t is suds.ServiceNotFound:
        return "ServiceNotFound"
    if t is suds.PortNotFound:
        return "PortNotFound"
    if t is suds.MethodNotFound:
        return "MethodNotFound"
    if t is Exception:
        return "Exception"
    if t is TypeError:
        return "TypeError"
    if t is AttributeError:
        return "AttributeError"
    return "other:" + t.__name__


def observe(client, expr):
    """Evaluate the selector expression on client.service and, when it yields
    something callable, call it; report what the transport received."""
    from . import sudsutil
    try:
        log = client.options.transport.log
        del log[:]
    except Exception:
        return ("weird", 9)
    try:
        obj = client.service
        for st in expr:
            obj = getattr(obj, st[1]) if st[0] == "A" else obj[st[1]]
        if not callable(obj):
            return ("sel",)
        obj()
    except Exception as e:
        try:
            sent = len(client.options.transport.log)
        except Exception:
            sent = 0
        if sent:
            return ("weird", 2)        # raised after a request had gone out
        return ("exc", exc_class(e))
    try:
        log = client.options.transport.log
        if len(log) != 1:
            return ("weird", 1)
        url, headers, message = log[0]
        action = headers.get("SOAPAction")
        if isinstance(action, bytes):
            action = action.decode("utf-8")
        if not isinstance(action, str):
            action = "<no SOAPAction header>"
        elif len(action) >= 2 and action[0] == '"' and action[-1] == '"':
            action = action[1:-1]
        else:
            action = "<unquoted>" + action
        env = sudsutil.expat_parse(message)
        body = env.find("Body", ENVNS) if (env.name == "Envelope" and env.ns == ENVNS) else None
        kids = body.elements() if body is not None else []
        if len(kids) != 1:
            return ("weird", 3)
        return ("sent", str(url), action, (kids[0].ns, kids[0].name))
    except Exception:
        return ("weird", 4)


def set_options(client, o):
    svc, port, loc = o
    client.set_options(service=svc, port=port, location=loc)


# ---------------------------------------------------------------------------
# generators
# ---------------------------------------------------------------------------

CORE = [
    Shape(0, ["AHB", "B", "BBA"]),
    Shape(0, ["AHB"]),
    Shape(1, ["HA", "AB"]),
    Shape(2, ["BA", "AB", "H"]),
    Shape(0, ["", "H"]),
    Shape(2, []),
    Shape(1, ["B"]),
    Shape(1, ["ABA", "BAB", "AHH"]),
    Shape(0, ["HHA", "A"]),
    Shape(2, ["H"]),
    Shape(0, ["A", "A", "A"]),
    Shape(1, ["BB", ""]),
]
UNLOADABLE = [Shape(0, ["AX"]), Shape(1, ["A", "XB"]), Shape(2, ["X"])]


def all_exprs(depth, items_first=True):
    """All step sequences of exactly this depth; with items_first only the last
    step may be an attribute access (the others lead nowhere but
    AttributeError/TypeError on a Method)."""
    if depth == 1:
        return [(s,) for s in STEPS]
    heads = ITEM_STEPS if items_first else STEPS
    return [p + (s,) for p in itertools.product(heads, repeat=depth - 1) for s in STEPS]


def soap_positions(shape, si):
    return [pi for pi, k in enumerate(shape.services[si]) if k in "AB"]


def ops_of(shape, kind):
    return [op for (op, _a, _s, _n, _e) in MODES[shape.mode][KIND_BINDING[kind]][1]]


def pick_key(rng, n, names):
    """A subscript that selects one of n items (by position, negative position
    or name); returns (key, position)."""
    i = rng.randrange(n)
    r = rng.random()
    if r < 0.4:
        return i, i
    if r < 0.6:
        return i - n, i
    return names[i], i


def intended_expr(rng, shape, opts):
    """An expression meant to select something that exists, following the
    documented rules (only a bias of the generator: the verdict never uses it)."""
    ns = len(shape.services)
    if ns == 0:
        return None
    svc_opt, port_opt, _ = opts
    steps = []
    form = rng.choice((0, 1, 1, 2, 2, 2))      # number of subscripts before the operation
    si = 0
    passthrough = ns == 1 or svc_opt is not None
    if svc_opt is not None:
        if isinstance(svc_opt, int):
            si = svc_opt if 0 <= svc_opt < ns else (svc_opt + ns if -ns <= svc_opt < 0 else None)
        else:
            si = SVC_NAMES.index(svc_opt) if svc_opt in SVC_NAMES[:ns] else None
        if si is None:
            return None
    if ns == 1:
        si = 0
    subs = form
    if not passthrough and subs >= 1:
        k, si = pick_key(rng, ns, SVC_NAMES)
        steps.append(("I", k))
        subs -= 1
    soap = soap_positions(shape, si)
    if not soap:
        return None
    pj = 0
    if subs >= 1:
        k, pj = pick_key(rng, len(soap), [PORT_NAMES[p] for p in soap])
        steps.append(("I", k))
        subs -= 1
    if port_opt is not None:
        n = len(soap)
        if isinstance(port_opt, int):
            pj = port_opt if 0 <= port_opt < n else (port_opt + n if -n <= port_opt < 0 else None)
        else:
            names = [PORT_NAMES[p] for p in soap]
            pj = names.index(port_opt) if port_opt in names else None
        if pj is None:
            return None
    ops = ops_of(shape, shape.services[si][soap[pj]])
    op = rng.choice(ops) if rng.random() < 0.85 else rng.choice(OPS)
    if subs >= 1 or rng.random() < 0.25:
        steps.append(("I", op))
    else:
        steps.append(("A", op))
    return tuple(steps[:3])


def weighted_expr(rng, shape, opts=(None, None, None)):
    """A random expression: mostly an intended selection, sometimes with one
    step replaced, sometimes arbitrary."""
    r = rng.random()
    e = intended_expr(rng, shape, opts) if r < 0.8 else None
    if e is None:
        d = rng.choice((1, 2, 2, 3, 3))
        return tuple([rng.choice(ITEM_STEPS) for _ in range(d - 1)] + [rng.choice(STEPS)])
    if r < 0.5:
        return e
    e = list(e)
    i = rng.randrange(len(e))
    rr = rng.random()
    if rr < 0.6:
        e[i] = rng.choice(STEPS)
    elif rr < 0.8 and len(e) < 3:
        e.insert(i, rng.choice(ITEM_STEPS))
    elif len(e) > 1:
        del e[i]
    return tuple(e)


def weighted_opts(rng, shape):
    ns = len(shape.services)
    r = rng.random()
    svc = None if r < 0.45 else (rng.choice(SERVICE_OPTS[1:]) if r < 0.8 or ns == 0
                                 else rng.choice(list(range(-ns, ns)) + SVC_NAMES[:ns]))
    r = rng.random()
    port = None if r < 0.5 else rng.choice(PORT_OPTS[1:])
    loc = OVERRIDE if rng.random() < 0.25 else None
    return (svc, port, loc)


def all_opts():
    return [(s, p, l) for s in SERVICE_OPTS for p in PORT_OPTS for l in LOCATION_OPTS]


class Runner(object):
    """Collects selections, runs them on the implementation and, in chunks,
    through Coq; keeps only what the verdict needs.  Selections over one WSDL
    go to Coq as groups (one WSDL literal, many selections); the selections
    of a group that fails are then checked one by one."""
    CHUNK = 120000          # selections per Coq round
    GROUP = 60              # selections per group

    def __init__(self, ck):
        self.ck = ck
        self.groups = []        # (coq term of the WSDL, [coq term of a selection], [meta])
        self.pending = 0
        self.total = 0
        self.shapes = set()
        self.spec_bad = []      # (shape, opts, expr, outcome) the text does not allow
        self.disagree = []      # allowed by the text but not what the model does
        self.samples = []

    def flush(self):
        if not self.groups:
            return
        cases = ["(%s, %s)" % (cw, clist(sels, "selection")) for (cw, sels, _m) in self.groups]
        res = self.ck.run_cases("grp", preamble(), "sel_group", cases,
                                ["grp_agrees", "grp_spec_ok"], shard=100)
        failing = sorted(set(res["grp_agrees"]) | set(res["grp_spec_ok"]))
        if failing:
            # second round: the selections of (a bounded number of) failing groups one by one
            singles, smeta = [], []
            for gi in failing[:40]:
                cw, sels, metas = self.groups[gi]
                for cs, m in zip(sels, metas):
                    singles.append("(%s, %s)" % (cw, cs[1:-1]))
                    smeta.append(m)
            res1 = self.ck.run_cases("sel", preamble(), "sel_case", singles,
                                     ["sel_agrees", "sel_spec_ok"], shard=250)
            bad = set(res1["sel_spec_ok"])
            self.spec_bad.extend(smeta[i] for i in res1["sel_spec_ok"][:50])
            self.disagree.extend(smeta[i] for i in res1["sel_agrees"] if i not in bad)
            del self.spec_bad[200:]
            del self.disagree[50:]
        if len(self.samples) < 4:
            for gi in (0, len(self.groups) // 3, len(self.groups) // 2, len(self.groups) - 1):
                metas = self.groups[gi][2]
                self.samples.append(metas[len(metas) // 2])
        self.groups, self.pending = [], 0

    def group(self, shape, selections, bucket):
        """selections: iterable of (opts, expr)."""
        client, err = make_client(shape)
        cw = c_wsdl(shape)
        self.shapes.add(shape.key())
        cur = self          # sentinel: no options applied yet
        seen = set()
        sels, metas = [], []
        for (o, e) in selections:
            if (o, e) in seen:
                continue
            seen.add((o, e))
            if client is None:
                x = ("loadfail", err)
            else:
                ok = True
                if o != cur:
                    try:
                        set_options(client, o)
                        cur = o
                    except Exception:
                        cur = self
                        ok = False
                x = observe(client, e) if ok else ("weird", 5)
            sels.append("(%s, %s, %s)" % (c_opts(o), c_expr(e), c_outcome(x)))
            metas.append((shape, o, e, x))
            if len(sels) >= self.GROUP:
                self.groups.append((cw, sels, metas))
                sels, metas = [], []
            self.total += 1
            self.pending += 1
            self.ck.seen((shape.key(), o, e),
                         nontrivial=(x[0] == "sent" or
                                     (x[0] == "exc" and x[1] in ("ServiceNotFound", "PortNotFound",
                                                                 "MethodNotFound"))))
            self.ck.count("scope:" + bucket)
            self.ck.count("outcome:" + (x[1] if x[0] == "exc" else x[0]))
            self.ck.count("depth:%d" % len(e))
        if sels:
            self.groups.append((cw, sels, metas))
        if self.pending >= self.CHUNK:
            self.flush()


def slice_indexes(ck, n):
    """n shape indexes spread over the 65641, offset by the seed."""
    stride = N_SHAPES // n
    off = ck.rng.randrange(stride)
    return [off + i * stride for i in range(n)]


def gen_selections(ck, run):
    rng = ck.rng
    thorough = ck.tier == "thorough"
    # (a) the WSDL dimension: shapes x sampled (options, expression)
    idxs = range(N_SHAPES) if thorough else slice_indexes(ck, 300)
    n_plain, n_opts, per_opt = (2, 2, 3) if thorough else (8, 4, 4)
    for i in idxs:
        sh = shape_by_index(i)
        sels = [((None, None, None), weighted_expr(rng, sh)) for _ in range(n_plain)]
        for _ in range(n_opts):
            o = weighted_opts(rng, sh)
            sels += [(o, weighted_expr(rng, sh, o)) for _ in range(per_opt)]
        run.group(sh, sels, "a:shapes")
    # (b) expressions of depth <= 2 exhaustively x options, on the core WSDLs
    d12 = all_exprs(1) + all_exprs(2, items_first=False)
    opts = all_opts()
    core_b = CORE[:4] if thorough else CORE[:3]
    for ci, sh in enumerate(core_b):
        if thorough:
            os_ = opts
        else:
            os_ = [(None, None, None)] + rng.sample(opts[1:], 7)
        run.group(sh, [(o, e) for o in os_ for e in d12], "b:depth<=2 exhaustive")
    # ... and on a WSDL without SOAP ports and one without services (every selection must fail)
    for sh in CORE[4:6]:
        os_ = [(None, None, None)] + (rng.sample(opts[1:], 8) if thorough else [])
        run.group(sh, [(o, e) for o in os_ for e in d12], "b:depth<=2 exhaustive")
    # (c) depth 3 exhaustively (attribute access last) on core WSDLs, a few option settings
    d3 = all_exprs(3)
    core_c = CORE[:4] if thorough else CORE[:3]
    for sh in core_c:
        ns = len(sh.services)
        os_ = [(None, None, None), (1 if ns > 1 else 0, None, None), (None, "PrtA", None),
               ("SvcA", -1, OVERRIDE)]
        if not thorough:
            os_ = os_[:1] + [rng.choice(os_[1:])]
        exprs = d3 if thorough else rng.sample(d3, len(d3) // 6)
        run.group(sh, [(o, e) for o in os_ for e in exprs], "c:depth 3")
    # (d) WSDLs whose port names an undeclared binding: Client(...) must fail
    for sh in UNLOADABLE:
        run.group(sh, [((None, None, None), e) for e in all_exprs(1)[:8]], "d:unloadable")


# ---------------------------------------------------------------------------
# histories over several clients
# ---------------------------------------------------------------------------

def c_event(ev):
    t = ev[0]
    if t == "svc":
        return "(ESetService %d%%nat %s)" % (ev[1], copt(c_key(ev[2]) if ev[2] is not None else None, "key"))
    if t == "port":
        return "(ESetPort %d%%nat %s)" % (ev[1], copt(c_key(ev[2]) if ev[2] is not None else None, "key"))
    if t == "loc":
        return "(ESetLocation %d%%nat %s)" % (ev[1], copt(cN(INTERN(ev[2])) if ev[2] is not None else None, "N"))
    if t == "clone":
        return "(EClone %d%%nat)" % ev[1]
    return "(ECall %d%%nat %s)" % (ev[1], c_expr(ev[2]))


def gen_history(rng, shape):
    n = 1
    evs = []
    for _ in range(rng.randrange(6, 13)):
        r = rng.random()
        c = rng.randrange(n)
        if r < 0.12 and n < 4:
            evs.append(("clone", c))
            n += 1
        elif r < 0.30:
            evs.append(("loc", c, rng.choice([OVERRIDE, OVERRIDE + "/2", None])))
        elif r < 0.40:
            evs.append(("svc", c, rng.choice(SERVICE_OPTS)))
        elif r < 0.50:
            evs.append(("port", c, rng.choice(PORT_OPTS)))
        else:
            evs.append(("call", c, weighted_expr(rng, shape)))
    # every client is called at the end with the same expression
    e = weighted_expr(rng, shape)
    for c in range(n):
        evs.append(("call", c, e))
    return evs


def run_history(shape, evs):
    """Replays the events on real clients; returns the per-call records
    [(client, options the harness put on it, expr, outcome)] or None when the
    WSDL does not load."""
    client, err = make_client(shape)
    if client is None:
        return None
    clients = [client]
    book = [[None, None, None]]       # the harness's own record of what it set where
    calls = []
    for ev in evs:
        t, c = ev[0], ev[1]
        try:
            if t == "svc":
                clients[c].set_options(service=ev[2])
                book[c][0] = ev[2]
            elif t == "port":
                clients[c].set_options(port=ev[2])
                book[c][1] = ev[2]
            elif t == "loc":
                clients[c].set_options(location=ev[2])
                book[c][2] = ev[2]
            elif t == "clone":
                clients.append(clients[c].clone())
                book.append(list(book[c]))
            else:
                calls.append((c, tuple(book[c]), ev[2], observe(clients[c], ev[2])))
        except Exception as e:
            if t == "call":
                calls.append((c, tuple(book[c]), ev[2], ("weird", 6)))
            elif t == "clone":
                # keep the indexes aligned: a client that cannot be used
                clients.append(None)
                book.append(list(book[c]))
            # a failed set_options shows up in the later calls
    return calls


# ---------------------------------------------------------------------------
# classification of a failing selection (finding key)
# ---------------------------------------------------------------------------

def classify(ck, shape, o, e, x):
    """Ask Coq what the text fixes for this selection; build the finding key
    ((None, None) when the outcome is what the text fixes)."""
    rc, out = ck.coq_eval(preamble(), ["route %s %s %s" % (c_wsdl(shape), c_opts(o), c_expr(e)),
                                       "sat (route %s %s %s) %s" % (c_wsdl(shape), c_opts(o), c_expr(e),
                                                                    c_outcome(x))])
    if re.search(r"=\s*true\s*:\s*bool", out):
        return None, None
    m = re.search(r"=\s*\(?\s*(SRoute|SRaise|SFail|SNoCall)\s*([^:]*):", out, re.S)
    want = m.group(1) if m else "?"
    arg = " ".join(m.group(2).split()) if m else ""
    names = INTERN.names

    def nm(tok):
        mm = re.match(r"\(?(\d+)%N", tok)
        if mm and int(mm.group(1)) < len(names):
            return names[int(mm.group(1))]
        return tok
    if want == "SRoute":
        toks = re.findall(r"\d+%N", arg)
        exp = [nm(t) for t in toks]
        expected = "request to %s, SOAPAction \"%s\", body root {%s}%s" % tuple(exp[:4]) if len(exp) >= 4 else arg
        if x[0] == "sent":
            got = (x[1], x[2], x[3][0] or "", x[3][1])
            if got[0] != exp[0]:
                cls = "wrong-endpoint"
            elif got[1] != exp[1]:
                cls = "wrong-soapaction"
            else:
                cls = "wrong-body-root"
        elif x[0] == "exc":
            cls = "declared-operation-not-reached"
        else:
            cls = "declared-operation-not-called"
    elif want == "SRaise":
        expected = "raises " + arg.strip("() ")
        cls = "falls-through" if x[0] == "sent" else "wrong-exception-class"
    elif want == "SFail":
        expected = "no request (an exception)"
        cls = "falls-through" if x[0] == "sent" else "no-exception"
    elif want == "SNoCall":
        expected = "a selector object (not callable)"
        cls = "selector-is-called" if x[0] == "sent" else "selector-expression-fails"
    else:
        expected, cls = "?", "unclassified"
    return cls, expected


def describe(x):
    if x[0] == "sent":
        return "request to %s, SOAPAction \"%s\", body root {%s}%s" % (x[1], x[2], x[3][0], x[3][1])
    if x[0] == "exc":
        return "raises " + x[1]
    if x[0] == "sel":
        return "a selector object"
    if x[0] == "loadfail":
        return "Client(...) raises " + str(x[1])
    return "harness could not observe a single request (code %s)" % (x[1],)


# ---------------------------------------------------------------------------

def run(ck):
    common.force_repo_path()
    logging.getLogger("suds").addHandler(logging.NullHandler())
    ck.trusted = [
        "Coq 8.16.1 kernel + vm_compute (correspondence evaluation); no native_compute",
        "correspondence harness harness/c10.py (WSDL renderer and its Coq transcription of the same "
        "declarations, recording transport, expat-based reading of the request body, exception-class "
        "canonicalisation)",
        "modelled, not verified: the WSDL/XSD reader up to the per-port method table (covered by the "
        "correspondence: the table the model computes from the declarations is the one the selections "
        "observe), request marshalling beyond the first Body child, Python attribute lookup / "
        "isinstance(name, int) / list indexing / dict semantics",
    ]
    ck.notes = [
        "cells the statement leaves open, fixed conservatively in the spec (any exception accepted, no "
        "request allowed): no services / no SOAP ports at all (suds raises a plain Exception), an int "
        "subscript where a method name belongs (TypeError), any step applied to a Method, a port naming an "
        "undeclared binding (Client() raises)",
        "with a single service the first subscript selects a port even when a default service option is "
        "set (the option is not consulted, not even validated) - the text's rule for a single service",
        "ports over a non-SOAP binding are not addressable by name or position (Service.do_resolve: "
        "'Ports without SOAP bindings are discarded'); indexes count SOAP ports only",
        "qualified names kept by the selectors for messages (qn) are not modelled",
    ]
    proof_ok = ck.prove(THEOREMS)

    run_ = Runner(ck)
    gen_selections(ck, run_)
    run_.flush()
    pre = preamble()

    # histories
    hist_cases, hist_meta = [], []
    n_hist = 3000 if ck.tier == "thorough" else 300
    shapes_h = [sh for sh in CORE if sh.services] + [shape_by_index(i) for i in slice_indexes(ck, 40)]
    for hi in range(n_hist):
        sh = shapes_h[hi % len(shapes_h)]
        evs = gen_history(ck.rng, sh)
        calls = run_history(sh, evs)
        if calls is None:
            continue
        sel = ["(%s, %s, %s)" % (c_opts(o), c_expr(e), c_outcome(x)) for (_c, o, e, x) in calls]
        hist_cases.append("(%s, %s, %s)" % (c_wsdl(sh), clist([c_event(ev) for ev in evs], "event"),
                                            clist(sel, "selection")))
        hist_meta.append((sh, evs, calls))
        ck.seen(("hist", sh.key(), tuple(evs)), nontrivial=any(ev[0] == "clone" for ev in evs))
        ck.count("scope:e:histories")
        ck.count("history-calls", len(calls))
    hres = ck.run_cases("hist", pre, "hist_case", hist_cases, ["hist_agrees", "hist_spec_ok"], shard=90)

    for (sh, o, e, x) in run_.samples[:4]:
        ck.sample({"wsdl": sh.label(), "options": {"service": o[0], "port": o[1], "location": o[2]},
                   "expression": show_expr(e), "implementation": describe(x)})
    if hist_meta:
        sh, evs, calls = hist_meta[0]
        ck.sample({"wsdl": sh.label(), "history": [list(map(repr, ev)) for ev in evs],
                   "calls": [describe(c[3]) for c in calls]})

    # verdicts: spec failures are failing inputs
    for (sh, o, e, x) in run_.spec_bad[:12]:
        cls, expected = classify(ck, sh, o, e, x)
        if cls is None:
            cls, expected = "unclassified", "?"
        ck.failing_input(
            "C10:" + cls,
            "%s with options service=%r port=%r location=%r on WSDL %s: %s; the WSDL and the documented rules "
            "give: %s" % (show_expr(e), o[0], o[1], o[2], sh.label(), describe(x), expected),
            {"kind": "selection", "shape": sh.to_json(), "options": list(o), "expr": [list(s) for s in e],
             "observed": describe(x), "expected": expected, "wsdl": render(sh).decode("utf-8")})
    hspec_bad = hres["hist_spec_ok"]
    for i in hspec_bad[:4]:
        sh, evs, calls = hist_meta[i]
        # which call went wrong, and would a fresh client with the same options do the same?
        key, what = None, None
        for (c, o, e, x) in calls:
            cls, expected = classify(ck, sh, o, e, x)
            if cls is None:
                continue
            fresh, _err = make_client(sh)
            alone = None
            if fresh is not None:
                try:
                    set_options(fresh, o)
                    alone = observe(fresh, e)
                except Exception:
                    alone = None
            if alone == x:
                key = "C10:" + cls
                what = ("%s through client %d (options service=%r port=%r location=%r) of a history over WSDL "
                        "%s: %s; the WSDL and the documented rules give: %s"
                        % (show_expr(e), c, o[0], o[1], o[2], sh.label(), describe(x), expected))
            else:
                key = "C10:option-not-local-to-client"
                what = ("%s through client %d, on which the harness had set service=%r port=%r location=%r, in "
                        "a history of set_options/clone/call over clients sharing WSDL %s: %s; a fresh client "
                        "with these options: %s; the documented rules give: %s"
                        % (show_expr(e), c, o[0], o[1], o[2], sh.label(), describe(x),
                           describe(alone) if alone else "?", expected))
            break
        if key is None:
            key, what = "C10:history", "a history over WSDL %s does not meet the text" % sh.label()
        ck.failing_input(
            key, what,
            {"kind": "history", "shape": sh.to_json(), "events": [list(ev) for ev in evs],
             "calls": [{"client": c, "options": list(o), "expr": show_expr(e), "observed": describe(x)}
                       for (c, o, e, x) in calls], "wsdl": render(sh).decode("utf-8")})

    ck.extra["selections"] = run_.total
    ck.extra["wsdl_shapes"] = len(run_.shapes)
    ck.extra["histories"] = len(hist_meta)
    thorough = ck.tier == "thorough"
    ck.rule = (
        "WSDL shapes: 0..3 services x 0..3 ports, each port over binding A, binding B (operation tables in 3 "
        "modes: overlapping {f,g}/{g,h}, disjoint {f,g}/{h,k}, equal names with crossed styles and B declared "
        "with the SOAP 1.2 namespace) or a non-SOAP binding = 65641 shapes, %s; per shape %d selections "
        "(options and expressions drawn with a bias towards keys that exist, then perturbed). Core WSDLs (%d): "
        "ALL expressions of depth <= 2 over the step alphabet (6 attribute names; subscripts -4..3 and 11 "
        "names incl. service, port, operation and missing names%s) x %s of the 144 option settings (service "
        "in %r, port in %r, location set/unset), the same expressions on a WSDL without SOAP ports and one "
        "without services; depth 3 (attribute access only as last step): %s. Plus WSDLs "
        "with a port over an undeclared binding, and %d histories of set_options/clone/call over up to 4 "
        "clients sharing a WSDL. distinct = distinct (WSDL, options, expression) or history; non-trivial = a "
        "request was sent or one of the three *NotFound classes raised (histories: contains a clone)"
        % ("all of them" if thorough else "a seed-offset slice of 300",
           8 if thorough else 24,
           4 if thorough else 3,
           "",
           "all" if thorough else "8",
           SERVICE_OPTS, PORT_OPTS,
           "all 9025 x 4 option settings on 4 WSDLs" if thorough
           else "a sixth of the 9025 x 2 option settings on 3 WSDLs",
           len(hist_meta)))
    # exhaustive sub-scopes only (all shapes; all depth<=2 expressions x all option settings on the core
    # WSDLs); the full product of the quantifier is not enumerated
    ck.exhaustive = False

    if not proof_ok:
        ck.unproved("proof obligation of C10 no longer checks: %s" % ck.proof_log[-1500:],
                    {"theorems": THEOREMS, "log": ck.proof_log[-3000:]})
    disagree = run_.disagree
    hsb = set(hspec_bad)
    hdis = [i for i in hres["hist_agrees"] if i not in hsb]
    if disagree or hdis:
        ex = []
        for (sh, o, e, x) in disagree[:5]:
            ex.append({"kind": "selection", "shape": sh.to_json(), "options": list(o),
                       "expr": [list(s) for s in e], "expression": show_expr(e), "observed": describe(x)})
        for i in hdis[:3]:
            sh, evs, calls = hist_meta[i]
            ex.append({"kind": "history", "shape": sh.to_json(), "events": [list(ev) for ev in evs],
                       "observed": [describe(c[3]) for c in calls]})
        ck.unproved("model/implementation correspondence of C10 no longer holds on %d selections and %d "
                    "histories (what the implementation does there is still allowed by the text, but it is no "
                    "longer the algorithm the theorems are about)" % (len(disagree), len(hdis)),
                    {"correspondence": "sel_agrees/hist_agrees", "disagreements": ex})


def replay(ck, payload):
    common.force_repo_path()
    logging.getLogger("suds").addHandler(logging.NullHandler())
    print(payload.get("what"))
    src = payload if "shape" in payload else (payload.get("disagreements") or [None])[0]
    if not src:
        print("nothing to replay in this file")
        return 0
    sh = Shape.from_json(src["shape"])
    print("WSDL %s" % sh.label())
    if src.get("kind") == "history":
        evs = [tuple(tuple(x) if isinstance(x, list) and ev[0] == "call" and i == 2 else x
                     for i, x in enumerate(ev)) for ev in src["events"]]
        evs = [(ev[0], ev[1], tuple(tuple(s) for s in ev[2])) if ev[0] == "call" else tuple(ev) for ev in evs]
        calls = run_history(sh, evs)
        for ev in evs:
            print("  event %r" % (ev,))
        print("was: %s" % (src.get("calls") or src.get("observed")))
        print("now: %s" % (None if calls is None else
                           [(c, o, show_expr(e), describe(x)) for (c, o, e, x) in calls]))
        return 0
    o = tuple(src["options"])
    e = tuple(tuple(s) for s in src["expr"])
    client, err = make_client(sh)
    if client is None:
        now = ("loadfail", err)
    else:
        set_options(client, o)
        now = observe(client, e)
    print("options: service=%r port=%r location=%r" % o)
    print("expression: %s" % show_expr(e))
    if "expected" in src:
        print("expected: %s" % src["expected"])
    print("was: %s" % src.get("observed"))
    print("now: %s" % describe(now))
    return 0
