"""C20 -- Parsing never reaches outside the document.

Proof: coq/C20/Props.v over the model coq/C20/Entities.v (documents as ASTs with
internal/external general and parameter entities, external subsets, attribute
defaults; the reader as a function of document, feature flags and a logging
ORACLE for everything outside the document; suds' Handler; suds' entry points).

Tie to the code: the ASTs are rendered to bytes (file://, http://, relative and
dead system identifiers; marker resources planted under
/var/tmp/suds-verif-c20.<pid> and on a loopback HTTP server) and parsed through
every suds entry point (Parser.parse string/file, client reply / injected
message, DocumentReader with store, transport and DocumentCache, full Client
construction from WSDL + imported XSD, DocumentCache.get) under
sys.addaudithook.  For every parse the harness records: audit events outside
the allowed set, the feature flags of the xml.sax parser instance actually
used, the tree suds built.  Coq then evaluates, per case, the model (run with
the live flags and the planted world) against the tree and the accesses
(`c20_agrees`), the funnel (`c20_flags_agree`) and the property text on suds'
own outputs (`c20_spec_ok`: no access, no marker).
"""
import io
import os
import shutil
import sys
import threading
import urllib.parse

from . import common
from .common import cN, cbool, cstr, clist, copt, cnat

THEOREMS = [
    "no_external_io",
    "oracle_independent",
    "entry_points_flags_off",
    "suds_no_external_io",
    "no_external_content",
    "marker_never_in_tree",
    "fuel_monotone",
    "result_is_a_function_of_the_document",
    "content_fuel_suffices",
    "standalone_no_is_absent",
    "loader_fetches_only_named",
    "foreign_namespace_names_nothing",
    "reference_without_location_names_nothing",
    "references_resolve_against_container",
    "load_depends_on_named_documents_only",
    "lookalike_names_nothing_in_context",
    "feature_on_reaches_outside",
]

MARK = "~"

# ---------------------------------------------------------------------------
# interning
# ---------------------------------------------------------------------------

PREDEF = {"lt": 1, "gt": 2, "amp": 3, "quot": 4, "apos": 5}
UNKNOWN_NAME = 8999


class Names(object):
    def __init__(self):
        self.ids = dict(PREDEF)
        self.next = 10

    def id(self, s):
        i = self.ids.get(s)
        if i is None:
            i = self.ids[s] = self.next
            self.next += 1
        return i

    def known(self, s):
        return self.ids.get(s, UNKNOWN_NAME)


NAMES = Names()

# ---------------------------------------------------------------------------
# the outside world: system identifier slots
# ---------------------------------------------------------------------------
# slot -> (kind, planted resource or None).  The resource ASTs are also written
# into the Coq preamble as `planted`.

EV_NET = 9998       # socket / DNS event (not attributable to one identifier)
EV_OTHER = 9999     # open / request of something that is no system identifier


def T(s):
    return ("t", s)


def R(n):
    return ("r", n)


def O(n, attrs=()):
    return ("o", n, list(attrs))


def C(n):
    return ("c", n)


SLOT_DEFS = [
    # id, kind, location hint, resource
    (1, "file", "abs/c20-a.ent", ("text", [T("~fa~"), O("q"), T("~fq~"), C("q")])),
    (2, "file", "abs/c20-a.dtd", ("dtd", [("gi", "z", [T("~fz~")]), ("ad", "r", "planted", [("t", "~fatt~")])])),
    (3, "http", "c20-h.ent", ("text", [T("~ha~")])),
    (4, "http", "c20-h.dtd", ("dtd", [("gi", "z", [T("~hz~")]), ("gi", "w", [T("~hw~"), R("z")])])),
    (5, "rel", "c20-r.ent", ("text", [T("~ra~"), O("q"), C("q")])),
    (6, "rel", "c20-r.dtd", ("dtd", [("gi", "z", [T("~rz~")])])),
    (7, "file", "abs/c20-missing.ent", None),
    (8, "httpdead", "c20-dead.ent", None),
    (9, "rel", "c20-missing.dtd", None),
    (10, "ftp", "c20-f.ent", None),
    (11, "httpsdead", "c20-s.dtd", None),
    (12, "file", "abs/c20-n.dtd", ("dtd", [("pe", "pp", 6), ("pr", "pp"), ("gi", "w", [T("~fw~"), R("z")]),
                                           ("ge", "xx", 1)])),
    (13, "rel", "../c20-up.ent", ("text", [T("~ua~")])),
]
SLOT_IDS = [s[0] for s in SLOT_DEFS]
TEXT_SLOTS = [1, 3, 5, 13]
DTD_SLOTS = [2, 4, 6, 12]
DEAD_SLOTS = [7, 8, 9, 10, 11]


REAL_NAMES = ["doc-%d.xml" % i for i in range(8)] + ["main.wsdl", "imp.xsd", "second.wsdl", "inc.xsd", "decoy.xsd"]


def decoy_for(name):
    """What sits at the real location of a document suds is handed in memory: never to be read."""
    if name.endswith(".wsdl"):
        return (b'<wsdl:definitions xmlns:wsdl="http://schemas.xmlsoap.org/wsdl/" targetNamespace="urn:c20:decoy">'
                b'<wsdl:documentation>~decoy~</wsdl:documentation></wsdl:definitions>')
    if name.endswith(".xsd"):
        return (b'<xsd:schema xmlns:xsd="http://www.w3.org/2001/XMLSchema" targetNamespace="urn:c20:decoy">'
                b'<xsd:element name="decoy~leak~" type="xsd:string"/></xsd:schema>')
    return b"<r>~decoy~</r>"


def url_prefix(kind):
    """Where a named document claims to live."""
    if kind == "suds":
        return "suds://c20/"
    if kind == "invalid":
        return "http://c20.invalid/"
    if kind == "file":
        return "file://" + WORLD.real + "/"
    return "http://127.0.0.1:%d/real/" % WORLD.port


URL_KINDS = ["suds", "invalid", "file", "loop"]
CTYPES = ["bytes", "bytearray", "memoryview", "str"]


def as_type(data, ctype):
    """The same content as another kind of buffer (None: not expressible)."""
    if ctype == "bytes":
        return data
    if ctype == "bytearray":
        return bytearray(data)
    if ctype == "memoryview":
        return memoryview(data)
    if data.startswith(b"\xef\xbb\xbf"):
        return data                 # a BOM is a matter of bytes: keep the bytes
    return data.decode("ascii")


class World(object):
    """Marker files, loopback HTTP server, and the mapping between system
    identifier strings / file paths / URLs and slot numbers."""

    def __init__(self):
        self.base = "/var/tmp/suds-verif-c20.%d" % os.getpid()
        self.cwd = os.path.join(self.base, "cwd")
        self.cache = os.path.join(self.base, "cache")
        self.sysid = {}         # slot -> string written in documents
        self.by_path = {}       # absolute path -> slot
        self.by_url = {}        # url -> slot
        self.http_content = {}  # url path -> bytes
        self.hits = []          # requests the loopback server received
        self.server = None
        self.port = 9

    def start(self):
        shutil.rmtree(self.base, ignore_errors=True)
        self.real = os.path.join(self.base, "real")
        for d in (self.base, self.cwd, self.cache, os.path.join(self.base, "abs"), self.real):
            os.makedirs(d)
        self._start_server()
        # "real" locations: documents that suds is given through a store / transport under a file:// or
        # http://loopback URL exist at that very location too, with DIFFERENT (marker) content
        for name in REAL_NAMES:
            with open(os.path.join(self.real, name), "wb") as f:
                f.write(decoy_for(name))
        for sid, kind, hint, res in SLOT_DEFS:
            data = render_resource(res) if res else None
            if kind == "file":
                path = os.path.join(self.base, hint)
                s = "file://" + path
                self.by_path[path] = sid
            elif kind == "rel":
                path = os.path.normpath(os.path.join(self.cwd, hint))
                s = hint
                self.by_path[path] = sid
            elif kind == "http":
                path = None
                s = "http://127.0.0.1:%d/%s" % (self.port, hint)
                self.http_content["/" + hint] = data
            elif kind == "httpdead":
                path, s = None, "http://127.0.0.1:9/" + hint
            elif kind == "httpsdead":
                path, s = None, "https://127.0.0.1:9/" + hint
            else:
                path, s = None, "ftp://127.0.0.1:9/" + hint
            self.sysid[sid] = s
            self.by_url[s] = sid
            if path is not None:
                self.by_url["file://" + path] = sid
                if data is not None:
                    with open(path, "wb") as f:
                        f.write(data)

    def _start_server(self):
        import http.server
        world = self

        class H(http.server.BaseHTTPRequestHandler):
            def do_GET(self):
                world.hits.append(self.path)
                body = world.http_content.get(self.path)
                if body is None and self.path.startswith("/real/"):
                    body = decoy_for(self.path)
                if body is None:
                    self.send_response(404)
                    self.end_headers()
                    return
                self.send_response(200)
                self.send_header("Content-Type", "application/xml")
                self.send_header("Content-Length", str(len(body)))
                self.end_headers()
                self.wfile.write(body)

            def log_message(self, *a):
                pass
        try:
            self.server = http.server.HTTPServer(("127.0.0.1", 0), H)
            self.port = self.server.server_address[1]
            t = threading.Thread(target=self.server.serve_forever, kwargs={"poll_interval": 0.05})
            t.daemon = True
            t.start()
        except OSError:
            self.server = None
            self.port = 9

    def stop(self):
        if self.server is not None:
            try:
                self.server.shutdown()
                self.server.server_close()
            except Exception:   # noqa
                pass
        shutil.rmtree(self.base, ignore_errors=True)

    # ---- audit event -> slot
    def slot_of_path(self, path):
        try:
            p = os.path.normpath(os.path.join(os.getcwd(), os.fsdecode(path)))
        except Exception:   # noqa
            return EV_OTHER
        return self.by_path.get(p, EV_OTHER)

    def slot_of_url(self, url):
        if not isinstance(url, str):
            return EV_OTHER
        if url in self.by_url:
            return self.by_url[url]
        try:
            u = urllib.parse.urlsplit(url)
            if u.scheme == "file":
                return self.by_path.get(os.path.normpath(urllib.parse.unquote(u.path)), EV_OTHER)
        except Exception:   # noqa
            pass
        return EV_OTHER


# ---------------------------------------------------------------------------
# rendering ASTs to XML text
# ---------------------------------------------------------------------------

_FORBIDDEN_TEXT = set("<&\"'%\r\n\t")


def _chk(s):
    assert not (set(s) & _FORBIDDEN_TEXT), s
    return s


def r_atoks(v):
    return "".join(_chk(a[1]) if a[0] == "t" else "&%s;" % a[1] for a in v)


def r_toks(toks):
    out = []
    i = 0
    n = len(toks)
    while i < n:
        t = toks[i]
        k = t[0]
        if k == "t":
            out.append(_chk(t[1]))
        elif k == "r":
            out.append("&%s;" % t[1])
        elif k == "o":
            a = "".join(' %s="%s"' % (an, r_atoks(av)) for an, av in t[2])
            if i + 1 < n and toks[i + 1] == ("c", t[1]) and (len(t[1]) + i) % 2 == 0:
                out.append("<%s%s/>" % (t[1], a))
                i += 1
            else:
                out.append("<%s%s>" % (t[1], a))
        else:
            out.append("</%s>" % t[1])
        i += 1
    return "".join(out)


def literal(replacement):
    """An entity value literal whose replacement text is `replacement`."""
    return '"' + replacement.replace("&", "&#38;").replace("%", "&#37;").replace('"', "&#34;") + '"'


def r_decls(decls, sysid_of):
    out = []
    for d in decls:
        k = d[0]
        if k == "gi":
            out.append("<!ENTITY %s %s>" % (d[1], literal(r_toks(d[2]))))
        elif k == "ge":
            if (len(d[1]) + d[2]) % 3 == 0:
                out.append('<!ENTITY %s PUBLIC "-//SV//C20 %s//EN" "%s">' % (d[1], d[1], sysid_of(d[2])))
            else:
                out.append('<!ENTITY %s SYSTEM "%s">' % (d[1], sysid_of(d[2])))
        elif k == "gn":
            out.append('<!ENTITY %s SYSTEM "%s" NDATA nt>' % (d[1], sysid_of(d[2])))
        elif k == "pi":
            out.append("<!ENTITY %% %s %s>" % (d[1], literal(r_decls(d[2], sysid_of))))
        elif k == "pe":
            out.append('<!ENTITY %% %s SYSTEM "%s">' % (d[1], sysid_of(d[2])))
        elif k == "pr":
            out.append("%%%s;" % d[1])
        elif k == "ad":
            out.append('<!ATTLIST %s %s CDATA "%s">' % (d[1], d[2], r_atoks(d[3])))
        else:
            raise AssertionError(d)
    return " ".join(out)


DEFAULT_STYLE = {"xmldecl": "none", "quote": '"', "encoding": "UTF-8", "bom": False, "sep": "",
                 "comment": False, "pi": False, "trailing": "", "pad": False}
ENCODINGS = ["UTF-8", "utf-8", "ISO-8859-1", "US-ASCII", "us-ascii"]


def style_for(n):
    """A deterministic rendering style (model-irrelevant surface of the document) from an index."""
    enc = ENCODINGS[n % len(ENCODINGS)]
    return {"xmldecl": ("none", "version", "encoding")[(n // 2) % 3], "quote": "\"'"[(n // 3) % 2],
            "encoding": enc, "bom": (n % 7 == 3) and enc.lower() == "utf-8", "sep": ("", "\n", "\n  ")[(n // 5) % 3],
            "comment": n % 4 == 1, "pi": n % 6 == 2, "trailing": ("", "\n")[(n // 11) % 2],
            "pad": n % 89 == 7}         # a document larger than the SAX reader's 64 KiB buffer


def g_style(rng):
    return style_for(rng.randrange(0, 100000))


def render_doc(doc, sysid_of):
    st = doc.get("style") or DEFAULT_STYLE
    q = st["quote"]
    sep = st["sep"]
    out = []
    sdecl = doc["sdecl"]
    kind = st["xmldecl"]
    if sdecl is not None and kind == "none":
        kind = "version"                    # standalone needs an XML declaration
    if kind != "none":
        d = "<?xml version=%s1.0%s" % (q, q)
        if kind == "encoding":
            d += " encoding=%s%s%s" % (q, st["encoding"], q)
        if sdecl is not None:
            d += " standalone=%s%s%s" % (q, sdecl, q)
        out.append(d + "?>" + sep)
    if st["comment"]:
        out.append("<!-- c20 -->" + sep)
    if st.get("pad"):
        out.append("<!-- " + "padding " * 9000 + "-->" + sep)
    if st["pi"]:
        out.append("<?c20 prolog?>" + sep)
    root = doc["body"][0][1]
    if doc["ext"] is not None or doc["subset"] or doc.get("bare_doctype"):
        s = "<!DOCTYPE " + root
        if doc["ext"] is not None:
            if doc.get("public"):
                s += ' PUBLIC "-//SV//DTD C20//EN" "%s"' % sysid_of(doc["ext"])
            else:
                s += ' SYSTEM "%s"' % sysid_of(doc["ext"])
        if doc["subset"]:
            s += " [" + sep + r_decls(doc["subset"], sysid_of) + sep + "]"
        s += ">"
        out.append(s + sep)
        if st["comment"]:
            out.append("<!-- after doctype -->" + sep)
    out.append(r_toks(doc["body"]))
    out.append(st["trailing"])
    data = "".join(out).encode("ascii")
    if st["bom"] and (kind != "encoding" or st["encoding"].lower() == "utf-8"):
        data = b"\xef\xbb\xbf" + data
    return data


def render_resource(res):
    kind, v = res
    # inside a planted resource, system identifiers are written relative / absolute
    # by slot through the global WORLD (set before rendering)
    if kind == "text":
        return r_toks(v).encode("utf-8")
    return r_decls(v, lambda s: WORLD.sysid.get(s, "c20-unset")).encode("utf-8")


WORLD = None

# ---------------------------------------------------------------------------
# ASTs as Coq terms
# ---------------------------------------------------------------------------


def q_atoks(v):
    return clist(["(AText %s)" % cstr(a[1]) if a[0] == "t" else "(ARef %s)" % cN(NAMES.id(a[1])) for a in v],
                 "atok")


def q_toks(toks):
    out = []
    for t in toks:
        k = t[0]
        if k == "t":
            out.append("(TText %s)" % cstr(t[1]))
        elif k == "r":
            out.append("(TRef %s)" % cN(NAMES.id(t[1])))
        elif k == "o":
            out.append("(TOpen %s %s)" % (cN(NAMES.id(t[1])),
                                          clist(["(%s, %s)" % (cN(NAMES.id(an)), q_atoks(av)) for an, av in t[2]],
                                                "name * list atok")))
        else:
            out.append("(TClose %s)" % cN(NAMES.id(t[1])))
    return clist(out, "tok")


def q_decls(decls):
    out = []
    for d in decls:
        k = d[0]
        if k == "gi":
            out.append("(DGenInt %s %s)" % (cN(NAMES.id(d[1])), q_toks(d[2])))
        elif k == "ge":
            out.append("(DGenExt %s %s)" % (cN(NAMES.id(d[1])), cN(d[2])))
        elif k == "gn":
            out.append("(DGenNdata %s %s)" % (cN(NAMES.id(d[1])), cN(d[2])))
        elif k == "pi":
            out.append("(DParInt %s %s)" % (cN(NAMES.id(d[1])), q_decls(d[2])))
        elif k == "pe":
            out.append("(DParExt %s %s)" % (cN(NAMES.id(d[1])), cN(d[2])))
        elif k == "pr":
            out.append("(DParRef %s)" % cN(NAMES.id(d[1])))
        else:
            out.append("(DAttDef %s %s %s)" % (cN(NAMES.id(d[1])), cN(NAMES.id(d[2])), q_atoks(d[3])))
    return clist(out, "decl")


def q_doc(doc):
    return "(mkDoc %s %s %s %s)" % ({None: "SAbsent", "yes": "SYes", "no": "SNo"}[doc["sdecl"]],
                                    copt(cN(doc["ext"]) if doc["ext"] is not None else None, "sysid"),
                                    q_decls(doc["subset"]), q_toks(doc["body"]))


def q_planted():
    items = []
    for sid, kind, hint, res in SLOT_DEFS:
        if res is None:
            continue
        if res[0] == "text":
            items.append("(%s, RText %s)" % (cN(sid), q_toks(res[1])))
        else:
            items.append("(%s, RDtd %s)" % (cN(sid), q_decls(res[1])))
    return "Definition planted : list (sysid * resource) := %s." % clist(items)


ENTRY_CTOR = {
    "parse-string": "EParseString", "parse-file": "EParseFile", "client-reply": "EClientReply",
    "client-msg": "EClientMsg", "reader-store": "EReaderFetch", "reader-transport": "EReaderFetch",
    "reader-cache": "EReaderFetch", "reader-plugin": "EReaderFetch", "client-load": "EReaderFetch",
    "doccache-get": "EDocCacheGet",
}

# ---------------------------------------------------------------------------
# instrumentation
# ---------------------------------------------------------------------------


class Rec(object):
    enabled = False
    events = []      # (event name, argument summary, slot)
    parsers = []     # (ges, pes, default_resolver, class name)
    raw_parsers = 0
    made = 0
    total_made = 0
    total_parses = 0
    main = None
    installed = False
    allowed_dirs = ()


_PY_SUFFIX = (".py", ".pyc", ".so", ".pyd", ".pth", ".pyi")


def _audit(event, args):
    if not Rec.enabled or threading.get_ident() != Rec.main:
        return
    try:
        if event == "open":
            path = args[0]
            if isinstance(path, int):
                return
            p = os.fsdecode(path)
            if p.endswith(_PY_SUFFIX) or "__pycache__" in p:
                return            # the import system
            ap = os.path.normpath(os.path.join(os.getcwd(), p))
            for d in Rec.allowed_dirs:
                if ap.startswith(d + os.sep):
                    return        # a document named by the caller (cache entry)
            Rec.events.append(("open", ap, WORLD.slot_of_path(p)))
        elif event == "urllib.Request":
            Rec.events.append((event, str(args[0]), WORLD.slot_of_url(args[0])))
        elif event in ("socket.connect", "socket.getaddrinfo", "socket.gethostbyname",
                       "http.client.connect", "ftplib.connect", "socket.gethostbyaddr",
                       "socket.sendto", "smtplib.connect"):
            Rec.events.append((event, repr(args[1:3] if event == "socket.connect" else args[:2]), EV_NET))
        elif event in ("subprocess.Popen", "os.system", "os.exec", "os.posix_spawn"):
            Rec.events.append((event, repr(args[:1]), EV_OTHER))
    except Exception:   # noqa  -- an audit hook must never raise
        pass


def install_instrumentation():
    if Rec.installed:
        return
    Rec.installed = True
    Rec.main = threading.get_ident()
    sys.addaudithook(_audit)
    import xml.sax.expatreader as er
    from xml.sax.handler import feature_external_ges, feature_external_pes
    from xml.sax import handler as sax_handler

    orig_parse = er.ExpatParser.parse

    def parse(self, source):
        if Rec.enabled:
            try:
                res = self.getEntityResolver()
                default_res = type(res).resolveEntity is sax_handler.EntityResolver.resolveEntity
                Rec.parsers.append((bool(self.getFeature(feature_external_ges)),
                                    bool(self.getFeature(feature_external_pes)),
                                    default_res, type(self).__name__))
            except Exception as e:   # noqa
                Rec.parsers.append((None, None, None, "unreadable: %r" % (e,)))
        return orig_parse(self, source)
    er.ExpatParser.parse = parse

    import xml.sax
    orig_make = xml.sax.make_parser

    def make_parser(*a, **k):
        p = orig_make(*a, **k)
        if Rec.enabled:
            Rec.made += 1
        return p
    xml.sax.make_parser = make_parser
    try:
        import suds.sax.parser as sp
        if getattr(sp, "make_parser", None) is orig_make:
            sp.make_parser = make_parser      # the name suds bound at import time
    except Exception:   # noqa
        pass

    from xml.parsers import expat
    orig_create = expat.ParserCreate

    def ParserCreate(*a, **k):
        if Rec.enabled:
            Rec.raw_parsers += 1
        return orig_create(*a, **k)
    expat.ParserCreate = ParserCreate


class audited(object):
    """Context: chdir into the marker directory, record events and parsers."""

    def __init__(self, allowed_dirs=()):
        self.allowed = tuple(allowed_dirs)

    def __enter__(self):
        self.old = os.getcwd()
        os.chdir(WORLD.cwd)
        Rec.events = []
        Rec.parsers = []
        Rec.raw_parsers = 0
        Rec.made = 0
        Rec.allowed_dirs = self.allowed
        WORLD.hits[:] = []
        Rec.enabled = True
        return self

    def __exit__(self, *exc):
        Rec.enabled = False
        os.chdir(self.old)
        self.events = list(Rec.events)
        self.parsers = list(Rec.parsers)
        self.raw = Rec.raw_parsers
        self.made = Rec.made
        Rec.total_made += Rec.made
        Rec.total_parses += len(Rec.parsers)
        self.hits = list(WORLD.hits)
        return False


# ---------------------------------------------------------------------------
# suds trees -> flat canonical form
# ---------------------------------------------------------------------------


def flat_tree(root):
    out = []
    if not hasattr(root, "attributes") and hasattr(root, "root"):
        root = root.root()          # a Document

    def walk(e, depth):
        attrs = []
        for a in e.attributes:
            attrs.append((a.qname(), "" if a.value is None else str(a.value)))
        for p, u in e.nsprefixes.items():
            attrs.append(("xmlns:" + p, str(u)))
        if e.expns:
            attrs.append(("xmlns", str(e.expns)))
        out.append((depth, e.qname(), attrs, "" if e.text is None else str(e.text)))
        for c in e.children:
            walk(c, depth + 1)
    walk(root, 0)
    return out


def q_flat(flat):
    items = []
    for depth, nm, attrs, text in flat:
        items.append("(%s, %s, %s, %s)" % (cnat(depth), cN(NAMES.known(nm)),
                                           clist(["(%s, %s)" % (cN(NAMES.known(a)), cstr(v)) for a, v in attrs],
                                                 "name * str"), cstr(text)))
    return "(IDoc %s)" % clist(items, "fnode")


def flat_text(flat):
    return "".join(nm + "".join(a + v for a, v in attrs) + text for _, nm, attrs, text in flat)


# ---------------------------------------------------------------------------
# generators
# ---------------------------------------------------------------------------

ENT = ["e0", "e1", "e2", "e3"]
PENT = ["p0", "p1", "p2"]
ELS = ["r", "b", "q", "xi:include"]
ALPHA = "abcdefghijklmnopqrstuvwxyz0123456789"


def g_word(rng, lo=0, hi=4):
    return "".join(rng.choice(ALPHA) for _ in range(rng.randrange(lo, hi + 1)))


def g_text(rng):
    w = g_word(rng, 0, 4)
    r = rng.random()
    if r < 0.15:
        return " " + w
    if r < 0.3:
        return w + " "
    if r < 0.35:
        return " "
    return w


def g_ref_name(rng, pool):
    r = rng.random()
    if r < 0.12:
        return rng.choice(list(PREDEF))
    if r < 0.22:
        return rng.choice(["u0", "z", "w", "xx"])       # undeclared here / declared only outside
    return rng.choice(pool)


def g_atoks(rng, pool, p_ref=0.4):
    v = []
    for _ in range(rng.randrange(0, 3)):
        if rng.random() < p_ref:
            v.append(("r", g_ref_name(rng, pool)))
        else:
            v.append(("t", g_word(rng, 0, 3)))
    return v


def g_attrs(rng, pool, p_ref=0.3):
    attrs = []
    names = rng.sample(["k", "j", "href", "xsi:schemaLocation", "planted"], rng.choice([0, 0, 1, 1, 2]))
    for a in names:
        if a in ("href", "xsi:schemaLocation") and rng.random() < 0.7:
            s = WORLD.sysid[rng.choice(SLOT_IDS)]
            attrs.append((a, [("t", s if a == "href" else "urn:x " + s)]))
        else:
            attrs.append((a, g_atoks(rng, pool, p_ref)))
    return attrs


def g_content(rng, pool, depth, p_ref=0.35, unbalanced=0.0):
    toks = []
    for _ in range(rng.randrange(0, 4)):
        r = rng.random()
        if r < p_ref:
            toks.append(("r", g_ref_name(rng, pool)))
        elif r < p_ref + 0.3 or depth <= 0:
            toks.append(("t", g_text(rng)))
        else:
            nm = rng.choice(ELS)
            toks.append(("o", nm, g_attrs(rng, pool)))
            toks.extend(g_content(rng, pool, depth - 1, p_ref))
            toks.append(("c", nm))
    if unbalanced and rng.random() < unbalanced:
        toks.append(rng.choice([("o", "b", []), ("c", "b"), ("c", "r")]))
    return toks


def g_decls(rng, depth=2, n=None, in_pe=False):
    ds = []
    for _ in range(rng.randrange(0, 6) if n is None else n):
        r = rng.random()
        if r < 0.24:
            ds.append(("gi", rng.choice(ENT), g_content(rng, ENT, 1, 0.4, unbalanced=0.04)))
        elif r < 0.46:
            ds.append(("ge", rng.choice(ENT), rng.choice(SLOT_IDS)))
        elif r < 0.50:
            ds.append(("gn", rng.choice(ENT), rng.choice(SLOT_IDS)))
        elif r < 0.62:
            if depth > 0:
                ds.append(("pi", rng.choice(PENT), g_decls(rng, depth - 1, rng.randrange(0, 4), True)))
            else:
                ds.append(("pi", rng.choice(PENT), []))
        elif r < 0.76:
            ds.append(("pe", rng.choice(PENT), rng.choice(SLOT_IDS)))
        elif r < 0.90:
            ds.append(("pr", rng.choice(PENT + ["pu"])))
        else:
            ds.append(("ad", rng.choice(["r", "b", "q"]), rng.choice(["k", "j", "d"]), g_atoks(rng, ENT, 0.5)))
    return ds


def g_doc(rng):
    subset = g_decls(rng) if rng.random() < 0.9 else []
    ext = rng.choice(SLOT_IDS) if rng.random() < 0.35 else None
    body = [("o", "r", g_attrs(rng, ENT, 0.4))] + g_content(rng, ENT, 2, 0.45) + [("c", "r")]
    r = rng.random()
    return {"sdecl": None if r < 0.45 else ("no" if r < 0.85 else "yes"), "ext": ext, "subset": subset, "body": body,
            "public": rng.random() < 0.3, "style": g_style(rng), "bare_doctype": rng.random() < 0.2}


def mk_doc(subset, body, ext=None, standalone=None, public=False, style=None):
    """standalone: None / False = no pseudo-attribute, True / "yes", "no"."""
    sdecl = {None: None, False: None, True: "yes", "yes": "yes", "no": "no"}[standalone]
    return {"sdecl": sdecl, "ext": ext, "subset": subset, "body": body, "public": public,
            "style": style, "bare_doctype": False}


def variant(doc, n):
    """The same document with another (model-irrelevant) surface: rendering style n, and
    standalone="no" instead of an absent pseudo-attribute for odd n."""
    d = dict(doc)
    d["style"] = style_for(n)
    if d["sdecl"] is None and n % 2:
        d["sdecl"] = "no"
    return d


def g_restyle(rng, doc):
    d = dict(doc)
    d["style"] = g_style(rng)
    if d["sdecl"] is None:
        r = rng.random()
        d["sdecl"] = None if r < 0.4 else ("no" if r < 0.9 else "yes")
    return d


def grid_docs():
    """Every construct of the quantifier x every kind of system identifier."""
    docs = []
    for s in SLOT_IDS:
        rt = [O("r"), T("a"), R("e0"), T("b"), C("r")]
        docs.append(("ge-text", mk_doc([("ge", "e0", s)], rt)))
        docs.append(("ge-attr", mk_doc([("ge", "e0", s)], [O("r", [("k", [("t", "a"), ("r", "e0")])]), T("b"), C("r")])))
        docs.append(("ge-nested-text", mk_doc([("ge", "e0", s), ("gi", "e1", [T("x"), R("e0"), T("y")]),
                                               ("gi", "e2", [O("b"), R("e1"), C("b")])],
                                              [O("r"), R("e2"), R("e1"), C("r")])))
        docs.append(("ge-nested-attr", mk_doc([("ge", "e0", s), ("gi", "e1", [T("x"), R("e0")])],
                                              [O("r", [("k", [("r", "e1")])]), C("r")])))
        docs.append(("ge-unused", mk_doc([("ge", "e0", s), ("gi", "e1", [T("x")])], [O("r"), R("e1"), C("r")])))
        docs.append(("ge-in-entity-element-attr",
                     mk_doc([("ge", "e0", s), ("gi", "e1", [O("b", [("k", [("r", "e0")])]), C("b")])],
                            [O("r"), R("e1"), C("r")])))
        docs.append(("pe-ref", mk_doc([("pe", "p0", s), ("pr", "p0"), ("gi", "e0", [T("late")])],
                                      [O("r"), R("e0"), R("z"), C("r")])))
        docs.append(("pe-ref-after-decl", mk_doc([("gi", "e0", [T("early")]), ("pe", "p0", s), ("pr", "p0")],
                                                 [O("r", [("k", [("r", "e0"), ("r", "z")])]), R("e0"), R("z"), C("r")])))
        docs.append(("pe-nested", mk_doc([("pi", "p1", [("pe", "p0", s), ("pr", "p0")]), ("pr", "p1")],
                                         [O("r"), R("z"), C("r")])))
        docs.append(("pe-declares-ge", mk_doc([("pi", "p1", [("ge", "e0", s), ("gi", "e1", [T("v"), R("e0")])]),
                                               ("pr", "p1")], [O("r"), R("e1"), C("r")])))
        docs.append(("pe-unused", mk_doc([("pe", "p0", s), ("gi", "e0", [T("v")])], [O("r"), R("e0"), C("r")])))
        docs.append(("ext-subset", mk_doc([], [O("r"), T("a"), R("z"), C("r")], ext=s)))
        docs.append(("ext-subset-public", mk_doc([("gi", "e0", [T("v")])],
                                                 [O("r", [("k", [("r", "z")])]), R("e0"), R("w"), C("r")],
                                                 ext=s, public=True)))
        docs.append(("ext-subset-standalone", mk_doc([("gi", "e0", [T("v")])], [O("r"), R("e0"), C("r")],
                                                     ext=s, standalone=True)))
        docs.append(("attlist-default", mk_doc([("ge", "e0", s), ("gi", "e1", [T("d")]),
                                                ("ad", "r", "k", [("r", "e1")]), ("ad", "b", "j", [("t", "x")])],
                                               [O("r"), O("b"), C("b"), R("e0"), C("r")])))
        docs.append(("attlist-default-ext", mk_doc([("ge", "e0", s), ("ad", "r", "k", [("r", "e0")])],
                                                   [O("r"), C("r")])))
        docs.append(("ndata", mk_doc([("gn", "e0", s)], [O("r"), T("a"), C("r")])))
        docs.append(("ndata-ref", mk_doc([("gn", "e0", s)], [O("r"), R("e0"), C("r")])))
        sid = WORLD.sysid[s]
        docs.append(("xinclude", mk_doc([], [O("r", [("xmlns:xi", [("t", "http://www.w3.org/2001/XInclude")])]),
                                             O("xi:include", [("href", [("t", sid)]), ("parse", [("t", "text")])]),
                                             C("xi:include"), T("t"), C("r")])))
        docs.append(("schemalocation",
                     mk_doc([], [O("r", [("xmlns:xsi", [("t", "http://www.w3.org/2001/XMLSchema-instance")]),
                                         ("xsi:schemaLocation", [("t", "urn:x " + sid)]),
                                         ("xsi:noNamespaceSchemaLocation", [("t", sid)])]), T("t"), C("r")])))
    # without any external identifier: the reader's ordinary rules
    docs.append(("plain", mk_doc([], [O("r"), T("a"), R("lt"), R("amp"), C("r")])))
    docs.append(("undefined", mk_doc([("gi", "e0", [T("v")])], [O("r"), R("u0"), C("r")])))
    docs.append(("recursive", mk_doc([("gi", "e0", [R("e1")]), ("gi", "e1", [R("e0")])], [O("r"), R("e0"), C("r")])))
    docs.append(("recursive-pe", mk_doc([("pi", "p0", [("pr", "p1")]), ("pi", "p1", [("pr", "p0")]), ("pr", "p0")],
                                        [O("r"), C("r")])))
    docs.append(("async", mk_doc([("gi", "e0", [O("b")]), ("gi", "e1", [C("b")])], [O("r"), R("e0"), R("e1"), C("r")])))
    docs.append(("redeclare", mk_doc([("gi", "e0", [T("one")]), ("gi", "e0", [T("two")]), ("gi", "lt", [T("x")])],
                                     [O("r"), R("e0"), R("lt"), C("r")])))
    docs.append(("trim", mk_doc([("gi", "e0", [T(" ")])], [O("r"), R("e0"), T("x "), O("b"), T(" y "), C("b"),
                                                           R("e0"), C("r")])))
    docs.append(("undefined-pe", mk_doc([("gi", "e0", [T("v")]), ("pr", "pu"), ("gi", "e1", [T("w")])],
                                        [O("r"), R("e0"), R("e1"), C("r")])))
    docs.append(("standalone-pe", mk_doc([("pi", "p0", [("gi", "e0", [T("v")])]), ("pr", "p0"), ("gi", "e1", [T("w")])],
                                         [O("r"), R("e1"), C("r")], standalone=True)))
    return docs


def exhaustive_docs():
    """Thorough tier: every ordered pair of declaration shapes x external subset x standalone x body."""
    shapes = [("gi", "e0", [T("v")]), ("gi", "e0", [T("x"), R("e1")]), ("gi", "e1", [O("b"), R("e0"), C("b")]),
              ("pi", "p0", [("gi", "e1", [T("w")])]), ("pr", "p0"), ("pr", "pu"),
              ("ad", "r", "k", [("r", "e0")]), ("ad", "r", "k", [("t", "d")])]
    for s in (1, 4, 9):
        shapes += [("ge", "e0", s), ("ge", "e1", s), ("gn", "e0", s), ("pi", "p0", [("ge", "e0", s)]),
                   ("pe", "p0", s)]
    bodies = [[O("r"), T("a"), R("e0"), T("b"), C("r")],
              [O("r", [("k", [("r", "e0")])]), C("r")],
              [O("r"), R("e1"), O("b", [("j", [("t", "x"), ("r", "e1")])]), C("b"), C("r")],
              [O("r"), R("e0"), R("z"), C("r")]]
    for d1 in shapes:
        for d2 in shapes:
            for ext in (None, 2, 9):
                for sa in (None, "no", "yes"):
                    for b in bodies:
                        yield mk_doc([d1, d2], b, ext=ext, standalone=sa)


def doc_features(doc):
    """Buckets for the distribution and the non-triviality of a document."""
    f = set()

    def decls(ds, inpe):
        for d in ds:
            k = d[0]
            if k == "ge":
                f.add("ext-ge")
            elif k == "pe":
                f.add("ext-pe")
            elif k == "pi":
                f.add("int-pe")
                decls(d[2], True)
            elif k == "gi":
                f.add("int-ge")
                if any(t[0] == "r" for t in d[2]):
                    f.add("nested-ref")
            elif k == "pr":
                f.add("pe-ref")
            elif k == "ad":
                f.add("attlist")
            elif k == "gn":
                f.add("ndata")
    decls(doc["subset"], False)
    if doc["ext"] is not None:
        f.add("ext-subset")
    if doc["sdecl"] is not None:
        f.add("standalone-" + doc["sdecl"])
    for t in doc["body"]:
        if t[0] == "r":
            f.add("ref-in-text")
        if t[0] == "o":
            for an, av in t[2]:
                if any(a[0] == "r" for a in av):
                    f.add("ref-in-attr")
                if an in ("href", "xsi:schemaLocation", "xsi:noNamespaceSchemaLocation"):
                    f.add("xinclude-like")
    return f


# ---- WSDL / XSD / SOAP shaped documents ------------------------------------

WSDL_NS = "http://schemas.xmlsoap.org/wsdl/"
SOAP_NS = "http://schemas.xmlsoap.org/wsdl/soap/"
XSD_NS = "http://www.w3.org/2001/XMLSchema"
ENV_NS = "http://schemas.xmlsoap.org/soap/envelope/"
TNS = "urn:c20:tns"
IMP_NS = "urn:c20:imp"


def E(name, attrs, *kids):
    """Element as tokens; attrs: list of (name, str | atoks); kids: str | tok | list of toks."""
    toks = [("o", name, [(a, [("t", v)] if isinstance(v, str) else list(v)) for a, v in attrs])]
    for k in kids:
        if isinstance(k, str):
            toks.append(("t", k))
        elif isinstance(k, tuple):
            toks.append(k)
        else:
            toks.extend(k)
    toks.append(("c", name))
    return toks


def wsdl_body(doc_toks, loc_atoks, tns_atoks, imp_url, extra_import=None, inc_url=None,
              schema_extra=(), defs_extra=()):
    types_kids = []
    schema_kids = list(schema_extra)
    if imp_url:
        schema_kids.append(E("xsd:import", [("namespace", IMP_NS), ("schemaLocation", imp_url)]))
    if inc_url:
        schema_kids.append(E("xsd:include", [("schemaLocation", inc_url)]))
    schema_kids.append(E("xsd:element", [("name", "f")],
                         E("xsd:complexType", [], E("xsd:sequence", [],
                           E("xsd:element", [("name", "a"), ("type", "xsd:string")])))))
    schema_kids.append(E("xsd:element", [("name", "fResponse")],
                         E("xsd:complexType", [], E("xsd:sequence", [],
                           E("xsd:element", [("name", "result"), ("type", "xsd:string")])))))
    types_kids.append(E("xsd:schema", [("targetNamespace", tns_atoks), ("elementFormDefault", "qualified")],
                        *schema_kids))
    kids = [E("wsdl:documentation", [], doc_toks)] + list(defs_extra)
    if extra_import:
        kids.append(E("wsdl:import", [("namespace", "urn:c20:w2"), ("location", extra_import)]))
    kids += [
        E("wsdl:types", [], *types_kids),
        E("wsdl:message", [("name", "fIn")], E("wsdl:part", [("name", "parameters"), ("element", "tns:f")])),
        E("wsdl:message", [("name", "fOut")], E("wsdl:part", [("name", "parameters"), ("element", "tns:fResponse")])),
        E("wsdl:portType", [("name", "pt")],
          E("wsdl:operation", [("name", "f")], E("wsdl:input", [("message", "tns:fIn")]),
            E("wsdl:output", [("message", "tns:fOut")]))),
        E("wsdl:binding", [("name", "bd"), ("type", "tns:pt")],
          E("soap:binding", [("style", "document"), ("transport", "http://schemas.xmlsoap.org/soap/http")]),
          E("wsdl:operation", [("name", "f")], E("soap:operation", [("soapAction", "f"), ("style", "document")]),
            E("wsdl:input", [], E("soap:body", [("use", "literal")])),
            E("wsdl:output", [], E("soap:body", [("use", "literal")])))),
        E("wsdl:service", [("name", "svc")],
          E("wsdl:port", [("name", "port"), ("binding", "tns:bd")], E("soap:address", [("location", loc_atoks)]))),
    ]
    return E("wsdl:definitions", [("targetNamespace", tns_atoks), ("xmlns:tns", tns_atoks), ("xmlns:soap", SOAP_NS),
                                  ("xmlns:wsdl", WSDL_NS), ("xmlns:xsd", XSD_NS)], *kids)


def xsd_body(doc_toks, name_atoks, tns=IMP_NS, extra=()):
    return E("xsd:schema", [("targetNamespace", tns), ("xmlns:xsd", XSD_NS)],
             *(list(extra) + [E("xsd:annotation", [], E("xsd:documentation", [], doc_toks))]),
             E("xsd:simpleType", [("name", name_atoks)], E("xsd:restriction", [("base", "xsd:string")])))


def wsdl2_body(doc_toks):
    return E("wsdl:definitions", [("targetNamespace", "urn:c20:w2"), ("xmlns:wsdl", WSDL_NS)],
             E("wsdl:documentation", [], doc_toks))


def reply_body(result_toks, attr_atoks):
    return E("env:Envelope", [("xmlns:env", ENV_NS), ("xmlns:ns", TNS)],
             E("env:Header", [("k", attr_atoks)]),
             E("env:Body", [], E("ns:fResponse", [], E("ns:result", [], result_toks))))


VENDOR_NS = "urn:c20:vendor:documentation-tooling"


def lookalike_targets(pre):
    return [WORLD.sysid[1], WORLD.sysid[2], WORLD.sysid[3], WORLD.sysid[4], WORLD.sysid[5],
            pre + "decoy.xsd", "decoy.xsd", url_prefix("file") + "decoy.xsd", url_prefix("loop") + "decoy.xsd"]


def g_lookalikes_schema(rng, pre):
    """Children of an xs:schema that LOOK like import / include but are not in the XSD namespace
    (vendor extensions, documentation tooling, annotation/appinfo content): they name nothing."""
    ts = lookalike_targets(pre)
    out = []
    for _ in range(rng.randrange(1, 4)):
        t = rng.choice(ts)
        k = rng.randrange(9)
        if k == 6:
            # XSD-namespace import / include where they are not references: inside annotation/appinfo
            out.append(E("xsd:annotation", [], E("xsd:appinfo", [],
                         E("xsd:import", [("namespace", "urn:c20:decoy"), ("schemaLocation", t)]),
                         E("xsd:include", [("schemaLocation", rng.choice(ts))]))))
        elif k == 7:
            out.append(E("xsd:complexType", [("name", "L" + g_word(rng, 2, 4))], E("xsd:sequence", [],
                         E("xsd:element", [("name", "x"), ("type", "xsd:string")],
                           E("xsd:annotation", [], E("xsd:documentation", [],
                             E("xsd:include", [("schemaLocation", t)])))))))
        elif k == 8:
            out.append(E("xsd:annotation", [("xmlns:xsi", "http://www.w3.org/2001/XMLSchema-instance"),
                                            ("xsi:schemaLocation", "urn:c20:decoy " + t),
                                            ("xsi:noNamespaceSchemaLocation", rng.choice(ts))],
                         E("xsd:documentation", [], "see " + t)))
        elif k == 0:
            out.append(E("doc:include", [("xmlns:doc", VENDOR_NS), ("schemaLocation", t)]))
        elif k == 1:
            out.append(E("doc:import", [("xmlns:doc", VENDOR_NS), ("namespace", "urn:c20:decoy"),
                                        ("schemaLocation", t)]))
        elif k == 2:
            out.append(E("include", [("xmlns", VENDOR_NS), ("schemaLocation", t)]))
        elif k == 3:
            out.append(E("xsd:annotation", [], E("xsd:appinfo", [],
                         E("doc:include", [("xmlns:doc", VENDOR_NS), ("schemaLocation", t)]),
                         E("doc:import", [("xmlns:doc", VENDOR_NS), ("schemaLocation", rng.choice(ts))]))))
        elif k == 4:
            out.append(E("doc:redefine", [("xmlns:doc", VENDOR_NS), ("schemaLocation", t)]))
        else:
            out.append(E("import", [("xmlns", VENDOR_NS), ("namespace", "urn:c20:decoy"), ("schemaLocation", t),
                                    ("location", rng.choice(ts))]))
    return out


def g_lookalikes_wsdl(rng, pre):
    """Children of wsdl:definitions in a foreign namespace named import, and documentation content."""
    ts = lookalike_targets(pre)
    out = []
    k = rng.randrange(5)
    if k == 3:
        # WSDL / XSD namespace import where it is not a reference: inside documentation, inside a message
        out.append(E("wsdl:documentation", [], E("wsdl:import", [("namespace", "urn:c20:decoy"),
                                                                 ("location", rng.choice(ts))]),
                     E("xsd:import", [("namespace", "urn:c20:decoy"), ("schemaLocation", rng.choice(ts))])))
    elif k == 4:
        out.append(E("wsdl:message", [("name", "lookalike"), ("xmlns:xsi", "http://www.w3.org/2001/XMLSchema-instance"),
                                      ("xsi:schemaLocation", "urn:c20:decoy " + rng.choice(ts))],
                     E("wsdl:import", [("namespace", "urn:c20:decoy"), ("location", rng.choice(ts))])))
    elif k == 0:
        out.append(E("ext:import", [("xmlns:ext", VENDOR_NS), ("namespace", "urn:c20:decoy"),
                                    ("location", rng.choice(ts))]))
    elif k == 1:
        out.append(E("import", [("xmlns", VENDOR_NS), ("location", rng.choice(ts)),
                                ("schemaLocation", rng.choice(ts))]))
    else:
        out.append(E("wsdl:documentation", [], E("ext:import", [("xmlns:ext", VENDOR_NS),
                                                                ("location", rng.choice(ts))]),
                     E("ext:include", [("xmlns:ext", VENDOR_NS), ("schemaLocation", rng.choice(ts))])))
    return out


# ---- multi-directory sites -------------------------------------------------------

SHARED_NS_POOL = ["urn:c20:shared:types", "http://vendor.c20.invalid/contracts/common", "common-types",
                  "../shared/ns", "urn:c20:shared:other", "http://ns.c20.invalid/base/"]
W2_NS = "urn:c20:w2"
_DECOY_CACHE = {}


def schema_doc(tns, kids):
    return mk_doc([], E("xsd:schema", [("targetNamespace", tns), ("xmlns:xsd", XSD_NS), ("xmlns:tns", tns)], *kids))


def ctype_el(name, elname):
    return E("xsd:complexType", [("name", name)],
             E("xsd:sequence", [], E("xsd:element", [("name", elname), ("type", "xsd:string")])))


def decoy_doc(kind, tns):
    """(AST, bytes) of a decoy: well-formed, mergeable, full of marker text."""
    key = (kind, tns)
    if key not in _DECOY_CACHE:
        if kind == "wsdl":
            d = mk_doc([], wsdl2_body([T("~decoy~")]))
        else:
            d = schema_doc(tns, [ctype_el("Inner", "decoy~leak~"), ctype_el("Decoy~leak~", "x")])
        _DECOY_CACHE[key] = (d, render_doc(d, lambda s: "unused"))
    return _DECOY_CACHE[key]


def relpath(from_dir, to_path):
    import posixpath
    return posixpath.relpath("/" + to_path, "/" + from_dir) if from_dir else to_path


def g_site(rng, k, history_locs):
    """A service whose documents live in several directories and refer to each other by RELATIVE
    locations (include / import chains, wsdl:import), with imports that carry no location at all, plus
    the decoys served at every location a sloppy loader could come up with."""
    hosts = ["http://svc-a.c20.invalid/", "http://svc-b.c20.invalid/", "http://127.0.0.1:%d/real/site/" % WORLD.port,
             "file://" + WORLD.real + "/site/", "http://svc-c.c20.invalid/deep/er/"]
    B = hosts[k % len(hosts)]
    app, sch, shared, more, other = [("app/", "app/schemas/v2/", "shared/", "shared/more/", "other/"),
                                     ("svc/", "svc/types/", "common/", "common/x/y/", "svc/sub/"),
                                     ("", "xsd/", "lib/", "lib/leaf/", "w/")][(k // 5) % 3]
    tns = "urn:c20:site:%d" % (k % 7)
    ns_loc = SHARED_NS_POOL[k % 6]
    noloc = [SHARED_NS_POOL[(k + 1) % 6], SHARED_NS_POOL[(k + 3) % 6]]
    with_common = rng.random() < 0.8
    with_base = rng.random() < 0.75
    with_leaf = with_base and rng.random() < 0.6
    with_second = rng.random() < 0.4
    noloc_xsd = rng.random() < 0.6
    noloc_wsdl = rng.random() < 0.12
    base_from_types = with_base and rng.random() < 0.5
    base_absolute = with_base and rng.random() < 0.4
    p_root, p_types, p_common = app + "service.wsdl", sch + "types.xsd", sch + "common.xsd"
    p_base, p_leaf, p_second, p_types2 = shared + "base.xsd", more + "leaf.xsd", other + "second.wsdl", other + "types2.xsd"
    locs = []          # location strings as written in this site

    def ref(from_dir, to_path, absolute=False):
        s = (B + to_path) if absolute else relpath(from_dir, to_path)
        locs.append(s)
        return s
    docs = {}
    # WSDL
    skids = [E("xsd:include", [("schemaLocation", ref(app, p_types))])]
    if with_base:
        skids.append(E("xsd:import", [("namespace", ns_loc), ("schemaLocation", ref(app, p_base, base_absolute))]))
    if noloc_xsd:
        skids.append(E("xsd:import", [("namespace", noloc[0])]))
    dkids = []
    if noloc_wsdl:
        dkids.append(E("wsdl:import", [("namespace", noloc[1])]))
    wsdl = mk_doc([], wsdl_body([T("site")], [("t", "http://c20.invalid/svc")], [("t", tns)], None,
                                ref(app, p_second) if with_second else None, None, skids, dkids))
    docs[B + p_root] = wsdl
    # types.xsd (other directory), common.xsd next to it
    tk = []
    if with_common:
        tk.append(E("xsd:include", [("schemaLocation", ref(sch, p_common))]))
    if base_from_types:
        tk.append(E("xsd:import", [("namespace", ns_loc), ("schemaLocation", ref(sch, p_base))]))
    if noloc_xsd and rng.random() < 0.5:
        tk.append(E("xsd:import", [("namespace", noloc[1])]))
    tk.append(ctype_el("Outer", "genuine"))
    docs[B + p_types] = schema_doc(tns, tk)
    if with_common:
        docs[B + p_common] = schema_doc(tns, [ctype_el("Inner", "genuine")])
    if with_base:
        bk = [E("xsd:include", [("schemaLocation", ref(shared, p_leaf))])] if with_leaf else []
        if noloc_xsd and rng.random() < 0.3:
            bk.append(E("xsd:import", [("namespace", noloc[0])]))
        bk.append(E("xsd:simpleType", [("name", "B")], E("xsd:restriction", [("base", "xsd:string")])))
        docs[B + p_base] = schema_doc(ns_loc, bk)
        if with_leaf:
            docs[B + p_leaf] = schema_doc(ns_loc, [E("xsd:simpleType", [("name", "Leaf")],
                                                     E("xsd:restriction", [("base", "xsd:string")]))])
    if with_second:
        docs[B + p_second] = mk_doc([], E("wsdl:definitions", [("targetNamespace", W2_NS), ("xmlns:wsdl", WSDL_NS),
                                                               ("xmlns:xsd", XSD_NS)],
                                          E("wsdl:types", [], E("xsd:schema", [("targetNamespace", W2_NS)],
                                            E("xsd:include", [("schemaLocation", ref(other, p_types2))])))))
        docs[B + p_types2] = schema_doc(W2_NS, [ctype_el("Second", "genuine")])
    served = {}
    for u, d in docs.items():
        d = g_restyle(rng, d)
        if d["sdecl"] == "yes":
            d["sdecl"] = "no"
        served[u] = (d, render_doc(d, lambda x: "unused"))
    # decoys: every wrongly resolved location, every URL a namespace would give, every earlier location
    strings = list(dict.fromkeys(locs + noloc + list(history_locs)))
    for sname in strings:
        targets = [sname] if "://" in sname else [urllib.parse.urljoin(u, sname) for u in docs]
        for t in targets:
            if t in served or len(served) > 90:
                continue
            if t.endswith(".wsdl"):
                served[t] = decoy_doc("wsdl", None)
            else:
                base = t.rsplit("/", 1)[-1]
                guess = sname if sname in SHARED_NS_POOL else (
                    ns_loc if base.startswith(("base", "leaf")) else (W2_NS if base.startswith("types2") else tns))
                served[t] = decoy_doc("xsd", guess)
    shape = "+".join(x for x, f in (("common", with_common), ("base", with_base), ("leaf", with_leaf),
                                    ("second", with_second), ("noloc-xsd", noloc_xsd), ("noloc-wsdl", noloc_wsdl),
                                    ("abs", base_absolute)) if f) or "types"
    return {"root": B + p_root, "served": served, "shape": shape,
            "locations": locs + [B + p_base] * bool(with_base) + [B + p_types]}


def class_level_tables():
    """repr of every dict / list / set held at class or module level inside the suds package
    (process-global state that outlives a load)."""
    import inspect
    out = {}
    for mn, m in list(sys.modules.items()):
        if m is None or not (mn == "suds" or mn.startswith("suds.")):
            continue
        for cn, c in list(vars(m).items()):
            try:
                if inspect.isclass(c) and getattr(c, "__module__", "") == mn:
                    for an, v in list(vars(c).items()):
                        if isinstance(v, (dict, list, set)):
                            out["%s.%s.%s" % (mn, cn, an)] = repr(v)[:20000]
                elif isinstance(c, (dict, list, set)) and not cn.startswith("__"):
                    out["%s.%s" % (mn, cn)] = repr(c)[:20000]
            except Exception:   # noqa
                pass
    return out


def declared_names(subset):
    """(internal, external) general entity names a reference in the body would find
    (first declaration wins; declarations after a parameter-entity reference may be skipped)."""
    internal, external, seen = [], [], set()
    for d in subset:
        if d[0] == "pr":
            break
        if d[0] in ("gi", "ge", "gn") and d[1] not in seen:
            seen.add(d[1])
            if d[0] == "gi" and all(t[0] == "t" for t in d[2]):
                internal.append(d[1])
            elif d[0] == "ge":
                external.append(d[1])
    return internal, external


def g_payload(rng, strong=False):
    """A DTD + reference material to embed in a structured document; most of the
    time the result is well-formed, so that the surrounding WSDL / reply is processed."""
    subset = g_decls(rng, depth=1)
    if strong or rng.random() < 0.6:
        subset.insert(rng.randrange(0, len(subset) + 1), ("ge", rng.choice(ENT), rng.choice(SLOT_IDS)))
    ext = rng.choice(SLOT_IDS) if rng.random() < 0.3 else None
    if rng.random() < 0.12:
        text = g_content(rng, ENT, 0, 0.6)
        attr = g_atoks(rng, ENT, 0.25)
        return subset, ext, text, attr
    internal, external = declared_names(subset)
    text = []
    for _ in range(rng.randrange(1, 5)):
        r = rng.random()
        if r < 0.45 and (internal or external):
            text.append(("r", rng.choice(internal + external + external)))
        elif r < 0.55:
            text.append(("r", rng.choice(list(PREDEF))))
        else:
            text.append(("t", g_word(rng, 1, 4)))
    attr = [("t", g_word(rng, 1, 3))]
    if internal and rng.random() < 0.6:
        attr.append(("r", rng.choice(internal)))
    return subset, ext, text, attr


# ---------------------------------------------------------------------------
# running suds
# ---------------------------------------------------------------------------


class Outcome(object):
    """What one parse through an entry point showed."""

    def __init__(self, entry, doc, data):
        self.entry = entry
        self.doc = doc
        self.data = data
        self.kind = None        # "doc" | "none" | "raise"
        self.flat = None
        self.exc = None
        self.events = []
        self.parsers = []
        self.hits = []
        self.extra_text = ""    # further suds-level results to search for markers

    def impl_term(self):
        if self.kind == "doc":
            return q_flat(self.flat)
        return "INone" if self.kind == "none" else "IRaise"


def _finish(o, ctx):
    o.events = ctx.events
    o.parsers = ctx.parsers
    o.hits = ctx.hits
    o.raw = ctx.raw
    o.made = ctx.made
    return o


def _observe(o, fn):
    """Run fn() -> Document/Element/None, canonicalise the outcome."""
    try:
        d = fn()
        root = None
        if d is not None:
            root = d.root() if hasattr(d, "root") else d
        if root is None:
            o.kind = "none"
        else:
            o.kind, o.flat = "doc", flat_tree(root)
    except Exception as e:   # noqa
        o.kind, o.exc = "raise", repr(e)


def run_parse_string(suds, doc, data, ctype="bytes"):
    o = Outcome("parse-string", doc, data)
    o.ctype = ctype
    content = as_type(data, ctype)
    with audited() as ctx:
        _observe(o, lambda: suds.sax.parser.Parser().parse(string=content))
    return _finish(o, ctx)


class _OnlyRead(object):
    """A minimal file-like object: read() and close(), nothing else."""

    def __init__(self, data):
        self._f = io.BytesIO(data)

    def read(self, n=-1):
        return self._f.read(n)

    def close(self):
        self._f.close()


FILE_KINDS = ["real-file", "bytesio", "only-read", "stringio"]


def run_parse_file(suds, doc, data, kind="bytesio", counter=[0]):
    o = Outcome("parse-file", doc, data)
    o.ctype = kind
    if kind == "stringio" and data.startswith(b"\xef\xbb\xbf"):
        kind = "bytesio"
    if kind == "real-file":
        counter[0] += 1
        path = os.path.join(WORLD.cwd, "doc-%d.xml" % (counter[0] % 8))
        with open(path, "wb") as f:
            f.write(data)
        fp = open(path, "rb")
    elif kind == "only-read":
        fp = _OnlyRead(data)
    elif kind == "stringio":
        fp = io.StringIO(data.decode("ascii"))
    else:
        fp = io.BytesIO(data)
    with audited() as ctx:
        _observe(o, lambda: suds.sax.parser.Parser().parse(file=fp))
    try:
        fp.close()
    except Exception:   # noqa
        pass
    return _finish(o, ctx)


def run_doccache_get(suds, doc, data, counter=[0]):
    o = Outcome("doccache-get", doc, data)
    counter[0] += 1
    cid = "c20-%d" % (counter[0] % 8)
    cache = suds.cache.DocumentCache(location=WORLD.cache)
    path = os.path.join(WORLD.cache, "suds-%s.xml" % cid)
    with open(path, "wb") as f:
        f.write(data)
    with audited([WORLD.cache]) as ctx:
        _observe(o, lambda: cache.get(cid))
    o.purged = not os.path.exists(path)
    return _finish(o, ctx)


_MEM = {}


def MemTransport(docs, reply=None):
    """In-memory transport: the only documents it serves are the ones the test names;
    `reply`: the message returned for anything sent."""
    cls = _MEM.get("cls")
    if cls is None:
        import suds.transport

        class _Buffer(object):
            def __init__(self, data):
                self.data = data

            def read(self):
                return self.data

            def close(self):
                pass

        class _MemTransport(suds.transport.Transport):
            def __init__(self, docs, reply):
                suds.transport.Transport.__init__(self)
                self.docs = docs
                self.reply = reply
                self.requested = []
                self.sent = 0

            def open(self, request):
                self.requested.append(request.url)
                if request.url not in self.docs:
                    raise suds.transport.TransportError("not found: " + request.url, 404)
                return _Buffer(self.docs[request.url])

            def send(self, request):
                self.sent += 1
                if self.reply is None:
                    raise suds.transport.TransportError("nothing is ever sent", 500)
                return suds.transport.Reply(200, {}, self.reply)
        cls = _MEM["cls"] = _MemTransport
    return cls(docs, reply)


def store_key(url):
    parts = url.split("://", 1)
    return parts[1] if len(parts) == 2 else url


def run_reader(suds, doc, data, how, ctype="bytes", urlkind=None, counter=[0]):
    """suds.reader.DocumentReader.open on an arbitrary document: from a DocumentStore ("store"),
    from a transport ("transport"), twice through a DocumentCache ("cache"), or with the content
    replaced by a DocumentPlugin.loaded hook ("plugin").  The content arrives as `ctype`; the URL
    may be a real location (file://, http://loopback) where DIFFERENT content sits."""
    import suds.options
    import suds.plugin
    import suds.reader
    import suds.store
    o = Outcome("reader-" + how, doc, data)
    o.ctype = ctype
    counter[0] += 1
    content = as_type(data, ctype)
    if urlkind is None or (how == "transport" and urlkind == "suds"):
        urlkind = "invalid" if how == "transport" else "suds"      # suds:// is the store's own protocol
    o.urlkind = urlkind
    url = url_prefix(urlkind) + "doc-%d.xml" % (counter[0] % 8)
    options = suds.options.Options()
    if how == "transport":
        tr = MemTransport({url: content})
        options.documentStore = None
    elif how == "plugin":
        # the store delivers something else; a `loaded` plugin substitutes the content
        tr = MemTransport({})
        options.documentStore = suds.store.DocumentStore(**{store_key(url): b"<placeholder/>"})

        class Subst(suds.plugin.DocumentPlugin):
            def loaded(self, context):
                context.document = content
        options.plugins = [Subst()]
    else:
        tr = MemTransport({})
        options.documentStore = suds.store.DocumentStore(**{store_key(url): content})
    options.transport = tr
    if how == "cache":
        options.cache = suds.cache.DocumentCache(location=WORLD.cache)
        options.cachingpolicy = 0
        options.cache.clear()
    else:
        options.cache = suds.cache.NoCache()
    allowed = [WORLD.cache] if how == "cache" else []

    def go():
        d = suds.reader.DocumentReader(options).open(url)
        if how == "cache":
            # second open is served by DocumentCache.get from the file written by put
            d2 = suds.reader.DocumentReader(options).open(url)
            o.second = flat_tree(d2.root())
        return d
    with audited(allowed) as ctx:
        _observe(o, go)
    o.requested = list(tr.requested)
    expected = [url] if how == "transport" else []
    if o.requested != expected:
        o.fetch_problem = "transport asked for %r, expected %r" % (o.requested, expected)
    return _finish(o, ctx)


class Capture(object):
    """Plugins capturing trees the moment suds has parsed them."""

    def __init__(self, suds):
        import suds.plugin
        cap = self
        self.loaded = []
        self.parsed = []      # (url, flat, parser record)
        self.reply = None
        self.sent = None

        class Doc(suds.plugin.DocumentPlugin):
            def loaded(self, context):
                cap.loaded.append(context.url)

            def parsed(self, context):
                cap.parsed.append((context.url, flat_tree(context.document),
                                   Rec.parsers[-1] if Rec.parsers else None))

        class Msg(suds.plugin.MessagePlugin):
            def parsed(self, context):
                if context.reply is not None:
                    cap.reply = flat_tree(context.reply)

            def marshalled(self, context):
                cap.sent = flat_tree(context.envelope)
        self.plugins = [Doc(), Msg()]

    def reset(self):
        self.loaded, self.parsed, self.reply, self.sent = [], [], None, None


def make_reply_client(suds):
    import suds.client
    import suds.store
    wsdl = render_doc(mk_doc([], wsdl_body([T("plain")], [("t", "http://c20.invalid/svc")], [("t", TNS)], None)),
                      WORLD.sysid.get)
    cap = Capture(suds)
    store = suds.store.DocumentStore(**{"c20/reply.wsdl": wsdl})
    c = suds.client.Client("suds://c20/reply.wsdl", documentStore=store, cache=None, plugins=cap.plugins,
                           transport=MemTransport({}))
    return c, cap


def run_client_reply(suds, client, cap, doc, data):
    o = Outcome("client-reply", doc, data)
    cap.reset()
    with audited() as ctx:
        try:
            res = client.service.f("x", __inject={"reply": data})
            o.extra_text = repr(res)
            if cap.reply is None:
                o.kind = "none"
            else:
                o.kind, o.flat = "doc", cap.reply
        except Exception as e:   # noqa
            # a fault / unexpected structure after a successful parse still has a tree
            if cap.reply is not None:
                o.kind, o.flat = "doc", cap.reply
                o.extra_text = repr(e)
            else:
                o.kind, o.exc = "raise", repr(e)
    return _finish(o, ctx)


def run_client_msg(suds, client, cap, doc, data):
    o = Outcome("client-msg", doc, data)
    cap.reset()
    client.set_options(nosend=True)
    with audited() as ctx:
        try:
            res = client.service.f("x", __inject={"msg": data})
            o.extra_text = repr(getattr(res, "envelope", res))
            if cap.sent is None:
                o.kind = "none"
            else:
                o.kind, o.flat = "doc", cap.sent
        except Exception as e:   # noqa
            if cap.sent is not None:
                o.kind, o.flat = "doc", cap.sent
            else:
                o.kind, o.exc = "raise", repr(e)
    client.set_options(nosend=False)
    return _finish(o, ctx)


def run_client_send(suds, doc, data, ctype, cache={}):
    """The reply arrives from the configured transport (not injected) as `ctype`."""
    import suds.client
    import suds.store
    o = Outcome("client-reply", doc, data)
    o.ctype = ctype
    if "wsdl" not in cache:
        cache["wsdl"] = render_doc(mk_doc([], wsdl_body([T("plain")], [("t", "http://c20.invalid/svc")],
                                                          [("t", TNS)], None)), WORLD.sysid.get)
    cap = Capture(suds)
    tr = MemTransport({}, reply=as_type(data, ctype))
    store = suds.store.DocumentStore(**{"c20/send.wsdl": cache["wsdl"]})
    client = suds.client.Client("suds://c20/send.wsdl", documentStore=store, cache=None, plugins=cap.plugins,
                                transport=tr)
    cap.reset()
    with audited() as ctx:
        try:
            res = client.service.f("x")
            o.extra_text = repr(res)
            if cap.reply is None:
                o.kind = "none"
            else:
                o.kind, o.flat = "doc", cap.reply
        except Exception as e:   # noqa
            if cap.reply is not None:
                o.kind, o.flat = "doc", cap.reply
                o.extra_text = repr(e)
            else:
                o.kind, o.exc = "raise", repr(e)
    if tr.requested:
        o.fetch_problem = "transport asked for %r while processing a reply" % (tr.requested,)
    return _finish(o, ctx)


def run_client_load(suds, docs, root_url, via, ctype="bytes"):
    """Client construction over a set of documents; returns one Outcome per document suds
    fetched.  docs: url -> (doc AST, bytes).  The documents reach suds through a DocumentStore
    ("store") or a transport ("transport"), as `ctype`."""
    import suds.client
    import suds.store
    cap = Capture(suds)
    if via == "store":
        store = suds.store.DocumentStore(**{store_key(u): as_type(b, ctype) for u, (_, b) in docs.items()})
        tr = MemTransport({})
    else:
        store = None
        tr = MemTransport({u: as_type(b, ctype) for u, (_, b) in docs.items()})
    err = None
    client_text = ""
    with audited() as ctx:
        try:
            c = suds.client.Client(root_url, documentStore=store, cache=None, plugins=cap.plugins, transport=tr)
            client_text = str(c)
        except Exception as e:   # noqa
            err = repr(e)
    outs = []
    seen = set()
    for url, flat, prec in cap.parsed:
        if url not in docs or url in seen:
            continue
        seen.add(url)
        o = Outcome("client-load", docs[url][0], docs[url][1])
        o.kind, o.flat = "doc", flat
        o.parsers = [prec] if prec else []
        o.events, o.hits, o.raw = ctx.events, ctx.hits, ctx.raw
        o.extra_text = client_text
        o.url = url
        o.ctype = ctype
        outs.append(o)
    # a document that was loaded but never reported as parsed: the parse raised
    for url in cap.loaded:
        if url in docs and url not in seen:
            seen.add(url)
            o = Outcome("client-load", docs[url][0], docs[url][1])
            o.kind, o.exc = "raise", err
            o.parsers = ctx.parsers[-1:]
            o.events, o.hits, o.raw = ctx.events, ctx.hits, ctx.raw
            o.url = url
            o.ctype = ctype
            outs.append(o)
    requested = list(tr.requested)
    return outs, requested, err, cap, ctx


# ---------------------------------------------------------------------------
# the documents a WSDL / schema NAMES (independent of suds: expat in namespace mode)
# ---------------------------------------------------------------------------


def named_refs(data, base_url):
    """URLs named by import / include references of one document, namespace-aware:
    {WSDL}definitions/{WSDL}import@location, and for every {XSD}schema that is the root or a child of
    {WSDL}definitions/{WSDL}types: its children {XSD}import|include|redefine @schemaLocation.
    Elements of any other namespace never name a document, whatever their local name or attributes."""
    import xml.parsers.expat as expat
    p = expat.ParserCreate(namespace_separator=" ")
    p.SetParamEntityParsing(expat.XML_PARAM_ENTITY_PARSING_UNLESS_STANDALONE)
    p.ExternalEntityRefHandler = lambda *a: 1        # nothing external is ever read
    stack = []
    refs = []

    def start(name, attrs):
        path = tuple(stack)
        stack.append(name)
        loc = None
        if name == WSDL_NS + " import" and path == (WSDL_NS + " definitions",):
            loc = attrs.get("location")
        elif name in (XSD_NS + " import", XSD_NS + " include", XSD_NS + " redefine") and path in (
                (XSD_NS + " schema",), (WSDL_NS + " definitions", WSDL_NS + " types", XSD_NS + " schema")):
            loc = attrs.get("schemaLocation")
        if loc:
            refs.append(urllib.parse.urljoin(base_url, loc) if "://" not in loc else loc)

    def end(name):
        stack.pop()
    p.StartElementHandler = start
    p.EndElementHandler = end
    try:
        p.Parse(bytes(data), True)
    except expat.ExpatError:
        return []            # an ill-formed document names nothing (suds raises on it)
    return refs


NS_IDS = {None: 0, XSD_NS: 1, WSDL_NS: 2}
LOCAL_IDS = {"import": 1, "include": 2, "redefine": 3, "schema": 4, "types": 5, "definitions": 6}


def _intern(table, key, first):
    i = table.get(key)
    if i is None:
        i = table[key] = max([first - 1] + list(table.values())) + 1
    return i


def loader_candidates(data, doc_url, url_id, rel_id, joins):
    """The elements of one document that could be taken for a reference (local name import / include /
    redefine, ANY namespace), as Coq `cand` terms for the loader model: path of expanded names, expanded
    name, schemaLocation and location AS WRITTEN (absolute / relative).  For every relative reference the
    urljoin with THIS document's URL is added to `joins`.  None: ill-formed."""
    import xml.parsers.expat as expat
    p = expat.ParserCreate(namespace_separator=" ")
    p.SetParamEntityParsing(expat.XML_PARAM_ENTITY_PARSING_UNLESS_STANDALONE)
    p.ExternalEntityRefHandler = lambda *a: 1
    stack, out = [], []

    def q(name):
        ns, _, local = name.rpartition(" ")
        return "(%s, %s)" % (cN(_intern(NS_IDS, ns or None, 3)), cN(_intern(LOCAL_IDS, local, 7)))

    def loc(v):
        if not v:
            return copt(None, "locref")
        if "://" in v:
            return "(Some (LAbs %s))" % cN(url_id(v))
        joins.add((url_id(doc_url), rel_id(v), url_id(urllib.parse.urljoin(doc_url, v))))
        return "(Some (LRel %s))" % cN(rel_id(v))

    def start(name, attrs):
        if name.rpartition(" ")[2] in ("import", "include", "redefine"):
            out.append("(mkCand %s %s %s %s)" % (clist([q(x) for x in stack], "qn"), q(name),
                                                 loc(attrs.get("schemaLocation")), loc(attrs.get("location"))))
        stack.append(name)

    def end(name):
        stack.pop()
    p.StartElementHandler = start
    p.EndElementHandler = end
    try:
        p.Parse(bytes(data), True)
    except expat.ExpatError:
        return None
    return out


def loader_case(docs, root_url, fetched, ok):
    ids, rels, joins = {}, {}, set()

    def url_id(u):
        return _intern(ids, str(u), 1)

    def rel_id(r):
        return _intern(rels, r, 1)
    items = []
    url_id(root_url)
    for u, (_, data) in docs.items():
        c = loader_candidates(data, u, url_id, rel_id, joins)
        if c is not None:
            items.append("(%s, %s)" % (cN(url_id(u)), clist(c, "cand")))
    return "(mkLcase %s %s %s %s %s)" % (
        cN(url_id(root_url)), clist(items, "url * list cand"),
        clist(["(%s, %s, %s)" % (cN(a), cN(b), cN(c)) for a, b, c in sorted(joins)], "url * N * url"),
        clist([cN(url_id(u)) for u in fetched], "url"), cbool(ok))


def import_namespaces(data):
    """[(namespace, location or None)] of the {XSD}import / {WSDL}import elements of a document."""
    import xml.parsers.expat as expat
    p = expat.ParserCreate(namespace_separator=" ")
    p.SetParamEntityParsing(expat.XML_PARAM_ENTITY_PARSING_UNLESS_STANDALONE)
    p.ExternalEntityRefHandler = lambda *a: 1
    out = []

    def start(name, attrs):
        if name == XSD_NS + " import":
            out.append((attrs.get("namespace"), attrs.get("schemaLocation")))
        elif name == WSDL_NS + " import":
            out.append((attrs.get("namespace"), attrs.get("location")))
    p.StartElementHandler = start
    try:
        p.Parse(bytes(data), True)
    except expat.ExpatError:
        pass
    return out


def named_closure(docs, root_url):
    """All documents named, transitively, starting from the one the caller named."""
    named, todo = [], [root_url]
    while todo:
        u = todo.pop(0)
        if u in named:
            continue
        named.append(u)
        if u in docs:
            todo.extend(named_refs(docs[u][1], u))
    return named


# ---------------------------------------------------------------------------
# the check
# ---------------------------------------------------------------------------

PRE_HEAD = "From SV Require Import Lib.Base C20.Entities."


def lib_default_ges():
    import xml.sax
    from xml.sax.handler import feature_external_ges
    return bool(xml.sax.make_parser().getFeature(feature_external_ges))


def run(ck):
    global WORLD
    suds = common.force_repo_path()
    import suds.client   # noqa
    import suds.cache    # noqa
    import suds.sax.parser   # noqa

    ck.trusted = [
        "Coq 8.16.1 kernel + vm_compute (correspondence evaluation); no native_compute",
        "pyexpat / libexpat (C code) and xml.sax.expatreader: modelled (doProlog, doContent, appendAttributeValue, "
        "external_entity_ref), connected to the model only by the audited runs -- PARTIAL",
        "CPython audit events (open, socket.*, urllib.Request, http.client.connect) as the complete record of file "
        "and network access by the parsing thread; the import system's reads of .py/.pyc files are not counted",
        "correspondence harness harness/c20.py (generators, renderer AST -> bytes, canonical flattening of suds trees)",
    ]
    ck.notes = [
        "label: partial -- the reader model is a model of C code (pyexpat); the theorem is about the modelled callback "
        "protocol, the audited runs connect it to the real parser",
        "on this interpreter xml.sax's expat reader has external-general-entities off by default; the verdict is by "
        "observed effects plus the flag read from the live parser, not by the presence of suds' setFeature line",
        "character references, CDATA sections, comments, processing instructions, conditional sections and "
        "non-UTF-8 encodings are outside the model's document language",
    ]
    proof_ok = ck.prove(THEOREMS)
    import logging
    logging.getLogger("suds").addHandler(logging.NullHandler())   # suds logs unknown reply elements as errors

    WORLD = World()
    WORLD.start()
    install_instrumentation()
    try:
        _run(ck, suds, proof_ok)
    finally:
        Rec.enabled = False
        WORLD.stop()


def _run(ck, suds, proof_ok):
    rng = ck.rng
    lib_default = lib_default_ges()
    ck.extra["library_default_external_ges"] = lib_default
    thorough = ck.tier == "thorough"

    outcomes = []     # Outcome objects, one per (entry point, document) parse
    q_planted()       # interns the names used by the planted resources

    def sysid_of(s):
        return WORLD.sysid[s]

    # warm up every entry point once outside the measurements (lazy imports)
    warm = mk_doc([("gi", "e0", [T("v")])], [O("r"), R("e0"), C("r")])
    wdata = render_doc(warm, sysid_of)
    reply_client, reply_cap = make_reply_client(suds)
    run_parse_string(suds, warm, wdata)
    run_doccache_get(suds, warm, wdata)
    run_reader(suds, warm, wdata, "cache")

    # ---- 1. grid: construct x system identifier kind x entry point --------
    # Every document is rendered in a model-irrelevant surface variant (XML declaration with version /
    # encoding / standalone yes|no|absent, quotes, BOM, comments, white space) and handed over as a
    # bytes / bytearray / memoryview (/ str) buffer under suds://, http://, file:// and loopback URLs.
    grid = grid_docs()
    generic_entries = ["parse-string", "parse-file", "doccache-get", "reader-store", "reader-transport",
                       "client-reply", "client-msg", "reader-cache", "reader-plugin"]
    CT3 = CTYPES[:3]

    def run_generic(entry, doc, data, n):
        lenient = False
        if entry == "parse-string":
            ct = "str" if n % 9 == 4 else CT3[n % 3]
            o = run_parse_string(suds, doc, data, ct)
        elif entry == "parse-file":
            o = run_parse_file(suds, doc, data, FILE_KINDS[n % 4])
        elif entry == "doccache-get":
            o = run_doccache_get(suds, doc, data)
        elif entry == "client-reply":
            if n % 3 == 2:
                o = run_client_send(suds, doc, data, CT3[(n // 3) % 3])
            else:
                o = run_client_reply(suds, reply_client, reply_cap, doc, data)
        elif entry == "client-msg":
            o = run_client_msg(suds, reply_client, reply_cap, doc, data)
        else:
            ct = "str" if n % 9 == 4 else CT3[(n // 2) % 3]
            o = run_reader(suds, doc, data, entry.split("-", 1)[1], ct, URL_KINDS[(n // 3) % 4])
        if getattr(o, "ctype", "") == "str" and not data.startswith(b"\xef\xbb\xbf"):
            # the unchanged code rejects str content (TypeError); a tree that accepts it must parse it like the model
            o.lenient = True
        return o

    funnel_points = ("parse-string", "client-reply", "reader-store", "doccache-get")
    for k, (label, doc) in enumerate(grid):
        for j, entry in enumerate(generic_entries):
            if not thorough and entry in ("reader-cache", "client-msg", "reader-transport", "reader-plugin") \
                    and (k + j) % 3:
                continue
            n = k * len(generic_entries) + j
            d = variant(doc, n)
            o = run_generic(entry, d, render_doc(d, sysid_of), n)
            o.label = "grid:" + label
            outcomes.append(o)
            if entry in funnel_points:
                # the anchored parse sites see both standalone variants of every grid document
                d = variant(doc, n + 1)
                o = run_generic(entry, d, render_doc(d, sysid_of), n + 3)
                o.label = "grid:" + label
                outcomes.append(o)

    if thorough:
        n = 0
        for k, doc in enumerate(exhaustive_docs()):
            d = dict(doc)
            d["style"] = style_for(k)
            data = render_doc(d, sysid_of)
            o = run_generic(generic_entries[k % len(generic_entries)] if k % 4 == 0 else "parse-string", d, data, k)
            o.label = "exhaustive"
            outcomes.append(o)
            n += 1
        ck.exhaustive = True
        ck.extra["exhaustive_scope"] = ("%d documents: every ordered pair of 23 declaration shapes (internal / external "
                                        "general and parameter entities, NDATA, ATTLIST defaults, parameter-entity "
                                        "references; file, http and dead identifiers) x external subset none / planted "
                                        "/ dead x standalone absent / no / yes x 4 bodies" % n)

    # ---- 2. random documents through the generic entry points --------------
    n_random = 4000 if thorough else 1400
    for k in range(n_random):
        doc = g_doc(rng)
        data = render_doc(doc, sysid_of)
        entry = generic_entries[k % len(generic_entries)]
        o = run_generic(entry, doc, data, rng.randrange(0, 10000))
        o.label = "random"
        outcomes.append(o)

    # ---- 3. SOAP replies with a DOCTYPE (injected, and returned by the configured transport) ----
    n_reply = 800 if thorough else 240
    for k in range(n_reply):
        subset, ext, text, attr = g_payload(rng, strong=(k % 2 == 0))
        doc = g_restyle(rng, mk_doc(subset, reply_body(text, attr), ext=ext, public=bool(k % 3 == 0)))
        data = render_doc(doc, sysid_of)
        if k % 3 == 2:
            o = run_client_send(suds, doc, data, CT3[(k // 3) % 3])
        else:
            o = run_client_reply(suds, reply_client, reply_cap, doc, data)
        o.label = "soap-reply"
        outcomes.append(o)

    # ---- 4. WSDL + imported / included XSD + imported WSDL through Client(...) -------
    n_load = 500 if thorough else 160
    load_requests_bad = []
    lcases, lmeta = [], []
    n_named_fetches = 0
    n_lookalike_loads = 0

    load_log, first_bad_history = [], []

    def judge_load(docs, root_url, via, ctype, label):
        """One Client(...) construction over `docs` (everything the store / transport can serve), judged
        against the documents THIS load names (computed independently of suds, namespace- and
        position-aware, every reference resolved against its containing document's URL)."""
        nonlocal n_named_fetches
        named = named_closure(docs, root_url)
        outs, requested, err, cap, ctx = run_client_load(suds, docs, root_url, via, ctype)
        for o in outs:
            o.label = label
            outcomes.append(o)
        fetched = [str(u) for u in cap.loaded] + [str(u) for u in requested if u not in cap.loaded]
        bad = [u for u in fetched if u not in named]
        if err is None and set(fetched) != set(named):
            bad = bad or ["expected %r, fetched %r" % (named, fetched)]
        imports = [x for u in named if u in docs for x in import_namespaces(docs[u][1])]
        load_log.append({"root_url": root_url, "via": via, "content_type": ctype,
                         "located": sorted(set(n for n, l in imports if n and l)),
                         "documents": {u: b.decode("utf-8", "replace") for u, (_, b) in docs.items()}})
        if bad and not load_requests_bad:
            # the history that matters: the earliest earlier load that gave a location for a namespace this
            # load imports WITHOUT one (what a process-global table would have remembered), then this load
            unlocated = set(n for n, l in imports if n and not l)
            origin = [h for h in load_log[:-1] if unlocated & set(h["located"])][:1]
            first_bad_history.extend((origin or load_log[-3:-1]) + [load_log[-1]])
        if bad:
            load_requests_bad.append((bad, docs[root_url][1], root_url, via, ctype, named, fetched))
        lcases.append(loader_case(docs, root_url, fetched, err is None))
        lmeta.append((docs[root_url][1], root_url, via, ctype, named, fetched, err))
        n_named_fetches += len(fetched)
        ck.count("client-load-" + ("ok" if err is None else "raised"))
        return err

    for k in range(n_load):
        via = "store" if k % 2 == 0 else "transport"
        urlkind = URL_KINDS[(k // 2) % 4]
        if via == "transport" and urlkind == "suds":
            urlkind = "invalid"
        ctype = CT3[k % 3]
        pre = url_prefix(urlkind)
        root_url, imp_url, w2_url = pre + "main.wsdl", pre + "imp.xsd", pre + "second.wsdl"
        inc_url = pre + "inc.xsd"
        s1, e1, t1, a1 = g_payload(rng, strong=True)
        s2, e2, t2, a2 = g_payload(rng, strong=True)
        s3, e3, t3, a3 = g_payload(rng)
        s4, e4, t4, a4 = g_payload(rng, strong=True)
        if k % 5 == 3:
            # no DOCTYPE anywhere: the look-alikes / content kinds are the only thing unusual
            s1, e1, t1, s2, e2, t2, s4, e4, t4 = [], None, [T("plain")], [], None, [T("plain")], [], None, [T("plain")]
            a1, a2 = [], []
        tns = [("t", TNS)]
        if k % 3 == 0 and k % 5 != 3:
            s1 = [("gi", "tnsent", [T(TNS)])] + s1
            tns = [("r", "tnsent")]
        # location attribute: plain text most of the time (an entity reference may make the document ill-formed,
        # which is a legitimate outcome too)
        loc = [("t", "http://c20.invalid/svc")] + (a1 if k % 4 == 0 else [])
        name2 = [("t", "T")] + (a2 if k % 5 == 0 else [])
        with_inc = k % 4 == 2
        with_lookalikes = k % 5 in (0, 2, 3)
        n_lookalike_loads += with_lookalikes
        sx = g_lookalikes_schema(rng, pre) if with_lookalikes else ()
        dx = g_lookalikes_wsdl(rng, pre) if with_lookalikes and k % 2 else ()
        ix = g_lookalikes_schema(rng, pre) if with_lookalikes and k % 3 else ()
        wsdl = g_restyle(rng, mk_doc(s1, wsdl_body(t1, loc, tns, imp_url, w2_url if k % 3 == 1 else None,
                                                   inc_url if with_inc else None, sx, dx), ext=e1))
        xsd = g_restyle(rng, mk_doc(s2, xsd_body(t2, name2, extra=ix), ext=e2, public=True))
        w2 = g_restyle(rng, mk_doc(s3, wsdl2_body(t3), ext=e3))
        inc = g_restyle(rng, mk_doc(s4, xsd_body(t4, [("t", "U")], tns=TNS), ext=e4))
        decoy = mk_doc([], E("xsd:schema", [("xmlns:xsd", XSD_NS), ("targetNamespace", "urn:c20:decoy")],
                             E("xsd:element", [("name", "decoy~leak~"), ("type", "xsd:string")])))
        docs = {root_url: (wsdl, render_doc(wsdl, sysid_of)), imp_url: (xsd, render_doc(xsd, sysid_of)),
                w2_url: (w2, render_doc(w2, sysid_of)), inc_url: (inc, render_doc(inc, sysid_of)),
                pre + "decoy.xsd": (decoy, render_doc(decoy, sysid_of))}
        err = judge_load(docs, root_url, via, ctype, "client-load/%s/%s/%s" % (via, urlkind, ctype))
        if os.environ.get("C20_DEBUG") and err is not None:
            sys.stderr.write("client-load raised: %s\n" % err[:200])

    # ---- 5. multi-directory sites, location-less imports, histories of loads in one process ----
    # Every load is judged against ITS OWN named closure: references resolve against the URL of the
    # document that contains them, an import without a location names nothing, and what an earlier load
    # saw names nothing for a later one.  Decoy documents (marker content) are SERVED at every wrongly
    # resolved location, at every URL a namespace identifier would give and at every location an earlier
    # load used, so that a wrong fetch succeeds and shows.
    tables_before = class_level_tables()
    n_sites = 400 if thorough else 110
    history_locs = []
    for k in range(n_sites):
        site = g_site(rng, k, history_locs)
        via = "transport" if k % 3 else "store"
        err = judge_load(site["served"], site["root"], via, CT3[k % 3], "site/%s/%s" % (via, site["shape"]))
        history_locs.extend(x for x in site["locations"] if x not in history_locs)
        del history_locs[:-40]
        ck.count("site-" + ("ok" if err is None else "raised"))
        ck.count("site:" + site["shape"])
        if os.environ.get("C20_DEBUG") and err is not None:
            sys.stderr.write("site load raised (%s): %s\n" % (site["shape"], err[:200]))
    tables_after = class_level_tables()
    doc_strings = set(history_locs)
    retained = []
    for name, val in sorted(tables_after.items()):
        if tables_before.get(name) != val and any(x in val and x not in tables_before.get(name, "")
                                                   for x in doc_strings if len(x) > 6):
            retained.append(name)
    ck.extra["class_level_tables_changed_by_loads"] = sorted(
        n for n, v in tables_after.items() if tables_before.get(n) != v)
    ck.extra["class_level_tables_retaining_document_locations"] = retained

    ck.extra["client_loads_with_foreign_namespace_lookalikes"] = n_lookalike_loads

    ck.extra["transport_requests_outside_named_documents"] = len(load_requests_bad)
    ck.extra["named_document_fetches_observed"] = n_named_fetches

    # ---- evaluate ------------------------------------------------------------
    cases = []
    for o in outcomes:
        live = None
        for p in o.parsers:
            if p and p[0] is not None:
                live = p[0] if live is None else (live or p[0])
        o.live = live
        ev = []
        for e in o.events:
            if e[2] not in ev:
                ev.append(e[2])
        if o.hits and EV_NET not in ev:
            ev.append(EV_NET)
        o.ev = ev
        cases.append("(mkCase %s %s %s %s planted %s %s)" % (
            ENTRY_CTOR[o.entry], cbool(lib_default), cbool(lib_default if live is None else live),
            q_doc(o.doc), o.impl_term(), clist([cN(x) for x in ev], "sysid")))
        feats = doc_features(o.doc)
        ck.seen((o.entry, o.data), nontrivial=bool(feats & {"ext-ge", "ext-pe", "ext-subset", "xinclude-like"}))
        ck.count("entry:" + o.entry)
        ck.count("outcome:" + o.kind)
        ck.count("content:" + getattr(o, "ctype", "bytes"))
        if getattr(o, "urlkind", None):
            ck.count("url:" + o.urlkind)
        for f in sorted(feats):
            ck.count("doc:" + f)
    for i in (0, len(outcomes) // 3, len(outcomes) // 2, len(outcomes) - 1):
        o = outcomes[i]
        ck.sample({"entry": o.entry, "document": o.data.decode("utf-8")[:400], "outcome": o.kind,
                   "tree": repr(o.flat)[:300], "live_external_ges": o.live, "events": o.events[:4]})

    ck.extra["sax_parsers_created_via_make_parser"] = Rec.total_made
    ck.extra["sax_parses_observed"] = Rec.total_parses
    pre = PRE_HEAD + "\n" + q_planted()
    res = ck.run_cases("docs", pre, "case", cases, ["c20_flags_agree", "c20_agrees", "c20_spec_ok"], shard=150)
    # the loader model on what the store / transport was asked for
    lres = ck.run_cases("loads", "From SV Require Import Lib.Base C20.Loader.", "lcase", lcases,
                        ["load_agrees", "load_spec_ok"], shard=100)
    for i in lres["load_spec_ok"]:
        data, root_url, via, ctype, named, fetched, err = lmeta[i]
        if not any(b[2] == root_url and b[1] == data for b in load_requests_bad):
            load_requests_bad.append(([u for u in fetched if u not in named] or fetched, data, root_url, via, ctype,
                                      named, fetched))
    load_model_bad = [i for i in lres["load_agrees"] if i not in set(lres["load_spec_ok"])]
    for i in range(len(lcases)):
        ck.seen(("load", lmeta[i][0], lmeta[i][2], lmeta[i][3]), nontrivial=True)
    ck.count("loader-cases", len(lcases))

    # ---- verdicts --------------------------------------------------------------
    spec_bad = set(res["c20_spec_ok"])
    # Python-side: markers in further suds-level results, hits on the loopback server
    for i, o in enumerate(outcomes):
        if MARK in o.extra_text or (o.flat is not None and MARK in flat_text(o.flat)) or o.hits:
            spec_bad.add(i)
        sec = getattr(o, "second", None)
        if sec is not None and MARK in flat_text(sec):
            spec_bad.add(i)
    for i in sorted(spec_bad):
        o = outcomes[i]
        kind = "external-access" if (o.ev or o.hits) else "external-content"
        ck.failing_input(
            "C20:%s:%s" % (kind, o.entry),
            "parsing through %s %s: %s" % (
                o.entry,
                "reached outside the document" if kind == "external-access" else "included external content",
                "; ".join("%s %s" % (e[0], e[1]) for e in o.events[:3]) or "marker text in the result"),
            {"entry": o.entry, "document": o.data.decode("utf-8", "replace"), "base": WORLD.base, "port": WORLD.port,
             "content_type": getattr(o, "ctype", "bytes"), "url_kind": getattr(o, "urlkind", None),
             "events": [list(map(str, e)) for e in o.events[:10]],
             "live_external_ges": o.live, "tree": repr(o.flat)[:1000], "label": getattr(o, "label", ""),
             "how": "./check C20 --replay <this file>  (re-parses `document` through `entry` under the audit hook)"})
    for bad, data, root_url, via, ctype, named, fetched in load_requests_bad[:1]:
        ck.failing_input("C20:fetched-unnamed-document",
                         "loading a WSDL fetched %r through the %s: no {XSD}import/include or {WSDL}import of THIS load "
                         "names it (%d load(s) affected)%s" % (
                             bad[:3], via, len(load_requests_bad),
                             "; process-global table(s) retaining locations of earlier documents: %s" % ", ".join(retained)
                             if retained else ""),
                         {"entry": "client-load", "document": data.decode("utf-8", "replace"), "root_url": root_url,
                          "via": via, "content_type": ctype, "named": named, "fetched": fetched,
                          "history": first_bad_history if any(h["root_url"] == root_url for h in first_bad_history)
                          else [], "class_level_tables_retaining_locations": retained,
                          "base": WORLD.base, "port": WORLD.port})
    for o in outcomes:
        fp = getattr(o, "fetch_problem", None)
        if fp:
            ck.failing_input("C20:store-or-transport-bypassed:" + o.entry, "%s: %s" % (o.entry, fp),
                             {"entry": o.entry, "document": o.data.decode("utf-8", "replace"),
                              "content_type": getattr(o, "ctype", "bytes"), "url_kind": getattr(o, "urlkind", None),
                              "base": WORLD.base, "port": WORLD.port})
            break

    # A parser with the feature ON but a non-default EntityResolver is outside the model (what the resolver
    # returns is arbitrary code): such parses are judged by their observed effects only.
    opaque = set(i for i, o in enumerate(outcomes)
                 if any(p and p[0] and p[2] is False for p in o.parsers))
    ck.extra["parses_with_feature_on_and_custom_resolver"] = len(opaque)
    if opaque:
        ck.notes.append("%d parse(s) used a reader with external-general-entities ON and a custom EntityResolver: "
                        "the model does not apply to them, verdict by audited effects only" % len(opaque))
        for pr in ("c20_flags_agree", "c20_agrees"):
            res[pr] = [i for i in res[pr] if i not in opaque]
    unobserved = [o for o in outcomes if o.live is None
                  and not (getattr(o, "lenient", False) and o.kind == "raise")]
    ck.extra["parses_without_observed_sax_parser"] = len(unobserved)
    flags_bad = [i for i in res["c20_flags_agree"]]
    agree_bad = [i for i in res["c20_agrees"]
                 if not (getattr(outcomes[i], "lenient", False) and outcomes[i].kind == "raise")]
    ck.extra["str_content_rejected_by_implementation"] = sum(
        1 for o in outcomes if getattr(o, "lenient", False) and o.kind == "raise")
    if os.environ.get("C20_DEBUG"):
        with open(os.environ["C20_DEBUG"], "w") as f:
            for i in agree_bad:
                o = outcomes[i]
                f.write("%s | %s | %s | %s | %s\n  %s\n" % (o.entry, getattr(o, "label", ""), o.kind, o.exc,
                                                          o.data.decode(), o.flat))
    ck.extra["live_flag_values"] = sorted(set(str(o.live) for o in outcomes))
    ck.extra["custom_entity_resolver_seen"] = any(p and p[2] is False for o in outcomes for p in o.parsers)
    if not spec_bad:
        if not proof_ok:
            ck.unproved("coq/C20/Props.v does not check: " + ck.proof_log[-400:], {"log": ck.proof_log})
        if unobserved:
            o = unobserved[0]
            ck.unproved("%d parse(s) did not go through an xml.sax expat reader the harness can read flags from "
                        "(first: %s): the funnel through Parser.saxparser is no longer what the code does"
                        % (len(unobserved), o.entry),
                        {"entry": o.entry, "document": o.data.decode("utf-8")})
        elif flags_bad:
            o = outcomes[flags_bad[0]]
            ck.unproved("the parser instance used by %s has external_ges=%r, the model of Parser.saxparser says off "
                        "(%d cases); no document was found on which this has an effect"
                        % (o.entry, o.live, len(flags_bad)),
                        {"entry": o.entry, "document": o.data.decode("utf-8"), "live_external_ges": o.live})
        elif load_model_bad and not load_requests_bad:
            data, root_url, via, ctype, named, fetched, err = lmeta[load_model_bad[0]]
            ck.unproved("a successful load fetched %r, the loader model says exactly %r (%d load(s))"
                        % (fetched, named, len(load_model_bad)),
                        {"entry": "client-load", "document": data.decode("utf-8", "replace"), "root_url": root_url,
                         "via": via, "content_type": ctype, "base": WORLD.base, "port": WORLD.port})
        elif agree_bad:
            o = outcomes[agree_bad[0]]
            ck.unproved("model and implementation disagree on the parsed tree / outcome for %d document(s) "
                        "(first through %s: impl %s)" % (len(agree_bad), o.entry, o.kind),
                        {"entry": o.entry, "document": o.data.decode("utf-8"), "impl": o.kind,
                         "tree": repr(o.flat)[:1500], "exc": o.exc, "coq_case": cases[agree_bad[0]][:6000]})
    elif not proof_ok:
        ck.unproved("coq/C20/Props.v does not check: " + ck.proof_log[-400:], {"log": ck.proof_log})

    ck.rule = ("grid: every construct of the quantifier (external general entity in text / attribute / nested / "
               "inside an entity's element attribute, external parameter entity referenced / nested / declaring "
               "entities, external subset SYSTEM / PUBLIC / standalone, ATTLIST defaults, NDATA, xi:include, "
               "xsi:schemaLocation) x 13 system identifiers (file://, http:// live and dead, relative, ../, ftp, "
               "https; planted with marker text or missing) x entry points; random documents from the AST grammar "
               "(nested entities to depth 3, parameter entities to depth 2, recursive / undefined / unbalanced "
               "cases); SOAP replies and WSDL + imported XSD + imported WSDL with random DTD payloads through "
               "Client(...) over a DocumentStore and over a transport, with foreign-namespace / misplaced import and "
               "include look-alikes; multi-directory sites (relative include / import / wsdl:import chains across "
               "directories, imports without a location, decoys served at every wrongly resolved location, at every "
               "URL a namespace would give and at every location an earlier load used) loaded one after another in "
               "this process, each judged against its own named closure (computed by an independent namespace-aware "
               "parse and by the Coq loader model).  Every document in model-irrelevant surface variants (XML "
               "declaration version / encoding / standalone yes|no|absent, BOM, comments, 70 KB padding), handed over "
               "as bytes / bytearray / memoryview / str under suds://, http://, file:// and loopback URLs with decoy "
               "content at the real location.  distinct = distinct (entry point, document "
               "bytes); non-trivial = the document names at least one external identifier")


def replay(ck, payload):
    global WORLD
    suds = common.force_repo_path()
    import suds.client   # noqa
    import suds.cache    # noqa
    import logging
    logging.getLogger("suds").addHandler(logging.NullHandler())
    WORLD = World()
    WORLD.start()
    install_instrumentation()
    try:
        text = payload["document"]
        if payload.get("base"):
            text = text.replace(payload["base"], WORLD.base)
        if payload.get("port"):
            text = text.replace("127.0.0.1:%s/" % payload["port"], "127.0.0.1:%d/" % WORLD.port)
        data = text.encode("utf-8")
        entry = payload.get("entry", "parse-string")
        doc = None
        ctype = payload.get("content_type") or "bytes"
        urlkind = payload.get("url_kind")
        if entry == "parse-file":
            o = run_parse_file(suds, doc, data, ctype if ctype in FILE_KINDS else "real-file")
        elif entry == "doccache-get":
            o = run_doccache_get(suds, doc, data)
        elif entry == "client-reply" and ctype != "bytes":
            o = run_client_send(suds, doc, data, ctype)
        elif entry in ("client-reply", "client-msg"):
            c, cap = make_reply_client(suds)
            o = (run_client_reply if entry == "client-reply" else run_client_msg)(suds, c, cap, doc, data)
        elif entry.startswith("reader-"):
            o = run_reader(suds, doc, data, entry.split("-", 1)[1], ctype if ctype in CTYPES else "bytes", urlkind)
        elif entry == "client-load" and payload.get("history"):
            # the loads of the history, in order, in this one process; the LAST one is judged against its own closure
            def fix(t):
                t = t.replace(payload.get("base") or "\0", WORLD.base)
                if payload.get("port"):
                    t = t.replace("127.0.0.1:%s/" % payload["port"], "127.0.0.1:%d/" % WORLD.port)
                return t
            hist = payload["history"]
            k = max(i for i, h in enumerate(hist) if h["root_url"] == payload["root_url"])
            o = None
            for h in hist[:k + 1]:
                docs = {fix(u): (None, fix(t).encode("utf-8")) for u, t in h["documents"].items()}
                root_url = fix(h["root_url"])
                ct = h.get("content_type", "bytes")
                outs, requested, err, cap, ctx = run_client_load(suds, docs, root_url, h.get("via", "store"),
                                                                 ct if ct in CTYPES else "bytes")
                named = named_closure(docs, root_url)
                fetched = [str(u) for u in cap.loaded] + [str(u) for u in requested if u not in cap.loaded]
                print("load %s: named %r" % (root_url, named))
                print("   fetched %r%s" % (fetched, "" if err is None else "  (raised %s)" % err[:120]))
                o = Outcome("client-load", None, docs[root_url][1])
                o.kind, o.exc = ("doc" if err is None else "raise"), err
                o.flat = outs[0].flat if outs else None
                o.events, o.hits, o.parsers = ctx.events, ctx.hits, ctx.parsers
                extra = [u for u in fetched if u not in named]
                if extra:
                    o.fetch_problem = "fetched %r, which nothing in this load names" % (extra,)
            text = fix(payload["document"])
        elif entry == "client-load" and payload.get("root_url"):
            # a single-document load through the same store / transport set-up
            root_url = payload["root_url"].replace(payload.get("base") or "\0", WORLD.base)
            if payload.get("port"):
                root_url = root_url.replace("127.0.0.1:%s/" % payload["port"], "127.0.0.1:%d/" % WORLD.port)
            docs = {root_url: (None, data)}
            outs, requested, err, cap, ctx = run_client_load(suds, docs, root_url, payload.get("via", "store"),
                                                             ctype if ctype in CTYPES else "bytes")
            o = Outcome("client-load", None, data)
            o.kind, o.exc = ("doc" if err is None else "raise"), err
            o.flat = outs[0].flat if outs else None
            o.events, o.hits, o.parsers = ctx.events, ctx.hits, ctx.parsers
            named = named_closure(docs, root_url)
            fetched = list(cap.loaded) + [u for u in requested if u not in cap.loaded]
            extra = [u for u in fetched if u not in named]
            print("named documents:", named)
            print("fetched through store / transport:", fetched)
            if extra:
                o.fetch_problem = "fetched %r, which no import / include names" % (extra,)
        else:
            o = run_parse_string(suds, doc, data, ctype if ctype in CTYPES else "bytes")
        print("entry:", entry)
        print("document (system identifiers re-pointed at this run's planted resources):", text[:2000])
        print("outcome:", o.kind, o.exc or "")
        print("tree:", o.flat)
        print("parser flags (external_ges, external_pes, default resolver, class):", o.parsers)
        print("audit events outside the allowed set:", o.events)
        print("loopback server hits:", o.hits)
        print("content handed over as:", ctype, " url kind:", urlkind)
        if getattr(o, "fetch_problem", None):
            print("store / transport:", o.fetch_problem)
        bad = bool(o.events or o.hits or (o.flat and MARK in flat_text(o.flat)) or getattr(o, "fetch_problem", None))
        print("property C20 on this input:", "VIOLATED" if bad else "holds")
        return 1 if bad else 0
    finally:
        Rec.enabled = False
        WORLD.stop()
