"""Shared machinery for the suds proof-based checks.

Every per-property harness (harness/cXX.py) defines  run(ck)  taking a Check
object.  The Check object provides:

  * table regeneration  (ck.write_gen)            -> coq/Gen/<Name>.v
  * the proof step      (ck.prove)                -> make + forced coqc of
                                                      coq/<PID>/Props.v, parsing
                                                      `Print Assumptions`
  * correspondence      (ck.run_cases)            -> coq/Cases/<pid>_<k>.v shards,
                                                      `vm_compute`d in parallel
  * the verdict         (ck.fail / ck.known / ck.finish) with the VIOLATION /
    KNOWN-FINDING protocol and the evidence file.

Nothing in here imports suds; the per-property harnesses do, after
force_repo_path().
"""
import hashlib
import json
import os
import random
import re
import subprocess
import sys
import time

VERIF = os.path.dirname(os.path.dirname(os.path.abspath(__file__)))
COQ = os.path.join(VERIF, "coq")
REPO = os.environ.get("SUDS_REPO", "/repo")
EVIDENCE = os.path.join(VERIF, "evidence")
REPLAYS = os.path.join(VERIF, "replays")
# VERIF_KNOWN_FILE: development aid only (try proposed entries from a scratch copy);
# registered commands never set it.
KNOWN_FILE = os.environ.get("VERIF_KNOWN_FILE") or os.path.join(VERIF, "KNOWN_FINDINGS.json")
NCPU = int(os.environ.get("VERIF_JOBS", "16"))

FORBIDDEN = re.compile(
    r"\b(Admitted|admit|Axiom|Axioms|Parameter|Parameters|Conjecture|"
    r"Admit Obligations|bypass_check|Unset Guard Checking|"
    r"Unset Positivity Checking|Unset Universe Checking|type-in-type|"
    r"impredicative-set)\b")


def force_repo_path():
    """Make `import suds` resolve to /repo's working tree and verify it."""
    os.environ.setdefault("PYTHONHASHSEED", "0")
    for p in (os.path.join(REPO, "tests"), REPO):
        if p in sys.path:
            sys.path.remove(p)
        sys.path.insert(0, p)
    import suds
    f = os.path.abspath(suds.__file__)
    if not f.startswith(os.path.abspath(REPO) + os.sep):
        raise SystemExit("suds imported from %s, not from %s" % (f, REPO))
    return suds


# ----------------------------------------------------------------------------
# Coq literal printers
# ----------------------------------------------------------------------------

def cZ(n):
    return "(%d)%%Z" % n


def cN(n):
    assert n >= 0
    return "%d%%N" % n


def cnat(n):
    assert 0 <= n < 5000, n
    return "%d%%nat" % n


def cbool(b):
    return "true" if b else "false"


def cstr(s):
    """A Python str as a Coq `list N` of code points."""
    if not s:
        return "(@nil N)"
    return "[" + ";".join(str(ord(c)) for c in s) + "]%N"


def cbytes(b):
    if not b:
        return "(@nil N)"
    return "[" + ";".join(str(x) for x in b) + "]%N"


def clist(items, ty=None):
    items = list(items)
    if not items:
        return "(@nil (%s))" % ty if ty else "[]"
    return "[" + "; ".join(items) + "]"


def copt(x, ty=None):
    if x is None:
        return "(@None (%s))" % ty if ty else "None"
    return "(Some %s)" % x


def cpair(*xs):
    return "(" + ", ".join(xs) + ")"


def capp(ctor, *args):
    return "(" + " ".join((ctor,) + tuple(args)) + ")"


# ----------------------------------------------------------------------------
# running Coq
# ----------------------------------------------------------------------------

def sh(cmd, timeout=900, cwd=None, env=None):
    try:
        p = subprocess.run(cmd, shell=isinstance(cmd, str), cwd=cwd, env=env,
                           stdout=subprocess.PIPE, stderr=subprocess.STDOUT,
                           timeout=timeout)
        return p.returncode, p.stdout.decode("utf-8", "replace")
    except subprocess.TimeoutExpired as e:
        out = (e.stdout or b"").decode("utf-8", "replace")
        return 124, out + "\n[timeout after %ss]" % timeout


def coq_project_files():
    fs = []
    for root, dirs, files in os.walk(COQ):
        dirs[:] = sorted(d for d in dirs if d not in ("Cases",) and not d.startswith("."))
        for f in sorted(files):
            if f.endswith(".v") and not f.startswith("."):
                fs.append(os.path.relpath(os.path.join(root, f), COQ))
    return fs


def write_if_changed(path, text):
    try:
        with open(path) as f:
            if f.read() == text:
                return False
    except OSError:
        pass
    os.makedirs(os.path.dirname(path), exist_ok=True)
    with open(path, "w") as f:
        f.write(text)
    return True


def refresh_makefile():
    """Keeps a _CoqProject for tooling (coq_makefile / IDEs); the build itself
    is done by build() below, which is safe against concurrent runs."""
    files = coq_project_files()
    proj = "-Q . SV\n-arg -w -arg -all\n" + "\n".join(files) + "\n"
    write_if_changed(os.path.join(COQ, "_CoqProject"), proj)


def _coqdep(files):
    rc, out = sh(["coqdep", "-Q", ".", "SV"] + files, cwd=COQ, timeout=300)
    deps = {}
    for line in out.splitlines():
        if ":" not in line or ".vo" not in line:
            continue
        lhs, rhs = line.split(":", 1)
        tgt = [t for t in lhs.split() if t.endswith(".vo")]
        if not tgt:
            continue
        src = tgt[0][:-1]
        deps[src] = [d[:-1] for d in rhs.split() if d.endswith(".vo")]
    return deps


def build(targets, timeout=1500):
    """Full .vo build (coqc, never -vos) of the given .v files (relative to
    coq/) and everything they depend on; out-of-date files only; parallel;
    serialised across processes with a lock file.  targets=[] builds all."""
    import fcntl
    from concurrent.futures import ThreadPoolExecutor
    refresh_makefile()
    files = coq_project_files()
    t_end = time.time() + timeout
    with open(os.path.join(COQ, ".buildlock"), "w") as lk:
        fcntl.flock(lk, fcntl.LOCK_EX)
        deps = _coqdep(files)
        want = set()

        def add(f):
            if f in want:
                return
            want.add(f)
            for d in deps.get(f, []):
                add(d)
        for t in (targets or files):
            add(t)
        done, log = set(), []
        rebuilt = set()

        def stale(f):
            vo = os.path.join(COQ, f + "o")
            if not os.path.exists(vo):
                return True
            m = os.path.getmtime(vo)
            if os.path.getmtime(os.path.join(COQ, f)) > m:
                return True
            return any(d in rebuilt or os.path.getmtime(os.path.join(COQ, d + "o")) > m
                       for d in deps.get(f, []))

        def comp(f):
            return f, sh(["coqc", "-w", "-all", "-Q", ".", "SV", f], cwd=COQ,
                         timeout=max(10, t_end - time.time()))
        while len(done) < len(want):
            ready = [f for f in want - done if all(d in done for d in deps.get(f, []) if d in want)]
            if not ready:
                return 1, "dependency cycle among " + ", ".join(sorted(want - done))
            todo = [f for f in ready if stale(f)]
            for f in ready:
                if f not in todo:
                    done.add(f)
            if todo:
                with ThreadPoolExecutor(max_workers=NCPU) as ex:
                    for f, (rc, out) in ex.map(comp, todo):
                        if rc != 0:
                            return rc, "coqc %s failed:\n%s" % (f, out[-5000:])
                        rebuilt.add(f)
                        done.add(f)
                        log.append(f)
        return 0, "built: " + (" ".join(log) if log else "(up to date)")


def make(targets, timeout=1500):
    return build([t[:-1] if t.endswith(".vo") else t for t in targets], timeout=timeout)


def coqc(relpath, timeout=600):
    return sh(["coqc", "-w", "-all", "-Q", ".", "SV", relpath], cwd=COQ, timeout=timeout)


class _Slot(object):
    """A machine-wide pool of NCPU slots (lock files) so that several checks
    running at the same time never have more than NCPU coqc processes in
    total; also caps each coqc's address space so that a runaway shard fails
    instead of exhausting the machine."""
    DIR = os.path.join(COQ, ".slots")

    @staticmethod
    def try_acquire():
        """Non-blocking: a locked slot file, or None when all are taken."""
        import fcntl
        os.makedirs(_Slot.DIR, exist_ok=True)
        for k in range(NCPU):
            f = open(os.path.join(_Slot.DIR, "slot%d" % k), "w")
            try:
                fcntl.flock(f, fcntl.LOCK_EX | fcntl.LOCK_NB)
                return f
            except OSError:
                f.close()
        return None

    @staticmethod
    def limits():
        import resource
        lim = int(os.environ.get("VERIF_COQC_MEM_GB", "6")) * (1 << 30)
        try:
            resource.setrlimit(resource.RLIMIT_AS, (lim, lim))
        except (ValueError, OSError):
            pass


_ws = re.compile(r"\s+")


def parse_nat_lists(out):
    """All `= [..] : list nat` results printed by Eval, in order."""
    res = []
    for m in re.finditer(r"=\s*(\[[^\]]*\]|nil)\s*:\s*list nat", out, re.S):
        body = m.group(1)
        if body == "nil" or body.strip("[] \n") == "":
            res.append([])
        else:
            res.append([int(x) for x in _ws.sub("", body.strip("[]")).split(";") if x])
    return res


# ----------------------------------------------------------------------------
# known findings
# ----------------------------------------------------------------------------

def load_known():
    try:
        with open(KNOWN_FILE) as f:
            return json.load(f)
    except OSError:
        return {"findings": []}


# ----------------------------------------------------------------------------
# The Check object
# ----------------------------------------------------------------------------

class Check(object):
    def __init__(self, pid, tier="quick", seed=None):
        self.pid = pid
        self.tier = tier
        if seed is None:
            seed = int(os.environ.get("VERIF_SEED", "20260930"))
        self.seed = seed
        self.rng = random.Random("%s/%d" % (pid, seed))
        self.t0 = time.time()
        self.evaluations = 0
        self.nontrivial = set()
        self.samples = []
        self.dist = {}
        self.obligations = []      # theorem names expected
        self.discharged = []
        self.trusted = []
        self.assumptions = []
        self.violations = []       # (key, what, replay_path, nofail)
        self.known_seen = {}       # key -> what
        self.notes = []
        self.rule = ""
        self.checker_cmd = ""
        self.exhaustive = False
        self.extra = {}
        self.proof_ok = None
        self.traces = 0
        known = load_known()
        self.known = {f["key"]: f for f in known.get("findings", [])
                      if f.get("property") == pid and f.get("status", "known") == "known"}

    # -------- bookkeeping
    def count(self, bucket, n=1):
        self.dist[bucket] = self.dist.get(bucket, 0) + n

    def sample(self, s, limit=6):
        if len(self.samples) < limit:
            self.samples.append(s)

    def seen(self, key, nontrivial=True):
        """Record one evaluated case; `key` identifies it for distinctness."""
        self.evaluations += 1
        if nontrivial:
            self.nontrivial.add(hashlib.blake2b(repr(key).encode("utf-8", "replace"),
                                                digest_size=8).digest())

    # -------- tables
    def write_gen(self, name, text):
        path = os.path.join(COQ, "Gen", name + ".v")
        return write_if_changed(path, text)

    # -------- proof step
    def prove(self, expected, props="Props.v", timeout=1500):
        """Build coq/<pid>/<props> (full .vo build), re-run it to capture
        Print Assumptions, and check the expected theorem names.
        Returns True when every obligation was discharged."""
        self.obligations = list(expected)
        rel = "%s/%s" % (self.pid, props)
        self.checker_cmd = ("cd /verif && ./check setup && cd coq && coqc -Q . SV %s   "
                            "(full .vo build of the file and its dependencies with coqc; "
                            "Print Assumptions under every theorem)" % rel)
        # forbidden constructs anywhere in the development
        bad = []
        for f in coq_project_files():
            with open(os.path.join(COQ, f), encoding="utf-8") as fh:
                txt = re.sub(r"\(\*.*?\*\)", "", fh.read(), flags=re.S)
            for m in FORBIDDEN.finditer(txt):
                bad.append("%s: %s" % (f, m.group(0)))
        if bad:
            self.proof_ok = False
            self.proof_log = "forbidden constructs: " + "; ".join(bad[:10])
            return False
        rc, out = make([rel + "o"], timeout=timeout)
        if rc != 0:
            self.proof_ok = False
            self.proof_log = out[-6000:]
            return False
        rc, out = coqc(rel, timeout=timeout)
        if rc != 0:
            self.proof_ok = False
            self.proof_log = out[-6000:]
            return False
        with open(os.path.join(COQ, rel), encoding="utf-8") as fh:
            src = re.sub(r"\(\*.*?\*\)", "", fh.read(), flags=re.S)
        stated = re.findall(r"\b(?:Theorem|Lemma|Corollary)\s+([A-Za-z0-9_']+)", src)
        missing = [t for t in expected if t not in stated]
        # Print Assumptions blocks
        closed = out.count("Closed under the global context")
        axioms = []
        for m in re.finditer(r"Axioms:\n(.*?)(?=\n\S|\Z)", out, re.S):
            for line in m.group(1).splitlines():
                mm = re.match(r"\s*([A-Za-z0-9_.']+)\s*:", line)
                if mm:
                    axioms.append(mm.group(1))
        section_vars = re.findall(r"Section Variables:\n(.*?)(?=\n\S|\Z)", out, re.S)
        self.assumptions = sorted(set(axioms))
        n_print = len(re.findall(r"\bPrint Assumptions\b", src))
        self.extra["print_assumptions"] = {"printed": n_print, "closed": closed,
                                           "axioms": self.assumptions}
        if missing:
            self.proof_ok = False
            self.proof_log = "theorems missing from %s: %s" % (rel, missing)
            return False
        if n_print < len(expected):
            self.proof_ok = False
            self.proof_log = "fewer Print Assumptions than theorems in %s" % rel
            return False
        if self.tier == "thorough" and not os.environ.get("VERIF_NO_COQCHK"):
            # independent re-check of the compiled theorem file and everything it
            # depends on (standard library included), with the axiom summary
            lib = "SV.%s.%s" % (self.pid, props[:-2])
            rc, out = sh("ulimit -s unlimited 2>/dev/null; coqchk -silent -o -Q . SV %s" % lib,
                         timeout=3000, cwd=COQ)
            summary = out[out.find("CONTEXT SUMMARY"):] if "CONTEXT SUMMARY" in out else out[-1500:]
            self.extra["coqchk"] = {"cmd": "cd /verif/coq && coqchk -silent -o -Q . SV %s" % lib,
                                    "exit": rc, "summary": summary.strip()[:3000]}
            if rc != 0:
                self.proof_ok = False
                self.proof_log = "coqchk rejected %s: %s" % (lib, out[-2000:])
                return False
        self.discharged = list(expected)
        self.proof_ok = True
        self.proof_log = ""
        return True

    # -------- correspondence step
    _built_preambles = set()

    def _build_imports(self, preamble):
        """Full .vo build of every SV module a case preamble imports (and of what they depend
        on): a module used only by case shards is not a dependency of Props.v, so the proof
        step alone does not keep it up to date."""
        if preamble in Check._built_preambles:
            return
        mods = []
        for m in re.finditer(r"From\s+SV\s+Require\s+(?:Import|Export)\s+(.*?)\.(?=\s|$)", preamble, re.S):
            mods += m.group(1).split()
        for m in re.finditer(r"(?<!SV\s)Require\s+(?:Import|Export)\s+(.*?)\.(?=\s|$)", preamble, re.S):
            mods += [x[3:] for x in m.group(1).split() if x.startswith("SV.")]
        targets = []
        for mod in mods:
            rel = mod.replace(".", "/") + ".v"
            if os.path.exists(os.path.join(COQ, rel)) and rel not in targets:
                targets.append(rel)
        if targets:
            rc, out = build(targets, timeout=1500)
            if rc != 0:
                raise RuntimeError("could not build the modules the case files import: %s" % out[-2000:])
        Check._built_preambles.add(preamble)

    def run_cases(self, name, preamble, case_type, cases, preds, shard=400,
                  timeout=900, keep=False):
        """cases: list of Coq terms of type `case_type`; preds: list of Coq
        terms of type `case_type -> bool` (true = fine).  Returns a dict
        pred -> sorted list of failing case indexes.  Raises RuntimeError when
        Coq rejects a shard (a harness bug or a broken model)."""
        cdir = os.path.join(COQ, "Cases")
        os.makedirs(cdir, exist_ok=True)
        self._build_imports(preamble)
        files = []
        for k in range(0, len(cases), shard):
            chunk = cases[k:k + shard]
            lines = [preamble, "Import ListNotations.",
                     "Definition cases : list (nat * (%s)) := [" % case_type]
            lines.append(";\n".join("(%d%%nat, %s)" % (i, c) for i, c in enumerate(chunk)))
            lines.append("].")
            lines.append("Definition bad (f : (%s) -> bool) := "
                         "map fst (filter (fun c => negb (f (snd c))) cases)." % case_type)
            for p in preds:
                lines.append("Eval vm_compute in (bad (%s))." % p)
            fn = "%s_%s_%d.v" % (self.pid, name, k // shard)
            with open(os.path.join(cdir, fn), "w") as f:
                f.write("\n".join(lines) + "\n")
            files.append((k, fn))
        procs = []
        results = {p: [] for p in preds}
        pending = list(files)
        running = []
        errors = []

        def reap(block):
            for item in list(running):
                k, fn, p, t, slot = item
                if p.poll() is None:
                    if time.time() - t > timeout:
                        p.kill()
                        slot.close()
                        errors.append((fn, "timeout"))
                        running.remove(item)
                    continue
                out = p.stdout.read().decode("utf-8", "replace")
                slot.close()
                running.remove(item)
                if p.returncode != 0:
                    errors.append((fn, out[-3000:]))
                    continue
                lists = parse_nat_lists(out)
                if len(lists) != len(preds):
                    errors.append((fn, "could not parse Coq output:\n" + out[-3000:]))
                    continue
                for pr, l in zip(preds, lists):
                    results[pr].extend(k + i for i in l)
                if not keep:
                    base = os.path.join(cdir, fn[:-2])
                    for ext in (".v", ".vo", ".vok", ".vos", ".glob"):
                        try:
                            os.remove(base + ext)
                        except OSError:
                            pass
                    try:
                        os.remove(os.path.join(cdir, "." + fn[:-2] + ".aux"))
                    except OSError:
                        pass

        while pending or running:
            while pending and len(running) < NCPU:
                slot = _Slot.try_acquire()
                if slot is None:
                    break            # never wait while holding slots: reap first
                k, fn = pending.pop(0)
                p = subprocess.Popen(["coqc", "-w", "-all", "-Q", ".", "SV", "Cases/" + fn],
                                     cwd=COQ, stdout=subprocess.PIPE, stderr=subprocess.STDOUT,
                                     preexec_fn=_Slot.limits)
                running.append((k, fn, p, time.time(), slot))
            reap(False)
            time.sleep(0.02)
        if errors:
            raise RuntimeError("Coq rejected case shard %s:\n%s" % errors[0])
        for p in preds:
            results[p].sort()
        return results

    def coq_eval(self, preamble, exprs, timeout=300):
        """Evaluate expressions with vm_compute; returns raw output (debug /
        replay files)."""
        cdir = os.path.join(COQ, "Cases")
        os.makedirs(cdir, exist_ok=True)
        fn = "%s_eval_%d.v" % (self.pid, os.getpid())
        with open(os.path.join(cdir, fn), "w") as f:
            f.write(preamble + "\nImport ListNotations.\n")
            for e in exprs:
                f.write("Eval vm_compute in (%s).\n" % e)
        rc, out = coqc("Cases/" + fn, timeout=timeout)
        base = os.path.join(cdir, fn[:-2])
        for ext in (".v", ".vo", ".vok", ".vos", ".glob"):
            try:
                os.remove(base + ext)
            except OSError:
                pass
        return rc, out

    # -------- verdicts
    def write_replay(self, tag, payload):
        os.makedirs(REPLAYS, exist_ok=True)
        h = hashlib.sha1(json.dumps(payload, sort_keys=True, default=repr).encode()).hexdigest()[:10]
        path = os.path.join(REPLAYS, "%s-%s-%s.json" % (self.pid, tag, h))
        payload = dict(payload)
        payload.setdefault("property", self.pid)
        payload.setdefault("seed", self.seed)
        payload.setdefault("tier", self.tier)
        payload.setdefault("replay_cmd", "./check %s --replay %s" % (self.pid, path))
        with open(path, "w") as f:
            json.dump(payload, f, indent=1, default=repr, ensure_ascii=True)
        return path

    def failing_input(self, key, what, payload):
        """The implementation violates the spec on a concrete input.
        `key` is the finding class; listed keys are KNOWN-FINDINGs."""
        if key in self.known:
            self.known_seen.setdefault(key, self.known[key].get("what", what))
            return
        for v in self.violations:
            if v[0] == key:
                return
        p = dict(payload)
        p["finding_class"] = key
        p["what"] = what
        path = self.write_replay("fail", p)
        self.violations.append((key, what, path, False))

    def unproved(self, what, payload):
        """A proof obligation or the correspondence no longer checks and the
        search found no failing input."""
        p = dict(payload)
        p["what"] = what
        p["kind"] = "no-failing-input-found"
        path = self.write_replay("unproved", p)
        self.violations.append(("unproved", what, path, True))

    def finish(self, level="proof"):
        wall = time.time() - self.t0
        # a table the translator could not regenerate from the current source: the theorems stated
        # over it are no longer checked against the code (the run used the baseline table)
        try:
            from tools import gen_tables
            for name, why in gen_tables.FAILURES:
                self.unproved("table %s could not be regenerated from the current source (%s): the theorems "
                              "stated over it are not re-checked against this code; the correspondence run "
                              "used the baseline table" % (name, why), {"table": name, "reason": why})
            if gen_tables.FAILURES:
                self.extra["tables_not_regenerated"] = [list(x) for x in gen_tables.FAILURES]
        except ImportError:
            pass
        # a known finding must be re-observed to be printed
        for key, what in sorted(self.known_seen.items()):
            print("KNOWN-FINDING: property=%s %s [%s]" % (self.pid, what, key))
        # failing inputs take precedence over "unproved"
        real = [v for v in self.violations if not v[3]]
        shown = real if real else self.violations
        for key, what, path, nofail in shown:
            if nofail:
                print("VIOLATION property=%s replay=%s no-failing-input-found" % (self.pid, path))
            else:
                print("VIOLATION property=%s replay=%s" % (self.pid, path))
            print("  (%s)" % what)
        cov = {
            "obligations": len(self.obligations),
            "discharged": len(self.discharged),
            "obligation_names": self.obligations,
            "checker_cmd": self.checker_cmd or "n/a",
            "trusted_base": self.trusted + ["Print Assumptions: " + (
                ", ".join(self.assumptions) if self.assumptions else
                "Closed under the global context (every theorem of the Props file)")],
            "evaluations": self.evaluations,
            "distinct_nontrivial": len(self.nontrivial),
            "rule": self.rule,
            "samples": self.samples or ["(none)"],
            "distribution": self.dist,
            "traces_validated_against_impl": self.traces or self.evaluations,
            "exhaustive": bool(self.exhaustive),
            "known_findings_reobserved": sorted(self.known_seen),
        }
        cov.update(self.extra)
        ev = {
            "property_id": self.pid,
            "tier": self.tier,
            "seed": self.seed,
            "level": level,
            "coverage": cov,
            "assumptions": self.notes,
            "wall_s": round(wall, 2),
            "violations": len(shown),
        }
        os.makedirs(EVIDENCE, exist_ok=True)
        with open(os.path.join(EVIDENCE, self.pid + ".json"), "w") as f:
            json.dump(ev, f, indent=1, default=repr)
        if shown:
            print("%s: FAILED (%d violation(s)); %d evaluations, %.1fs"
                  % (self.pid, len(shown), self.evaluations, wall))
            return 1
        print("%s: ok — %d/%d obligations discharged, %d evaluations (%d distinct non-trivial), %.1fs"
              % (self.pid, len(self.discharged), len(self.obligations),
                 self.evaluations, len(self.nontrivial), wall))
        return 0
