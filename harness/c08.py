"""C08 - Call arguments bind to parameters like Python arguments, or fail loudly.

Proof: coq/C08/Props.v (the model of suds/argparser.py meets the executable
specification for EVERY parameter tree of any width and depth, every argument
vector and both settings of extraArgumentErrors: counts, rejection iff a
reason exists, the reason reported is a real one, callbacks once and in order).
Tie to the code:
  * suds.argparser.parse_args driven directly with mock ancestry objects over
    exhaustive / sampled parameter structures and argument vectors, the
    implementation's result + callback log printed into Coq cases and compared
    with the model (parse_agrees) and judged by the spec (parse_spec_ok);
  * real document/literal clients built from WSDLs rendered from the same
    structures: call styles, TypeError text, nothing sent on rejection,
    unwrap on/off, and the rpc bindings (which do not use the parser).
"""
import functools
import re

from . import common
from .common import cbool

THEOREMS = [
    "model_meets_spec", "counts_correct", "reject_iff", "reject_reason_sound", "positional_given",
    "reject_depends_on_definedness_only", "must_reject_depends_on_definedness_only",
    "no_reject_when_off", "callback_once_in_order", "call_styles_equal", "request_carries_bound_values",
    "rpc_binds_like_python_partial", "rpc_reject_refuted",
]

PRE = "From SV Require Import Lib.Base C08.Model."

UNKNOWN_BASE = 100      # interned ids of keyword names that are not parameters: u1 -> 101 ...


# ---------------------------------------------------------------------------
# parameter structures
#   shape : "L" | ("N", is_choice, (shape, ...))
#   tree  : ("L", name, optional) | ("N", id, is_choice, [tree, ...], tag)
# ---------------------------------------------------------------------------

@functools.lru_cache(None)
def shapes(n, d):
    """All shapes with exactly n leaves and container nesting <= d."""
    out = []
    if n == 1:
        out.append("L")
    if d > 0:
        for f in forests(n, d - 1):
            for ch in (False, True):
                out.append(("N", ch, f))
    return tuple(out)


@functools.lru_cache(None)
def forests(n, d):
    out = []
    for k in range(1, n + 1):
        for t in shapes(k, d):
            if k == n:
                out.append((t,))
            else:
                for rest in forests(n - k, d):
                    out.append((t,) + rest)
    return tuple(out)


def canonical(shape):
    """No container whose only member is a container (single-child chains only
    repeat pushes/pops of frames; they are covered exhaustively at <= 3 leaves)."""
    if shape == "L":
        return True
    kids = shape[2]
    if len(kids) == 1 and kids[0] != "L":
        return False
    return all(canonical(k) for k in kids)


def random_shape(rng, n, d):
    """A random shape with n leaves, nesting <= d (d >= 1 when n > 1)."""
    if n == 1 and (d == 0 or rng.random() < 0.75):
        return "L"
    if d == 0:
        raise ValueError
    # split n leaves over k kids
    k = rng.randint(1, n) if d > 1 else n
    if k == 1 and n > 1 and d == 1:
        k = n
    cuts = sorted(rng.sample(range(1, n), k - 1)) if k > 1 else []
    sizes = [b - a for a, b in zip([0] + cuts, cuts + [n])]
    kids = []
    for s in sizes:
        if d == 1:
            kids.extend(["L"] * s)
        else:
            kids.append(random_shape(rng, s, d - 1))
    return ("N", rng.random() < 0.5, tuple(kids))


def instantiate(shape, marks, tags=None):
    """Number leaves 1.. and containers 1.. in document (pre)order; marks[i] is
    the optional flag of leaf i.  tags: optional iterator of 'sequence'/'all'
    for non-choice containers."""
    cnt = {"leaf": 0, "node": 0}

    def go(s):
        if s == "L":
            cnt["leaf"] += 1
            return ("L", cnt["leaf"], bool(marks[cnt["leaf"] - 1]))
        cnt["node"] += 1
        nid = cnt["node"]
        tag = "choice" if s[1] else (next(tags) if tags is not None else "sequence")
        return ("N", nid, s[1], [go(k) for k in s[2]], tag)
    return go(shape)


def nleaves(s):
    """Number of leaves of a shape."""
    return 1 if s == "L" else sum(nleaves(k) for k in s[2])


def flatten(t, path=()):
    """[(name, optional, ((id, is_choice), ...))] in document order."""
    if t[0] == "L":
        return [(t[1], t[2], tuple(path))]
    out = []
    for k in t[3]:
        out.extend(flatten(k, tuple(path) + ((t[1], t[2]),)))
    return out


def depth(t):
    return 0 if t[0] == "L" else 1 + max(depth(k) for k in t[3])


def has_choice(t):
    return t[0] == "N" and (t[2] or any(has_choice(k) for k in t[3]))


def c_tree(t):
    if t[0] == "L":
        return "(Leaf %d %s)" % (t[1], cbool(t[2]))
    return "(Node %d %s [%s])" % (t[1], cbool(t[2]), "; ".join(c_tree(k) for k in t[3]))


def c_params(ps):
    return "[" + "; ".join("mkP %d %s [%s]" % (n, cbool(o), "; ".join("(%d,%s)" % (i, cbool(c)) for i, c in anc))
                            for n, o, anc in ps) + "]"


def c_value(v):
    return "None" if v is None else "Some %d" % v


def c_values(vs):
    return "[" + "; ".join(c_value(v) for v in vs) + "]"


def c_kw(kw):
    return "[" + "; ".join("(%d, %s)" % (k, c_value(v)) for k, v in kw) + "]"


def c_log(log):
    return "[" + "; ".join("(%d, %s, %s)" % (n, cbool(i), c_value(v)) for n, i, v in log) + "]"


# ---------------------------------------------------------------------------
# argument vectors (interned: parameter i is named "p<i>", value k is "v<k>")
#   vector = (args, kw): args list of (int|None), kw list of (name id, int|None)
# ---------------------------------------------------------------------------

def core_vectors(n):
    """Every valued subset x every split point between positional and keyword:
    the first k parameters positionally (None when not valued), the valued
    ones among the rest by keyword."""
    out = []
    for mask in range(1 << n):
        val = [(i + 1) if mask >> i & 1 else None for i in range(n)]
        for k in range(n + 1):
            out.append((val[:k], [(i + 1, val[i]) for i in range(k, n) if val[i] is not None]))
    return out


def extra_vectors(n):
    """Surplus positionals, unknown keywords, duplicates, explicit None keywords,
    keyword order reversed - for every valued subset."""
    out = []
    for mask in range(1 << n):
        val = [(i + 1) if mask >> i & 1 else None for i in range(n)]
        kws = [(i + 1, val[i]) for i in range(n) if val[i] is not None]
        out.append((val + [n + 1], []))                                   # one positional too many
        out.append((val + [None, n + 2], []))                             # two too many
        out.append(([], kws + [(UNKNOWN_BASE + 1, 77)]))                  # unknown keyword, last
        out.append(([], [(UNKNOWN_BASE + 1, None)] + kws))                # unknown keyword, first, None
        out.append((val, [(UNKNOWN_BASE + 2, 78), (UNKNOWN_BASE + 1, 77)]))
        out.append((val[:1], [(1, 55)] + kws[1 if val[0] is not None else 0:]))   # duplicate of p1
        out.append((val, [(n, 56)]))                                      # duplicate of the last
        out.append((val + [n + 1], [(1, 55), (UNKNOWN_BASE + 1, 77)]))    # everything at once
        out.append(([], [(i + 1, val[i]) for i in range(n)][::-1]))       # explicit None keywords, reversed
    return out


def consistent_valued(rng, t, p_any=0.25):
    """A random set of valued leaves that mostly respects the choices."""
    if t[0] == "L":
        return {t[1]} if rng.random() < 0.8 else set()
    if t[2] and rng.random() > p_any:
        k = rng.choice(t[3])
        return consistent_valued(rng, k, p_any)
    s = set()
    for k in t[3]:
        s |= consistent_valued(rng, k, p_any)
    return s


def random_vector(rng, t, n):
    valued = consistent_valued(rng, t)
    if rng.random() < 0.1:
        valued = set(i for i in range(1, n + 1) if rng.random() < 0.5)
    val = [i if i in valued else None for i in range(1, n + 1)]
    r = rng.random()
    npos = rng.randint(0, n) if r < 0.8 else (n + rng.randint(1, 2) if r < 0.9 else 0)
    args = val[:npos]
    while len(args) < npos:
        args.append(rng.choice([None, 60 + len(args)]))
    kw = []
    for i in range(1, n + 1):
        if i > npos:
            if val[i - 1] is not None:
                if rng.random() < 0.93:
                    kw.append((i, val[i - 1]))
            elif rng.random() < 0.1:
                kw.append((i, None))
        elif rng.random() < 0.06:
            kw.append((i, rng.choice([None, 50 + i])))
    if rng.random() < 0.12:
        kw.insert(rng.randint(0, len(kw)), (UNKNOWN_BASE + 1, rng.choice([None, 77])))
        if rng.random() < 0.3:
            kw.insert(rng.randint(0, len(kw)), (UNKNOWN_BASE + 2, 78))
    if rng.random() < 0.3:
        rng.shuffle(kw)
    return args, kw


# ---------------------------------------------------------------------------
# names, values, messages
# ---------------------------------------------------------------------------

def pname(i):
    return "u%d" % (i - UNKNOWN_BASE) if i > UNKNOWN_BASE else "p%d" % i


def name_id(s):
    m = re.fullmatch(r"([pu])([0-9]+)", s)
    if not m:
        return 999
    return int(m.group(2)) + (UNKNOWN_BASE if m.group(1) == "u" else 0)


# Argument VALUES are a generated dimension.  A value id is base + KSTEP * kind:
# kind 0 is the truthy string "v<base>"; the other kinds are defined-but-falsy
# Python objects.  The parser may only look at `value is not None`: the model
# and the spec see every one of them as `Some id`.
KSTEP = 400
_ZERO_FLOAT = float(0)
SINGLETON_KINDS = {1: 0, 2: False, 3: "", 4: _ZERO_FLOAT, 9: ()}
FRESH_KINDS = {5: "Decimal(0)", 6: "{}", 7: "empty suds object", 8: "[]"}
ALL_FALSY_KINDS = [1, 2, 3, 4, 5, 6, 7, 8, 9]
CLIENT_FALSY_KINDS = [1, 2, 3, 4, 5, 6, 7]       # a list value is expanded into repeated elements: not used there
_FRESH_OBJECTS = {}


def falsy_id(base, kind):
    """The canonical id of the falsy value of `kind` standing where value `base` stood."""
    return KSTEP * kind if kind in SINGLETON_KINDS else KSTEP * kind + base % KSTEP


def pval(v):
    """Value id -> the Python object handed to suds (the same object for the same id)."""
    if v is None:
        return None
    kind, base = divmod(v, KSTEP)
    if kind == 0:
        return "v%d" % base
    if kind in SINGLETON_KINDS:
        return SINGLETON_KINDS[kind]
    if v not in _FRESH_OBJECTS:
        if kind == 5:
            import decimal
            o = decimal.Decimal(0)
        elif kind == 6:
            o = {}
        elif kind == 7:
            import suds.sudsobject
            o = suds.sudsobject.Object()
        else:
            o = []
        _FRESH_OBJECTS[v] = o
    return _FRESH_OBJECTS[v]


def val_id(x):
    """The object the implementation handed on -> value id (by identity for the
    falsy kinds, by text for the strings); 998 = not a value of this call."""
    if x is None:
        return None
    for kind, o in SINGLETON_KINDS.items():
        if x is o:
            return KSTEP * kind
    for v, o in _FRESH_OBJECTS.items():
        if x is o:
            return v
    if isinstance(x, str):
        m = re.fullmatch(r"v([0-9]+)", x)
        if m and int(m.group(1)) < KSTEP:
            return int(m.group(1))
    return 998


def falsify(vec, choose):
    """Replace defined values of a vector by falsy ones: choose(position, id) -> kind
    (0 keeps the value).  Positions count the defined values, positional first."""
    args, kw = vec
    pos = [0]

    def f(v):
        if v is None:
            return None
        k = choose(pos[0], v)
        pos[0] += 1
        return falsy_id(v, k) if k else v
    return [f(v) for v in args], [(n, f(v)) for n, v in kw]


def value_variants(rng, vec, kinds):
    """The vector itself, all defined values falsy, and (two or more defined
    values) the two alternating patterns: a falsy value in every position,
    next to a truthy one and next to another falsy one."""
    ndef = sum(1 for v in vec[0] if v is not None) + sum(1 for _, v in vec[1] if v is not None)
    out = [vec]
    if ndef == 0:
        return out
    k0 = rng.randrange(len(kinds))
    out.append(falsify(vec, lambda i, v: kinds[(k0 + i) % len(kinds)]))
    if ndef >= 2:
        out.append(falsify(vec, lambda i, v: kinds[(k0 + i) % len(kinds)] if i % 2 == 0 else 0))
        out.append(falsify(vec, lambda i, v: kinds[(k0 + i) % len(kinds)] if i % 2 == 1 else 0))
    return out


def random_falsify(rng, vec, kinds, p=0.4):
    if rng.random() < 0.35:
        return vec
    return falsify(vec, lambda i, v: rng.choice(kinds) if rng.random() < p else 0)


def loose_bind(n, args, kw):
    """Positional-then-keyword binding that ignores surplus/unknown/duplicates
    (used only to decode which value an element of a sent request carries)."""
    d = {}
    for k, v in kw:
        d.setdefault(k, v)
    return [args[i] if i < len(args) else d.get(i + 1) for i in range(n)]


def decode_body(kids, bound):
    """[(element name, text)] -> [(name id, value id)].  A truthy value is read
    from its text; an element standing for a parameter bound to a falsy value
    is decoded as that value whatever its lexical form (0, false, empty...)."""
    out = []
    for nm, tx in kids:
        i = name_id(nm)
        b = bound[i - 1] if 1 <= i <= len(bound) else None
        if b is not None and b >= KSTEP:
            out.append((i, b))
        elif tx in ("", None):
            out.append((i, None))
        else:
            out.append((i, val_id(tx)))
    return out


def expected_positional_text(r, a, g):
    """The text this check expects for a surplus of positional values (counts
    agreeing in number with their nouns, a range only when there is one)."""
    exp = "%d" % r if r == a else "%d to %d" % (r, a)
    plural = "" if (r == a and r == 1) else "s"
    return "takes %s positional argument%s but %d %s given" % (exp, plural, g, "was" if g == 1 else "were")


def classify_message(msg, method="f", name_id=name_id):
    """TypeError text -> Coq `res` term (ROther when it is not one of the four
    loud failures with a coherent rendering)."""
    pre = "%s() " % method
    if not isinstance(msg, str) or not msg.startswith(pre):
        return "ROther"
    m = msg[len(pre):]
    if m == "got multiple values for a single choice parameter":
        return "RChoice"
    mm = re.fullmatch(r"got multiple values for parameter '([^']*)'", m)
    if mm:
        return "(RMultiple %d)" % name_id(mm.group(1))
    mm = re.fullmatch(r"got an unexpected keyword argument '([^']*)'", m)
    if mm:
        return "(RUnexpected %d)" % name_id(mm.group(1))
    mm = re.fullmatch(r"takes ([0-9]+)(?: to ([0-9]+))? positional arguments? but ([0-9]+) (?:was|were) given", m)
    if mm:
        r = int(mm.group(1))
        a = int(mm.group(2)) if mm.group(2) else r
        g = int(mm.group(3))
        if m != expected_positional_text(r, a, g) or max(r, a, g) >= 5000:
            return "ROther"
        return "(RPositional %d %d %d)" % (r, a, g)
    return "ROther"


def py_bind(n, args, kw):
    """Python binding of the harness (independent of suds): tuple of bound
    value ids per parameter, or None when Python itself would refuse the call."""
    if len(args) > n:
        return None
    names = [k for k, _ in kw]
    if any(k > n or k <= len(args) for k in names):
        return None
    d = dict(kw)
    return tuple(args[i] if i < len(args) else d.get(i + 1) for i in range(n))


# ---------------------------------------------------------------------------
# driving suds.argparser.parse_args directly
# ---------------------------------------------------------------------------

class MockAncestor(object):
    def __init__(self, is_choice):
        self._c = is_choice

    def choice(self):
        return self._c


class MockType(object):
    def __init__(self, optional):
        self._o = optional

    def optional(self):
        return self._o


def mock_param_defs(params, short_tuples=False):
    """Parameter definitions for parse_args; one ancestry object per (id,
    is_choice) pair, the same object wherever the id occurs."""
    objs = {}
    defs = []
    for name, opt, anc in params:
        al = []
        for ic in anc:
            if ic not in objs:
                objs[ic] = MockAncestor(ic[1])
            al.append(objs[ic])
        if short_tuples and not al:
            defs.append((pname(name), MockType(opt)))
        else:
            defs.append((pname(name), MockType(opt), al))
    return defs


def drive_parse_args(argparser, defs, args, kw, extra):
    """-> (Coq res term, callback log [(name id, in_choice, value id)], raw)"""
    log = []

    def proc(name, ptype, in_choice, value):
        log.append((name_id(name) if isinstance(name, str) else 999, bool(in_choice), val_id(value)))
    a = [pval(v) for v in args]
    k = dict((pname(n), pval(v)) for n, v in kw)
    try:
        r = argparser.parse_args("f", defs, a, k, proc, extra)
        if (isinstance(r, tuple) and len(r) == 2 and all(isinstance(x, int) and not isinstance(x, bool)
                                                          and 0 <= x < 5000 for x in r)):
            return "(ROk %d %d)" % r, log, ("ok", r)
        return "ROther", log, ("ok", repr(r))
    except TypeError as e:
        return classify_message(str(e)), log, ("TypeError", str(e))
    except Exception as e:   # noqa
        return "ROther", log, (type(e).__name__, str(e))


# ---------------------------------------------------------------------------
# real clients
# ---------------------------------------------------------------------------

def render_xsd(t):
    if t[0] == "L":
        return '<xsd:element name="p%d" type="xsd:string"%s/>' % (t[1], ' minOccurs="0"' if t[2] else "")
    return "<xsd:%s>%s</xsd:%s>" % (t[4], "".join(render_xsd(k) for k in t[3]), t[4])


def wrapper_schema(t, named, wel="Wrapper", tname="WT"):
    body = render_xsd(t)
    if named:
        return ('<xsd:element name="%s" type="tns:%s"/>'
                '<xsd:complexType name="%s">%s</xsd:complexType>' % (wel, tname, tname, body))
    return '<xsd:element name="%s"><xsd:complexType>%s</xsd:complexType></xsd:element>' % (wel, body)


MULTI_WSDL = """<?xml version='1.0' encoding='UTF-8'?>
<wsdl:definitions targetNamespace="my-namespace" xmlns:tns="my-namespace"
 xmlns:soap="http://schemas.xmlsoap.org/wsdl/soap/"
 xmlns:wsdl="http://schemas.xmlsoap.org/wsdl/"
 xmlns:xsd="http://www.w3.org/2001/XMLSchema">
  <wsdl:types>
    <xsd:schema targetNamespace="my-namespace" elementFormDefault="qualified">
%(schema)s
    </xsd:schema>
  </wsdl:types>
%(messages)s
%(porttypes)s
%(bindings)s
  <wsdl:service name="dummy">
%(ports)s
  </wsdl:service>
</wsdl:definitions>
"""


def multiport_wsdl(trees):
    """One service; port<i> -> binding<i> -> portType<i> whose operation f takes Wrapper<i>."""
    schema, messages, porttypes, bindings, ports = [], [], [], [], []
    for i, (t, named) in enumerate(trees, 1):
        schema.append(wrapper_schema(t, named, "Wrapper%d" % i, "WT%d" % i))
        messages.append('<wsdl:message name="fRequest%d"><wsdl:part name="parameters" element="tns:Wrapper%d"/>'
                        '</wsdl:message>' % (i, i))
        porttypes.append('<wsdl:portType name="portType%d"><wsdl:operation name="f">'
                         '<wsdl:input message="tns:fRequest%d"/></wsdl:operation></wsdl:portType>' % (i, i))
        bindings.append('<wsdl:binding name="binding%d" type="tns:portType%d">'
                        '<soap:binding style="document" transport="http://schemas.xmlsoap.org/soap/http"/>'
                        '<wsdl:operation name="f"><soap:operation soapAction="my-soap-action" style="document"/>'
                        '<wsdl:input><soap:body use="literal"/></wsdl:input></wsdl:operation></wsdl:binding>' % (i, i))
        ports.append('<wsdl:port name="port%d" binding="tns:binding%d">'
                     '<soap:address location="http://unused.invalid/svc%d"/></wsdl:port>' % (i, i, i))
    return (MULTI_WSDL % dict(schema="\n".join(schema), messages="\n".join(messages),
                              porttypes="\n".join(porttypes), bindings="\n".join(bindings),
                              ports="\n".join(ports))).encode("utf-8")


def wrap_tree(t, named):
    """The structure as the argument parser sees it through Document.param_defs:
    the wrapper element (when its type is anonymous) and the complex type are
    ancestry items too.  Container ids renumbered in document order."""
    def shift(x, k):
        if x[0] == "L":
            return x
        return ("N", x[1] + k, x[2], [shift(y, k) for y in x[3]], x[4])
    if named:
        return ("N", 1, False, [shift(t, 1)], "complexType")
    return ("N", 1, False, [("N", 2, False, [shift(t, 2)], "complexType")], "element")


RPC_WSDL = """<?xml version='1.0' encoding='UTF-8'?>
<wsdl:definitions targetNamespace="my-namespace" xmlns:tns="my-namespace"
 xmlns:soap="http://schemas.xmlsoap.org/wsdl/soap/"
 xmlns:wsdl="http://schemas.xmlsoap.org/wsdl/"
 xmlns:xsd="http://www.w3.org/2001/XMLSchema">
  <wsdl:types><xsd:schema targetNamespace="my-namespace"/></wsdl:types>
  <wsdl:message name="fRequestMessage">%(parts)s</wsdl:message>
  <wsdl:message name="fResponseMessage"><wsdl:part name="result" type="xsd:string"/></wsdl:message>
  <wsdl:portType name="dummyPortType">
    <wsdl:operation name="f">
      <wsdl:input message="tns:fRequestMessage"/>
      <wsdl:output message="tns:fResponseMessage"/>
    </wsdl:operation>
  </wsdl:portType>
  <wsdl:binding name="dummy" type="tns:dummyPortType">
    <soap:binding style="rpc" transport="http://schemas.xmlsoap.org/soap/http"/>
    <wsdl:operation name="f">
      <soap:operation soapAction="my-soap-action" style="rpc"/>
      <wsdl:input><soap:body use="%(use)s" namespace="my-namespace"%(enc)s/></wsdl:input>
      <wsdl:output><soap:body use="%(use)s" namespace="my-namespace"%(enc)s/></wsdl:output>
    </wsdl:operation>
  </wsdl:binding>
  <wsdl:service name="dummy">
    <wsdl:port name="dummy" binding="tns:dummy">
      <soap:address location="http://unused.invalid/svc"/>
    </wsdl:port>
  </wsdl:service>
</wsdl:definitions>
"""


def rpc_wsdl(n, encoded):
    parts = "".join('<wsdl:part name="p%d" type="xsd:string"/>' % i for i in range(1, n + 1))
    enc = ' encodingStyle="http://schemas.xmlsoap.org/soap/encoding/"' if encoded else ""
    return (RPC_WSDL % dict(parts=parts, use="encoded" if encoded else "literal", enc=enc)).encode("utf-8")


def make_recorder():
    import suds.transport

    class Recorder(suds.transport.Transport):
        """Records every request; answers '202 Accepted' so that the call returns None."""
        def __init__(self):
            suds.transport.Transport.__init__(self)
            self.sent = []

        def open(self, request):
            raise Exception("no document is fetched over the transport in this check")

        def send(self, request):
            self.sent.append(request.message)
            raise suds.transport.TransportError("accepted", 202)
    return Recorder()


def service_of(client, port=None):
    return client.service if port is None else client.service[port]


def call_client(client, recorder, args, kwargs, port=None):
    """-> ('sent', bytes) | ('TypeError', text, n_sent) | ('other', text, n_sent)"""
    n0 = len(recorder.sent)
    try:
        service_of(client, port).f(*args, **kwargs)
    except TypeError as e:
        return ("TypeError", str(e), len(recorder.sent) - n0)
    except Exception as e:   # noqa
        return ("other", "%s: %s" % (type(e).__name__, e), len(recorder.sent) - n0)
    new = recorder.sent[n0:]
    if len(new) != 1:
        return ("other", "call returned but %d requests were sent" % len(new), len(new))
    m = new[0]
    return ("sent", m if isinstance(m, bytes) else str(m).encode("utf-8"))


def body_children(envelope):
    """[(local name, text)] of the children of the first element in the SOAP body (expat)."""
    from . import sudsutil
    root = sudsutil.expat_parse(envelope)
    body = root.find("Body")
    first = body.elements()[0]
    return first, [(c.name, c.own_text() if not c.elements() else None) for c in first.elements()]


def read_param_defs(client, port=None):
    """Document.param_defs of operation f with ancestry objects interned in
    order of first appearance -> [(name id, optional, ((id, choice), ...))]"""
    m = service_of(client, port).f.method
    defs = m.binding.input.param_defs(m)
    ids = {}
    out = []
    for pd in defs:
        anc = pd[2] if len(pd) > 2 and pd[2] else ()
        al = []
        for a in anc:
            if id(a) not in ids:
                ids[id(a)] = len(ids) + 1
            al.append((ids[id(a)], bool(a.choice())))
        out.append((name_id(pd[0]), bool(pd[1].optional()), tuple(al)))
    return out, defs


# ---------------------------------------------------------------------------
# the check
# ---------------------------------------------------------------------------

def structures_for_tier(ck):
    """-> list of (tree, mode) where mode in 'core+extra' | 'core' | 'random:<k>'."""
    rng = ck.rng
    out = []

    def all_marks(shape):
        n = nleaves(shape)
        for mask in range(1 << n):
            yield instantiate(shape, [mask >> i & 1 for i in range(n)])
    thorough = ck.tier == "thorough"
    # <= 2 leaves, nesting <= 3: every shape, every marking (complete in both tiers)
    for n in (1, 2):
        for s in shapes(n, 3):
            for t in all_marks(s):
                out.append((t, "core+extra" if (thorough or n == 1) else "core"))
    s3 = list(shapes(3, 3))
    if thorough:
        for i, s in enumerate(s3):
            for j, t in enumerate(all_marks(s)):
                out.append((t, "core+extra" if (i + j) % 16 == 0 else "core"))
        for s in shapes(4, 3):
            if canonical(s):
                pick = rng.randrange(16)
                for j, t in enumerate(all_marks(s)):
                    out.append((t, "core" if j == pick else "random:3"))
        nrand = {5: 6000, 6: 6000}
    else:
        # 3 leaves: every shape once (seeded marking), part of the vector space each
        for s in s3:
            mask = rng.randrange(8)
            out.append((instantiate(s, [mask >> i & 1 for i in range(3)]), "random:2"))
        nrand = {4: 240, 5: 180, 6: 180}
    for n, cnt in sorted(nrand.items()):
        for _ in range(cnt):
            s = random_shape(rng, n, rng.choice([1, 2, 2, 3, 3]))
            marks = [rng.random() < 0.4 for _ in range(n)]
            out.append((instantiate(s, marks), "random:%d" % (10 if thorough else 6)))
    return out


def alias_ids(rng, t):
    """Sometimes let two NON-sibling containers with the same kind be the very
    same ancestry object (ids are compared by identity; only siblings must
    differ).  Returns a tree (possibly unchanged)."""
    nodes = []

    def walk(x, parent):
        if x[0] == "N":
            nodes.append((x, parent))
            for k in x[3]:
                walk(k, x)
    walk(t, None)
    if len(nodes) < 3:
        return t
    a, pa = rng.choice(nodes)
    cands = [b for b, pb in nodes if b is not a and b[2] == a[2] and pb is not pa and pb is not None and pa is not None]
    if not cands:
        return t
    b = rng.choice(cands)

    def sub(x):
        if x[0] == "L":
            return x
        return ("N", a[1] if x is b else x[1], x[2], [sub(k) for k in x[3]], x[4])
    t2 = sub(t)

    # sibling ids must stay distinct
    def ok(x):
        if x[0] == "L":
            return True
        ids = [k[1] for k in x[3] if k[0] == "N"]
        return len(ids) == len(set(ids)) and all(ok(k) for k in x[3])
    return t2 if ok(t2) else t


def run(ck):
    common.force_repo_path()
    import suds.argparser as argparser
    from . import sudsutil

    ck.trusted = [
        "Coq 8.16.1 kernel + vm_compute (correspondence evaluation); no native_compute",
        "correspondence harness harness/c08.py (structure/vector generators, WSDL rendering, canonical forms, "
        "TypeError text classification with its own rendering of the positional-count message)",
        "modelled, not verified: CPython list/dict semantics (dict keeps insertion order, distinct string keys), "
        "object identity of ancestry items modelled as equality of interned ids",
    ]
    ck.notes = [
        "argument values are opaque: only `is None` matters to the parser (theorem "
        "reject_depends_on_definedness_only); the harness supplies None, truthy strings and defined-but-falsy "
        "objects (0, False, '', 0.0, Decimal(0), {}, empty suds object, [], ()) and presents every defined one to "
        "the model/spec as `Some id`; the marshalling of a bound value is covered by the byte comparison of "
        "envelopes across call styles, not modelled",
        "a keyword explicitly given the value None counts as an argument (duplicate/unknown checks) but not as a "
        "value for a choice branch - suds' documented rule",
        "containers' own minOccurs is ignored by suds when counting required arguments; structures in this check "
        "only mark parameters optional/required (the property's quantifier), never containers",
        "unwrap off: the single dict/object is compared (as XML infoset) with the unwrapped call only for argument "
        "vectors that give every required parameter outside choices a value",
    ]
    import time
    phases = ck.extra.setdefault("phase_s", {})
    t_ph = time.time()
    proof_ok = ck.prove(THEOREMS)
    phases["proof"] = round(time.time() - t_ph, 1)
    t_ph = time.time()

    # ------------------------------------------------------------------
    # 1. parse_args driven directly
    # ------------------------------------------------------------------
    rng = ck.rng
    cases, meta = [], []
    structs = structures_for_tier(ck)
    vec_cache = {}
    parse_disagree = []
    batch_no = [0]

    def flush():
        """Evaluate the accumulated cases in Coq (batches keep memory bounded in
        the thorough tier)."""
        if not cases:
            return
        if batch_no[0] == 0:
            for i in (3, len(cases) // 2, len(cases) - 5):
                if 0 <= i < len(cases):
                    t, args, kw, extra, raw = meta[i]
                    ck.sample({"structure": c_tree(t), "args": [pval(v) for v in args],
                               "kwargs": [(pname(k), pval(v)) for k, v in kw], "extraArgumentErrors": extra,
                               "parse_args": list(raw)})
        res_p = ck.run_cases("parse%d" % batch_no[0], PRE, "pcase", ["(%s)" % c for c in cases],
                             ["parse_agrees", "parse_spec_ok"], shard=400)
        batch_no[0] += 1
        spec_bad = set(res_p["parse_spec_ok"])
        for i in sorted(spec_bad)[:50]:
            t, args, kw, extra, raw = meta[i]
            ck.failing_input(classify_parse_failure(t, args, kw, extra, raw),
                             "parse_args on %s with args=%r kwargs=%r extra_parameter_errors=%r gives %r: not what "
                             "the parameter structure implies" % (c_tree(t), [pval(v) for v in args],
                                                                  [(pname(k), pval(v)) for k, v in kw], extra, raw),
                             {"kind": "parse_args", "tree": t, "args": args, "kw": kw, "extra": extra,
                              "impl": list(raw)})
        for i in res_p["parse_agrees"]:
            if i not in spec_bad and len(parse_disagree) < 5:
                t, args, kw, extra, raw = meta[i]
                parse_disagree.append({"tree": c_tree(t), "args": args, "kw": kw, "extra": extra, "impl": list(raw)})
        del cases[:]
        del meta[:]

    for t, mode in structs:
        n = len(flatten(t))
        if mode.startswith("random") and rng.random() < 0.15:
            t = alias_ids(rng, t)
        params = flatten(t)
        ct, cp = c_tree(t), c_params(params)
        defs = mock_param_defs(params, short_tuples=(rng.random() < 0.5))
        if mode == "core+extra":
            key = ("ce", n)
            if key not in vec_cache:
                vec_cache[key] = core_vectors(n) + extra_vectors(n)
            vectors = vec_cache[key]
        elif mode == "core":
            key = ("c", n)
            if key not in vec_cache:
                vec_cache[key] = core_vectors(n)
            vectors = vec_cache[key]
        else:
            k = int(mode.split(":")[1])
            vectors = [random_vector(rng, t, n) for _ in range(k)]
            if n <= 3:
                pool = vec_cache.setdefault(("ce", n), core_vectors(n) + extra_vectors(n))
                vectors += rng.sample(pool, k)
        dpt, choice = depth(t), has_choice(t)
        # values: every falsy/truthy pattern for <= 2 parameters, a seeded pattern otherwise
        if n <= 2 and not mode.startswith("random"):
            # the falsy/truthy patterns once per definedness pattern (valued subset), at one of its
            # positional/keyword splits - the split adds no new definedness pattern
            ncore = (1 << n) * (n + 1)
            valued = []
            for vi, v in enumerate(vectors):
                mask, k = divmod(vi, n + 1)
                with_variants = (k == mask % (n + 1)) if vi < ncore else (vi % 3 == 0)
                for j, w in enumerate(value_variants(rng, v, ALL_FALSY_KINDS) if with_variants else [v]):
                    valued.append((vi, w, j > 0))
        else:
            valued = [(vi, random_falsify(rng, v, ALL_FALSY_KINDS), False) for vi, v in enumerate(vectors)]
        for vi, (args, kw), variant in valued:
            if len(set(k for k, _ in kw)) != len(kw):
                continue
            for extra in (True, False):
                if not extra and mode.startswith("random") and rng.random() < 0.5:
                    continue
                if not extra and mode == "core" and n >= 3 and vi % 4:
                    continue        # with checking off only counts and callbacks can differ
                if not extra and variant:
                    continue
                if not extra and mode == "core" and n == 2 and vi % 3:
                    continue
                if any(v is not None and v >= KSTEP for v in args) or any(v is not None and v >= KSTEP for _, v in kw):
                    ck.count("parse_args:falsy-value")
                res, log, raw = drive_parse_args(argparser, defs, args, kw, extra)
                cases.append("mkC %s %s (Some %s) %s %s %s %s" % (
                    cbool(extra), cp, ct, c_values(args), c_kw(kw), res, c_log(log)))
                meta.append((t, args, kw, extra, raw))
                ck.seen((ct, tuple(args), tuple(kw), extra), nontrivial=(n >= 2))
                ck.count("parse_args:%s" % res.strip("()").split(" ")[0])
                ck.count("leaves=%d" % n)
                ck.count("depth=%d" % dpt)
                if choice:
                    ck.count("with-choice")
        if len(cases) >= 60000:
            flush()
    flush()

    phases["parse_args"] = round(time.time() - t_ph, 1)
    t_ph = time.time()

    # ------------------------------------------------------------------
    # 2. real document/literal clients
    # ------------------------------------------------------------------
    ccases, cmeta = [], []
    client_structs = client_structures(ck)
    text_bad = []
    serial = [0]

    def exercise(t, named, c1, rec1, c0, rec0, port=None, wel="Wrapper", scen=None, thin=False):
        """Drive operation f (of `port`) of the unwrapping client c1 and of the
        unwrap=False client c0 built over the structure t; every call is judged
        against t - however the clients were obtained (scen describes it)."""
        serial[0] += 1
        si = serial[0]
        n = len(flatten(t))
        where = "" if not scen else " [%s]" % scen["what"]
        base = {"kind": "client", "tree": t, "named": named, "scenario": scen}
        try:
            got_params, _ = read_param_defs(c1, port)
            got0, _ = read_param_defs(c0, port)
        except Exception as e:   # noqa
            ck.failing_input("C08:client-construction", "the operation over the structure %s cannot be inspected%s: %r"
                             % (c_tree(t), where, e), dict(base))
            return
        full = wrap_tree(t, named)
        ct, cp = c_tree(full), c_params(got_params)
        if thin:
            vectors = (core_vectors(n) + rng.sample(extra_vectors(n), min(12, 9 << n))) if n <= 3 else \
                [random_vector(rng, t, n) for _ in range(16)] + rng.sample(core_vectors(n), 12) + \
                rng.sample(extra_vectors(n), 8)
        else:
            vectors = core_vectors(n) + extra_vectors(n) if n <= 3 else \
                [random_vector(rng, t, n) for _ in range(40)] + rng.sample(core_vectors(n), 24) + \
                rng.sample(extra_vectors(n), 16)
        vectors = [v for v in vectors if len(set(k for k, _ in v[1])) == len(v[1])]
        by_binding = {}
        required_outside = [nm for nm, opt, anc in flatten(t) if not opt and not any(c for _, c in anc)]
        # values: every vector with truthy values (checking on; checking off for the all-positional /
        # all-keyword splits and a third of the rest), and - once per definedness pattern, not per
        # split - with a seeded half of the value ids replaced by defined-but-falsy objects (the same
        # id always by the same object, so call styles binding the same values stay comparable)
        kindmap = {rng.randint(1, n): rng.choice(CLIENT_FALSY_KINDS)}

        def kind_for(i, v):
            if v not in kindmap:
                kindmap[v] = rng.choice(CLIENT_FALSY_KINDS) if rng.random() < 0.5 else 0
            return kindmap[v]
        runs = [(True, a_, k_) for a_, k_ in vectors]
        runs += [(False, a_, k_) for j, (a_, k_) in enumerate(vectors)
                 if len(a_) in (0, n) or j % 3 == 0]
        seen_patterns = set()
        for v in vectors:
            pattern = (tuple(x is not None for x in loose_bind(n, v[0], v[1])), len(v[0]) > n,
                       tuple(sorted(k for k, _ in v[1] if k > n or k <= len(v[0]))))
            if pattern in seen_patterns and len(v[0]) not in (0, n):
                continue
            seen_patterns.add(pattern)
            fv = falsify(v, kind_for)
            if fv != (list(v[0]), list(v[1])):
                runs.append((True, fv[0], fv[1]))
        for extra, args, kw in runs:
            c1.set_options(extraArgumentErrors=extra)
            if any(v is not None and v >= KSTEP for v in args) or any(v is not None and v >= KSTEP for _, v in kw):
                ck.count("client:falsy-value")
            a = [pval(v) for v in args]
            k = dict((pname(nm), pval(v)) for nm, v in kw)
            r = call_client(c1, rec1, a, k, port)
            if r[0] == "sent":
                cres = "CSent"
            elif r[0] == "TypeError":
                cres = "(CErr %s)" % classify_message(r[1])
                if classify_message(r[1]) == "ROther":
                    text_bad.append((t, named, args, kw, extra, r))
            else:
                cres = "(CErr ROther)"
                text_bad.append((t, named, args, kw, extra, r))
            if r[0] != "sent" and r[2]:
                ck.failing_input("C08:sent-despite-error",
                                 "the call was refused (%s) but %d request(s) had already gone to the transport%s"
                                 % (r[1], r[2], where), dict(base, args=args, kw=kw, extra=extra))
            body = []
            if r[0] == "sent":
                try:
                    first, kids = body_children(r[1])
                    body = decode_body(kids, loose_bind(n, args, kw))
                    if first.name != wel:
                        body = [(999, None)]
                except Exception:   # noqa
                    body = [(999, None)]
            ccases.append("mkCC %s %s %s %s %s %s %s" % (cbool(extra), ct, cp, c_values(args), c_kw(kw), cres,
                                                         c_kw(body)))
            cmeta.append((t, named, args, kw, extra, r[:2], scen))
            ck.seen(("client", si, ct, tuple(args), tuple(kw), extra), nontrivial=True)
            ck.count("client:%s" % (cres.strip("()").split(" ")[-1] if r[0] != "sent" else "sent")
                     if r[0] != "TypeError" else "client:" + classify_message(r[1]).strip("()").split(" ")[0])
            if scen:
                ck.count("client:" + scen["type"])
            b = py_bind(n, args, kw)
            if r[0] == "sent" and b is not None:
                by_binding.setdefault(b, []).append((args, kw, extra, r[1]))
        # call styles: one envelope per bound-value tuple
        for b, lst in sorted(by_binding.items(), key=repr):
            envs = set(x[3] for x in lst)
            ck.count("client:binding-classes")
            if len(envs) > 1:
                first = lst[0]
                other = next(x for x in lst if x[3] != first[3])
                ck.failing_input("C08:call-style-envelope-differs",
                                 "the same values %r bound positionally/by keyword give different requests: "
                                 "f(*%r, **%r) vs f(*%r, **%r)%s" % (b, first[0], first[1], other[0], other[1], where),
                                 dict(base, args=first[0], kw=first[1], extra=first[2], args2=other[0], kw2=other[1]))
            # unwrap off: one dict / one factory object with the same values
            if all(b[nm - 1] is not None for nm in required_outside):
                vals = dict((pname(i + 1), pval(v)) for i, v in enumerate(b) if v is not None)
                ref = lst[0][3]
                for style in ("dict", "dict-reversed", "object", "keyword-dict"):
                    try:
                        if style == "object":
                            o = c0.factory.create(wel)
                            for kk, vv in vals.items():
                                setattr(o, kk, vv)
                            r0 = call_client(c0, rec0, [o], {}, port)
                        elif style == "dict":
                            r0 = call_client(c0, rec0, [dict(vals)], {}, port)
                        elif style == "dict-reversed":      # key order of the dict must not matter
                            r0 = call_client(c0, rec0, [dict(reversed(list(vals.items())))], {}, port)
                        else:
                            r0 = call_client(c0, rec0, [], {client_param_name(c0, port): dict(vals)}, port)
                    except Exception as e:   # noqa
                        r0 = ("other", repr(e), 0)
                    ck.count("client:unwrap-off-" + style)
                    ck.seen(("unwrap-off", si, ct, b, style), nontrivial=True)
                    same = r0[0] == "sent" and _same_infoset(r0[1], ref)
                    if not same:
                        ck.failing_input("C08:unwrap-off-request-differs",
                                         "with unwrap=False, f(<%s holding %r>) does not send the request that "
                                         "f(**%r) sends with unwrapping on (%s)%s"
                                         % (style, vals, vals, r0[:2] if r0[0] != "sent" else "different XML", where),
                                         dict(base, kind="client-unwrap", values=dict((kk, val_id(vv)) for kk, vv in vals.items()),
                                              style=style))
        # unwrap off: the operation takes exactly one parameter (named after the wrapper element)
        full0 = ("L", 1, False)
        cp0 = c_params([(1 if len(got0) == 1 else p[0], p[1], p[2]) for p in got0])
        wname = client_param_name(c0, port)

        def nid0(s_):
            return 1 if s_ == wname and len(got0) == 1 else name_id(s_)
        arity_calls = (([{}, {}], {}, [1, 2], []),
                       ([{}], {"u1": {}}, [1], [(UNKNOWN_BASE + 1, 3)]),
                       ([{}], {wel: {}}, [1], [(1, 3)]),
                       ([], {}, [], []),
                       ([], {wel: {}}, [], [(1, 3)]))
        for extra in (True, False):
            c0.set_options(extraArgumentErrors=extra)
            for a0, k0, ia, ik in arity_calls:
                r = call_client(c0, rec0, list(a0), dict(k0), port)
                cres = "CSent" if r[0] == "sent" else "(CErr %s)" % (
                    classify_message(r[1], name_id=nid0) if r[0] == "TypeError" else "ROther")
                body = []
                if r[0] == "sent":
                    # exactly one element named after the wrapper goes into the SOAP body; its
                    # content is the caller's object (not compared here)
                    try:
                        root = sudsutil.expat_parse(r[1])
                        els = root.find("Body").elements()
                        given = ia[0] if ia else dict(ik).get(1)
                        body = [(1, given)] if [e.name for e in els] == [wel] and not els[0].elements() \
                            else [(999, None)]
                    except Exception:   # noqa
                        body = [(999, None)]
                ccases.append("mkCC %s %s %s %s %s %s %s" % (cbool(extra), c_tree(full0), cp0, c_values(ia), c_kw(ik),
                                                             cres, c_kw(body)))
                cmeta.append((full0, named, ia, ik, extra, r[:2],
                              dict(scen or {}, unwrap_off_arity=True, wrapper=wel, structure=c_tree(t),
                                   what=("unwrap=False, operation over %s%s" % (c_tree(t), where)))))
                ck.seen(("client0", si, tuple(ia), tuple(ik), extra), nontrivial=False)
                ck.count("client:unwrap-off-arity")
                if r[0] != "sent" and r[2]:
                    ck.failing_input("C08:sent-despite-error", "unwrap=False: refused (%s) after sending%s" % (r[1], where),
                                     dict(base, args=ia, kw=ik, extra=extra))

    # 2a. one WSDL, one port per client (no cache)
    for t, named in client_structs:
        wsdl = sudsutil.doc_wsdl(wrapper_schema(t, named))
        rec1, rec0 = make_recorder(), make_recorder()
        try:
            c1 = sudsutil.client_from_wsdl(wsdl, transport=rec1)
            c0 = sudsutil.client_from_wsdl(wsdl, transport=rec0, unwrap=False)
        except Exception as e:   # noqa
            ck.failing_input("C08:client-construction", "a client for the structure %s cannot be built: %r"
                             % (c_tree(t), e), {"kind": "client", "tree": t, "named": named})
            continue
        exercise(t, named, c1, rec1, c0, rec0)

    # 2b. one service with several ports whose port types define a same-named operation f with
    # DIFFERENT parameter structures; every port is called on ONE client, in both orders, and
    # judged against its own structure
    for trees in multiport_structures(ck, client_structs):
        wsdl = multiport_wsdl(trees)
        for order in (list(range(len(trees))), list(range(len(trees)))[::-1]):
            rec1, rec0 = make_recorder(), make_recorder()
            try:
                c1 = sudsutil.client_from_wsdl(wsdl, transport=rec1)
                c0 = sudsutil.client_from_wsdl(wsdl, transport=rec0, unwrap=False)
            except Exception as e:   # noqa
                ck.failing_input("C08:client-construction", "a client for a %d-port service cannot be built: %r"
                                 % (len(trees), e), {"kind": "client-multiport", "trees": [x[0] for x in trees]})
                break
            for pi in order:
                t, named = trees[pi]
                scen = {"type": "multiport", "trees": [x[0] for x in trees], "nameds": [x[1] for x in trees],
                        "port": pi, "order": order,
                        "what": "port %d of a service with %d ports sharing the operation name f, ports called in "
                                "the order %r" % (pi + 1, len(trees), [o + 1 for o in order])}
                exercise(t, named, c1, rec1, c0, rec0, port="port%d" % (pi + 1), wel="Wrapper%d" % (pi + 1),
                         scen=scen, thin=True)

    # 2c. the WSDL object comes out of an ObjectCache (cachingpolicy=1) filled by a client whose
    # `unwrap` option differs from that of the client under test - both orders
    import shutil
    import tempfile
    import suds.cache
    for t, named in cached_structures(ck, client_structs):
        wsdl = sudsutil.doc_wsdl(wrapper_schema(t, named))
        for first_unwrap in (True, False):
            tmp = tempfile.mkdtemp(prefix="verif-c08-cache-", dir="/var/tmp")
            try:
                recs = {True: make_recorder(), False: make_recorder()}
                cl = {}
                try:
                    for u in (first_unwrap, not first_unwrap):
                        cl[u] = sudsutil.client_from_wsdl(wsdl, transport=recs[u], unwrap=u, cachingpolicy=1,
                                                          cache=suds.cache.ObjectCache(location=tmp, days=1))
                except Exception as e:   # noqa
                    ck.failing_input("C08:client-construction", "a client over a shared object cache cannot be "
                                     "built: %r" % (e,), {"kind": "client", "tree": t, "named": named})
                    continue
                scen = {"type": "cache", "first_unwrap": first_unwrap,
                        "what": "WSDL objects shared through an ObjectCache (cachingpolicy=1) filled by a client "
                                "with unwrap=%r, then used by one with unwrap=%r" % (first_unwrap, not first_unwrap)}
                exercise(t, named, cl[True], recs[True], cl[False], recs[False], scen=scen, thin=True)
            finally:
                shutil.rmtree(tmp, ignore_errors=True)

    if cmeta:
        t, named, args, kw, extra, r, scen = cmeta[len(cmeta) // 3]
        ck.sample({"client structure": c_tree(t), "args": [pval(v) for v in args],
                   "kwargs": [(pname(k), pval(v)) for k, v in kw], "extraArgumentErrors": extra,
                   "observed": [r[0], r[1][:200].decode("utf-8", "replace") if isinstance(r[1], bytes) else r[1]]})
    res_c = ck.run_cases("client", PRE, "ccase", ["(%s)" % c for c in ccases],
                         ["client_agrees", "client_spec_ok"], shard=400)
    cspec_bad = set(res_c["client_spec_ok"])
    for i in sorted(cspec_bad)[:50]:
        t, named, args, kw, extra, r, scen = cmeta[i]
        ck.failing_input(classify_client_failure(t, args, kw, extra, r, scen),
                         "client.service.f(*%r, **%r) on structure %s (extraArgumentErrors=%r) -> %s: not what the "
                         "property prescribes%s" % ([pval(v) for v in args], dict((pname(k), pval(v)) for k, v in kw),
                                                    c_tree(t), extra, (r[0], r[1] if r[0] != "sent" else "request sent"),
                                                    " [%s]" % scen["what"] if scen else ""),
                         {"kind": "client", "tree": t, "named": named, "args": args, "kw": kw, "extra": extra,
                          "scenario": scen})
    client_disagree = [i for i in res_c["client_agrees"] if i not in cspec_bad]

    phases["clients"] = round(time.time() - t_ph, 1)
    t_ph = time.time()

    # ------------------------------------------------------------------
    # 3. rpc bindings (they do not use the argument parser)
    # ------------------------------------------------------------------
    rcases, rmeta = [], []
    rpc_unchecked = []
    for encoded in (False, True):
        for n in (1, 2, 3):
            try:
                rec = make_recorder()
                c = sudsutil.client_from_wsdl(rpc_wsdl(n, encoded), transport=rec)
            except Exception as e:   # noqa
                ck.failing_input("C08:client-construction", "rpc client cannot be built: %r" % (e,),
                                 {"kind": "rpc", "n": n, "encoded": encoded})
                continue
            by_binding = {}
            for extra in (True, False):
                c.set_options(extraArgumentErrors=extra)
                for args, kw in core_vectors(n) + extra_vectors(n):
                    if len(set(k for k, _ in kw)) != len(kw):
                        continue
                    a = [pval(v) for v in args]
                    k = dict((pname(nm), pval(v)) for nm, v in kw)
                    r = call_client(c, rec, a, k)
                    b = py_bind(n, args, kw)
                    ck.seen(("rpc", encoded, n, tuple(args), tuple(kw), extra), nontrivial=True)
                    ck.count("rpc:" + r[0])
                    if r[0] == "sent":
                        try:
                            first, kids = body_children(r[1])
                            obs = [(name_id(nm), val_id(tx) if tx != "" else None) for nm, tx in kids]
                        except Exception:   # noqa
                            obs = [(999, 998)]
                        rcases.append("mkRC %s %s %s %s" % (
                            "[" + "; ".join(str(i) for i in range(1, n + 1)) + "]", c_values(args), c_kw(kw), c_kw(obs)))
                        rmeta.append((encoded, n, args, kw, extra, obs))
                        if b is None and extra:
                            rpc_unchecked.append((encoded, n, args, kw))
                        if b is not None:
                            by_binding.setdefault(b, set()).add(r[1])
                    elif r[0] == "TypeError":
                        if b is not None or not extra:
                            ck.failing_input("C08:rpc-rejects-valid-call",
                                             "rpc binding refuses f(*%r, **%r): %s" % (a, k, r[1]),
                                             {"kind": "rpc", "n": n, "encoded": encoded, "args": args, "kw": kw, "extra": extra})
                        if r[2]:
                            ck.failing_input("C08:sent-despite-error", "rpc: refused (%s) after sending" % r[1],
                                             {"kind": "rpc", "n": n, "encoded": encoded, "args": args, "kw": kw, "extra": extra})
                    else:
                        ck.failing_input("C08:rpc-call-fails", "rpc binding: f(*%r, **%r) fails with %s" % (a, k, r[1]),
                                         {"kind": "rpc", "n": n, "encoded": encoded, "args": args, "kw": kw, "extra": extra})
            for b, envs in by_binding.items():
                if len(envs) > 1:
                    ck.failing_input("C08:call-style-envelope-differs",
                                     "rpc binding: the same bound values %r give different requests" % (b,),
                                     {"kind": "rpc", "n": n, "encoded": encoded, "bound": list(b)})
    if rpc_unchecked:
        encoded, n, args, kw = rpc_unchecked[0]
        ck.failing_input("C08:rpc-no-argument-check",
                         "rpc bindings never run the argument parser: e.g. f(*%r, **%r) on an operation with %d "
                         "part(s) is sent (%d such calls here) instead of raising TypeError"
                         % ([pval(v) for v in args], dict((pname(k), pval(v)) for k, v in kw), n, len(rpc_unchecked)),
                         {"kind": "rpc", "n": n, "encoded": encoded, "args": args, "kw": kw, "extra": True})
    res_r = ck.run_cases("rpc", PRE, "rcase", ["(%s)" % c for c in rcases], ["rpc_agrees"], shard=400) \
        if rcases else {"rpc_agrees": []}
    rpc_disagree = res_r["rpc_agrees"]
    phases["rpc"] = round(time.time() - t_ph, 1)

    ck.rule = (
        "parse_args driven with mock ancestry objects: every structure with <= 2 parameters nested <= 3 deep "
        "(every optional marking) x every valued subset x every positional/keyword split (+ surplus, unknown, "
        "duplicate, explicit-None and reordered keywords) x extra on/off; %s; sometimes two non-sibling containers "
        "are the same object. VALUES: for <= 2 parameters every vector also with all defined values falsy and with "
        "both alternating falsy/truthy patterns (9 falsy kinds), elsewhere a seeded 40%% of the defined values falsy; "
        "real clients repeat every vector (checking on) with a seeded half of the value ids falsy (7 kinds). "
        "Real clients: %d rendered WSDLs (anonymous/named wrapper type, sequence/all/choice) "
        "x the same vector families x extra on/off, unwrap off via dict / factory object / keyword; services "
        "with 2-3 ports whose port types define a same-named operation over DIFFERENT structures (every port "
        "called on one client, both orders, judged against its own structure); clients whose WSDL object comes "
        "out of a shared ObjectCache (cachingpolicy=1) filled by a client with the opposite `unwrap` option "
        "(both orders); rpc literal+"
        "encoded with 1-3 parts. distinct = distinct (structure, args, kwargs, extra); non-trivial = at least two "
        "parameters or a real client"
        % ("3 parameters: all 1466 shapes x all 8 markings x every valued subset x every split (checking on; a "
           "quarter of them also with checking off; surplus/unknown/duplicate vectors on a 1-in-16 slice), "
           "4 parameters: all 2718 shapes without single-container chains x all 16 markings (one marking with the "
           "complete split space, the others seeded vectors), 5-6 parameters: 12000 seeded structures"
           if ck.tier == "thorough" else
           "every 3-parameter shape (1466) once with a seeded marking and vector slice, 600 seeded 4-6 parameter "
           "structures",
           len(client_structs)))
    ck.exhaustive = False
    ck.extra["structures"] = len(structs)
    ck.extra["client_structures"] = len(client_structs)

    if text_bad and not any(v[0] != "unproved" for v in ck.violations):
        t, named, args, kw, extra, r = text_bad[0]
        ck.failing_input("C08:error-text",
                         "a refused call does not fail with one of the four TypeError messages: f(*%r, **%r) -> %r"
                         % ([pval(v) for v in args], dict((pname(k), pval(v)) for k, v in kw), r[:2]),
                         {"kind": "client", "tree": t, "named": named, "args": args, "kw": kw, "extra": extra})

    if not proof_ok:
        ck.unproved("proof obligation of C08 no longer checks: " + ck.proof_log[-1500:],
                    {"theorems": THEOREMS, "log": ck.proof_log[-3000:]})
    if parse_disagree or client_disagree or rpc_disagree:
        ck.unproved("model/implementation correspondence of C08 no longer holds (the implementation meets the "
                    "executable spec on every generated input, but it is no longer the algorithm the theorems "
                    "are about)",
                    {"parse_args": parse_disagree[:5],
                     "client": [repr(cmeta[i]) for i in client_disagree[:5]],
                     "rpc": [repr(rmeta[i]) for i in rpc_disagree[:5]]})


def _same_infoset(a, b):
    from . import sudsutil
    try:
        return sudsutil.expat_parse(a).canon() == sudsutil.expat_parse(b).canon()
    except Exception:   # noqa
        return False


def client_param_name(client, port=None):
    m = service_of(client, port).f.method
    defs = m.binding.input.param_defs(m)
    return defs[0][0] if defs else ""


def client_structures(ck):
    """(tree, named wrapper type?) for the real clients."""
    rng = ck.rng
    out = []

    def tags():
        while True:
            yield rng.choice(["sequence", "sequence", "all"])
    tg = tags()
    fixed = [
        ("N", False, ("L", "L")),
        ("N", True, ("L", "L")),
        ("N", False, ("L", ("N", True, ("L", ("N", False, ("L", "L")))), "L")),
        ("N", True, (("N", False, ("L", "L")), ("N", False, ("L",)), "L")),
        ("N", False, (("N", True, ("L", "L")), ("N", True, ("L", "L")))),
        ("N", True, (("N", True, ("L", "L")), "L")),
        ("N", False, (("N", False, (("N", True, ("L", "L")),)), "L")),
        ("N", False, ("L",)),
        ("N", True, ("L",)),
    ]
    for i, s in enumerate(fixed):
        n = nleaves(s)
        for rep in range(2):
            marks = [rng.random() < 0.4 for _ in range(n)] if rep else [False] * n
            out.append((instantiate(s, marks, tg), bool((i + rep) % 2)))
    pool = [s for n in (2, 3) for s in shapes(n, 3) if s != "L" and canonical(s)]
    k = 60 if ck.tier == "thorough" else 14
    for s in rng.sample(pool, k):
        n = nleaves(s)
        out.append((instantiate(s, [rng.random() < 0.4 for _ in range(n)], tg), rng.random() < 0.5))
    for _ in range(40 if ck.tier == "thorough" else 10):
        n = rng.choice([4, 5, 6])
        s = random_shape(rng, n, rng.choice([1, 2, 3]))
        if s == "L":
            continue
        out.append((instantiate(s, [rng.random() < 0.4 for _ in range(n)], tg), rng.random() < 0.5))
    return out


def multiport_structures(ck, client_structs):
    """Groups of 2-3 DIFFERENT structures (different parameter counts or shapes) served by one service."""
    rng = ck.rng
    pool = [x for x in client_structs if len(flatten(x[0])) <= 4]
    groups = []
    want = 10 if ck.tier == "thorough" else 4
    tries = 0
    while len(groups) < want and tries < 200:
        tries += 1
        g = rng.sample(pool, 3 if len(groups) % 3 == 2 else 2)
        if len(set(c_tree(x[0]) for x in g)) == len(g) and len(set(len(flatten(x[0])) for x in g)) > 1:
            groups.append(g)
    return groups


def cached_structures(ck, client_structs):
    rng = ck.rng
    pool = [x for x in client_structs if 2 <= len(flatten(x[0])) <= 4]
    return rng.sample(pool, min(len(pool), 10 if ck.tier == "thorough" else 3))


def classify_parse_failure(t, args, kw, extra, raw):
    if raw[0] == "ok" and extra:
        return "C08:parse-args-accepts-bad-call"
    if raw[0] == "ok":
        return "C08:parse-args-wrong-counts"
    if not extra:
        return "C08:parse-args-rejects-with-checking-off"
    return "C08:parse-args-wrong-rejection"


def classify_client_failure(t, args, kw, extra, r, scen=None):
    if scen and scen.get("type") == "multiport":
        return "C08:multiport-wrong-operation-structure"
    if scen and scen.get("type") == "cache":
        return "C08:cached-wsdl-wrong-unwrap-mode"
    if r[0] == "sent":
        return "C08:client-accepts-bad-call"
    if not extra:
        return "C08:client-rejects-with-checking-off"
    return "C08:client-wrong-rejection"


def replay(ck, payload):
    common.force_repo_path()
    import suds.argparser as argparser
    from . import sudsutil
    print(payload.get("what"))
    kind = payload.get("kind")

    def tup(t):
        if t[0] == "L":
            return tuple(t)
        return ("N", t[1], t[2], [tup(k) for k in t[3]], t[4])
    if kind == "parse_args":
        t = tup(payload["tree"])
        defs = mock_param_defs(flatten(t))
        kw = [tuple(x) for x in payload["kw"]]
        print("structure:", c_tree(t))
        print("impl now:", drive_parse_args(argparser, defs, payload["args"], kw, payload["extra"]))
    elif kind in ("client", "client-unwrap"):
        import shutil
        import tempfile
        import suds.cache
        t = tup(payload["tree"])
        named = payload.get("named", False)
        scen = payload.get("scenario") or {}
        port, wel, tmp = None, "Wrapper", None
        print("scenario:", scen.get("what", "one client, one port, no cache"))
        if scen.get("unwrap_off_arity"):
            print("structure of the operation:", scen.get("structure"))
        try:
            if scen.get("type") == "multiport":
                trees = [(tup(x), nm) for x, nm in zip(scen["trees"], scen["nameds"])]
                wsdl = multiport_wsdl(trees)
                port, wel = "port%d" % (scen["port"] + 1), "Wrapper%d" % (scen["port"] + 1)
                if not scen.get("unwrap_off_arity"):
                    t, named = trees[scen["port"]]
            else:
                wsdl = sudsutil.doc_wsdl(wrapper_schema(t, named)) if not scen.get("unwrap_off_arity") else None
            if wsdl is None:
                print("(arity call of an unwrap=False client; rebuild the client from the structure above)")
                return 0

            def build(unwrap):
                rec = make_recorder()
                if scen.get("type") == "cache":
                    order = (scen["first_unwrap"], not scen["first_unwrap"])
                    made = {}
                    for u in order:
                        r_ = make_recorder()
                        made[u] = (sudsutil.client_from_wsdl(wsdl, transport=r_, unwrap=u, cachingpolicy=1,
                                                             cache=suds.cache.ObjectCache(location=tmp, days=1)), r_)
                    return made[unwrap]
                return sudsutil.client_from_wsdl(wsdl, transport=rec, unwrap=unwrap), rec
            if scen.get("type") == "cache":
                tmp = tempfile.mkdtemp(prefix="verif-c08-cache-", dir="/var/tmp")
            print("structure:", c_tree(t))
            if kind == "client":
                c, rec = build(True)
                c.set_options(extraArgumentErrors=payload.get("extra", True))
                for a, k in ((payload.get("args"), payload.get("kw")), (payload.get("args2"), payload.get("kw2"))):
                    if a is None:
                        continue
                    a = [pval(v) for v in a]
                    k = dict((pname(n), pval(v)) for n, v in k)
                    print("f(*%r, **%r) ->" % (a, k), call_client(c, rec, a, k, port))
            else:
                c, rec = build(False)
                vals = dict((kk, pval(vv)) for kk, vv in payload["values"].items())
                style = payload.get("style", "dict")
                if style == "object":
                    arg = c.factory.create(wel)
                    for kk, vv in vals.items():
                        setattr(arg, kk, vv)
                elif style == "dict-reversed":
                    arg = dict(reversed(list(vals.items())))
                else:
                    arg = vals
                if style == "keyword-dict":
                    print("unwrap=False f(%s=%r) ->" % (client_param_name(c, port), arg),
                          call_client(c, rec, [], {client_param_name(c, port): arg}, port))
                else:
                    print("unwrap=False f(<%s %r>) ->" % (style, vals), call_client(c, rec, [arg], {}, port))
                c1, rec1 = build(True)
                print("unwrap=True  f(**%r) ->" % (vals,), call_client(c1, rec1, [], vals, port))
        finally:
            if tmp:
                shutil.rmtree(tmp, ignore_errors=True)
    elif kind == "rpc":
        rec = make_recorder()
        c = sudsutil.client_from_wsdl(rpc_wsdl(payload["n"], payload["encoded"]), transport=rec,
                                      extraArgumentErrors=payload.get("extra", True))
        if "args" in payload:
            a = [pval(v) for v in payload["args"]]
            k = dict((pname(n), pval(v)) for n, v in payload["kw"])
            print("f(*%r, **%r) ->" % (a, k), call_client(c, rec, a, k))
    return 0
