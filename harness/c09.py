"""C09 — Every reply is classified by status and content exactly one way.

Proof: coq/C09/Props.v — the model of _SoapClient.process_reply / __get_fault /
send, Method.__call__, _SimClient.invoke and RequestContext equals the table of
the statement (`classify`) for every status integer, every body class, both
options and all delivery paths.  Tie to the code: the status constants are read
from the AST of suds/client.py (tools/tables_c09.py), and the full product named
in the quantifier is executed through real clients and compared in Coq with the
model (`c09_agrees`) and with the table (`c09_spec_ok`).
"""
import io
import itertools
import logging
import os

from . import common
from .common import cZ, cN, cnat, cbool, copt

THEOREMS = [
    "reply_table", "method_call_transparent", "paths_agree", "paths_coincide",
    "transport_reply_counts_as_200", "fault_reported", "fault_never_ordinary",
    "fault_detected_any_shape", "nonfault_never_webfault", "silent_statuses_only",
    "table_accepts_model", "silent_any_content", "other_status_any_content",
    "status500_never_ordinary", "paths_coincide_any_content", "other_status_any_path",
]

PRE = "From SV Require Import Lib.Base Gen.C09Tables C09.Model."

E11 = "http://schemas.xmlsoap.org/soap/envelope/"
E12 = "http://www.w3.org/2003/05/soap-envelope"
TNS = "my-namespace"

STATUSES = [None, 200, 201, 202, 204, 301, 400, 401, 403, 404, 500, 502, 503]
# beyond the sampled statuses of the quantifier (the theorem covers every integer)
EXTRA_STATUSES = [0, -1, 1, 100, 199, 203, 205, 206, 299, 499, 501, 599, 1000, 2 ** 40, -500]
PATHS = ["reply", "error", "error-nofp", "inject", "context"]
INJECT_DESC = "injected reply"


# ---------------------------------------------------------------------------
# WSDLs
# ---------------------------------------------------------------------------

DOC_SCHEMA = """
<xsd:element name="Wrapper"><xsd:complexType><xsd:sequence/></xsd:complexType></xsd:element>
<xsd:element name="fResponse"><xsd:complexType><xsd:sequence>
<xsd:element name="output_i" type="xsd:integer"/>
<xsd:element name="output_s" type="xsd:string"/>
</xsd:sequence></xsd:complexType></xsd:element>"""

RPC_WSDL = ("""<?xml version='1.0' encoding='UTF-8'?>
<wsdl:definitions targetNamespace="%(tns)s" xmlns:tns="%(tns)s"
 xmlns:soap="http://schemas.xmlsoap.org/wsdl/soap/"
 xmlns:wsdl="http://schemas.xmlsoap.org/wsdl/"
 xmlns:xsd="http://www.w3.org/2001/XMLSchema">
  <wsdl:types><xsd:schema targetNamespace="%(tns)s"/></wsdl:types>
  <wsdl:message name="fRequestMessage"/>
  <wsdl:message name="fResponseMessage"><wsdl:part name="result" type="xsd:string"/></wsdl:message>
  <wsdl:portType name="dummyPortType">
    <wsdl:operation name="f">
      <wsdl:input message="tns:fRequestMessage"/>
      <wsdl:output message="tns:fResponseMessage"/>
    </wsdl:operation>
  </wsdl:portType>
  <wsdl:binding name="dummy" type="tns:dummyPortType">
    <soap:binding style="rpc" transport="http://schemas.xmlsoap.org/soap/http"/>
    <wsdl:operation name="f">
      <soap:operation soapAction="my-soap-action" style="rpc"/>
      <wsdl:input><soap:body use="literal" namespace="%(tns)s"/></wsdl:input>
      <wsdl:output><soap:body use="literal" namespace="%(tns)s"/></wsdl:output>
    </wsdl:operation>
  </wsdl:binding>
  <wsdl:service name="dummy">
    <wsdl:port name="dummy" binding="tns:dummy">
      <soap:address location="http://unused.invalid/svc"/>
    </wsdl:port>
  </wsdl:service>
</wsdl:definitions>
""" % dict(tns=TNS)).encode("utf-8")


# ---------------------------------------------------------------------------
# reply bodies, generated from structures (the structure is the expectation)
# ---------------------------------------------------------------------------

def _ser(items, prefix, pretty, depth):
    """items: list of (name, value); value: str | list of items.  prefix: ""
    or "p:" put before every name."""
    out = []
    ind = ("\n" + "  " * depth) if pretty else ""
    for name, val in items:
        if isinstance(val, str):
            out.append("%s<%s%s>%s</%s%s>" % (ind, prefix, name, val, prefix, name))
        else:
            out.append("%s<%s%s>%s%s</%s%s>" % (ind, prefix, name, _ser(val, prefix, pretty, depth + 1),
                                                 ind, prefix, name))
    return "".join(out)


def envelope(ns, body_xml, hdr=False, pretty=False, decl=False, prefix="e"):
    nl = "\n" if pretty else ""
    p = prefix + ":" if prefix else ""
    xmlns = ("xmlns:%s" % prefix) if prefix else "xmlns"
    s = ""
    if decl:
        s += '<?xml version="1.0" encoding="UTF-8"?>' + nl
    s += '<%sEnvelope %s="%s">%s' % (p, xmlns, ns, nl)
    if hdr:
        s += '<%sHeader><h:trace xmlns:h="urn:hdr">t-1</h:trace></%sHeader>%s' % (p, p, nl)
    s += "<%sBody>%s</%sBody>%s</%sEnvelope>%s" % (p, body_xml, p, nl, p, nl)
    return s.encode("utf-8")


def struct_canon(items):
    """Canonical decoded form of a structure: what an object builder keyed by
    local names yields (no repeated names in these structures)."""
    return ("obj", tuple(sorted((n, ("str", v) if isinstance(v, str) else struct_canon(v))
                                for n, v in items)))


class Body(object):
    """One concrete reply body with its class."""

    def __init__(self, label, cls, data, ns=None, detail=False, hdr=False, extra=0,
                 fault=None, value=None, probe_fault=None):
        self.label = label
        self.cls = cls            # empty|normal|fault|nonsoap|malformed|probe
        self.data = data
        self.ns = ns
        self.detail = detail
        self.hdr = hdr
        self.extra = extra
        self.fault = fault        # canonical decoded fault expected (structure)
        self.value = value        # canonical decoded value expected
        self.probe_fault = probe_fault


def fault_bodies():
    bodies = []
    f11 = [("faultcode", "e:Client"), ("faultstring", "Dummy error.")]
    f11b = [("faultcode", "e:Server"), ("faultstring", "It broke €."), ("faultactor", "urn:actor")]
    det = ("detail", [("errorcode", "ultimate"), ("where", [("line", "12")])])
    f12 = [("Code", [("Value", "e:Sender")]), ("Reason", [("Text", "Dummy error.")])]
    f12b = [("Code", [("Value", "e:Receiver"), ("Subcode", [("Value", "m:Timeout")])]),
            ("Reason", [("Text", "Too slow")]), ("Role", "urn:role")]
    det12 = ("Detail", [("errorcode", "ultimate")])

    def mk(label, ns, items, child_prefix, detail, hdr, extra, pretty, decl):
        inner = "<e:Fault>%s%s</e:Fault>" % (_ser(items, child_prefix, pretty, 3), "\n" if pretty else "")
        data = envelope(ns, inner, hdr=hdr, pretty=pretty, decl=decl)
        bodies.append(Body(label, "fault", data, ns=ns, detail=detail, hdr=hdr, extra=extra,
                           fault=struct_canon(items)))
    mk("fault11-a", E11, f11, "", False, False, 0, False, False)
    mk("fault11-b", E11, f11b, "", False, True, 1, True, True)
    mk("fault11-detail-a", E11, f11 + [det], "", True, False, 0, True, True)
    mk("fault11-detail-b", E11, f11b + [det], "", True, True, 1, False, False)
    mk("fault12-a", E12, f12, "e:", False, False, 0, False, True)
    # a 1.2 envelope carrying 1.1-style children, as suds' own tests send it
    mk("fault12-b", E12, f11, "", False, True, 0, True, False)
    mk("fault12-detail-a", E12, f12 + [det12], "e:", True, False, 0, True, True)
    mk("fault12-detail-b", E12, f12b + [det12], "e:", True, True, 1, False, False)
    return bodies


def common_bodies():
    b = [Body("empty", "empty", b"")]
    b += fault_bodies()
    b.append(Body("nonsoap-html", "nonsoap", b"<html><body>502 Bad Gateway</body></html>"))
    # looks like a fault, but nothing is in a SOAP namespace
    b.append(Body("nonsoap-lookalike", "nonsoap",
                  b"<Envelope><Body><Fault><faultcode>x</faultcode><faultstring>y</faultstring>"
                  b"</Fault></Body></Envelope>"))
    trunc = envelope(E11, "<e:Fault><faultcode>e:Client</faultcode><faultstring>cut")
    b.append(Body("malformed-truncated", "malformed", trunc[:trunc.index(b"cut") + 3]))
    b.append(Body("malformed-garbage", "malformed", b"\x00\x01 garbage << \xff"))
    b.append(Body("malformed-mismatch", "malformed", b"<a><b></a>"))
    b.append(Body("malformed-blank", "malformed", b" \n"))
    return b


def probe_bodies():
    """Outside the property's classes: exercised for model/implementation
    agreement only (element truth values in __get_fault)."""
    out = []
    out.append(Body("probe-empty-fault11", "probe", envelope(E11, "<e:Fault/>")))
    out.append(Body("probe-empty-fault12", "probe", envelope(E12, "<e:Fault/>")))
    out.append(Body("probe-attr-fault12", "probe", envelope(E12, '<e:Fault a="1"/>'),
                    probe_fault=("obj", (("_a", ("str", "1")),))))
    out.append(Body("probe-attr-fault11", "probe", envelope(E11, '<e:Fault a="1"/>'),
                    probe_fault=("obj", (("_a", ("str", "1")),))))
    out.append(Body("probe-foreign-fault", "probe",
                    envelope(E11, '<p:Fault xmlns:p="x"><faultcode>c</faultcode><faultstring>s</faultstring></p:Fault>')))
    out.append(Body("probe-empty-envelope", "probe", ('<e:Envelope xmlns:e="%s"/>' % E11).encode()))
    out.append(Body("probe-empty-body", "probe", envelope(E12, "")))
    out.append(Body("probe-mixed-ns", "probe",
                    ('<e:Envelope xmlns:e="%s" xmlns:f="%s"><f:Body><f:Fault><faultcode>c</faultcode>'
                     '<faultstring>s</faultstring></f:Fault></f:Body></e:Envelope>' % (E11, E12)).encode()))
    out.append(Body("probe-fault-text-only", "probe", envelope(E11, "<e:Fault>boom</e:Fault>")))
    return out


def doc_normals():
    v = ("obj", (("output_i", ("int", 7)), ("output_s", ("str", "seven"))))
    inner = '<fResponse xmlns="%s"><output_i>7</output_i><output_s>seven</output_s></fResponse>' % TNS
    inner2 = '<r:fResponse xmlns:r="%s"><r:output_i>7</r:output_i><r:output_s>seven</r:output_s></r:fResponse>' % TNS
    return [Body("normal-11", "normal", envelope(E11, inner), ns=E11, hdr=False, value=v),
            Body("normal-12-hdr", "normal", envelope(E12, inner2, hdr=True, pretty=True, decl=True),
                 ns=E12, hdr=True, value=v)]


def rpc_normals():
    v = ("str", "hello")
    inner = '<r:fResponse xmlns:r="%s"><result>hello</result></r:fResponse>' % TNS
    return [Body("normal-11", "normal", envelope(E11, inner, decl=True), ns=E11, hdr=False, value=v),
            Body("normal-12-hdr", "normal", envelope(E12, inner, hdr=True, pretty=True), ns=E12, hdr=True, value=v)]


# ---------------------------------------------------------------------------
# independent measurement of a body (expat, not suds)
# ---------------------------------------------------------------------------

def node_canon(n):
    kids = n.elements()
    attrs = tuple(sorted(((k[0], k[1]), v) for k, v in n.attrs.items()))
    if kids:
        return (n.ns, n.name, attrs, tuple(node_canon(k) for k in kids))
    return (n.ns, n.name, attrs, n.own_text())


def node_decode(n):
    """Object-builder view of an element, keyed by local names."""
    kids = n.elements()
    keys = [("_" + k[1], ("str", v)) for k, v in n.attrs.items()]
    if not kids and not keys:
        return ("str", n.own_text())
    for k in kids:
        keys.append((k.name, node_decode(k)))
    return ("obj", tuple(sorted(keys)))


def measure(data):
    """('empty',) | ('malformed',) | ('doc', dict)"""
    from . import sudsutil
    import xml.parsers.expat
    if data == b"":
        return ("empty",)
    try:
        root = sudsutil.expat_parse(data)
    except (xml.parsers.expat.ExpatError, IndexError, ValueError):
        return ("malformed",)
    d = dict(env=None, envlen=0, body11=None, body12=None, fault11=None, fault12=None,
             faultobj=None, faultkeys=0, doc=None)
    if root.name == "Envelope" and root.ns in (E11, E12):
        d["env"] = root.ns
        d["envlen"] = len(root.elements())
        for tag, ns in (("11", E11), ("12", E12)):
            body = root.find("Body", ns)
            if body is not None and body.ns == ns:
                d["body" + tag] = len(body.elements())
                fault = body.find("Fault", ns)
                if fault is not None and fault.ns == ns:
                    d["fault" + tag] = len(fault.elements())
                    if ns == root.ns:
                        dec = node_decode(fault)
                        d["faultobj"] = dec
                        d["faultkeys"] = len(dec[1]) if dec[0] == "obj" else 0
                        d["doc"] = ("doc", node_canon(root))
    return ("doc", d)


# ---------------------------------------------------------------------------
# canonical form of what suds returned / raised
# ---------------------------------------------------------------------------

class Intern(object):
    def __init__(self):
        self.ids = {("raw", b""): 0, ("text", INJECT_DESC): 1}

    def __call__(self, kind, x):
        key = (kind, x)
        if key not in self.ids:
            self.ids[key] = len(self.ids)
        return self.ids[key]


def value_canon(v, depth=0):
    from suds.sudsobject import Object
    if depth > 20:
        return ("deep",)
    if v is None:
        return ("none",)
    if isinstance(v, Object):
        return ("obj", tuple(sorted((str(k), value_canon(x, depth + 1)) for k, x in v)))
    if isinstance(v, bool):
        return ("bool", v)
    if isinstance(v, int):
        return ("int", int(v))
    if isinstance(v, str):
        return ("str", str(v))
    if isinstance(v, (list, tuple)):
        return ("list", tuple(value_canon(x, depth + 1) for x in v))
    return ("other", type(v).__name__)


def suds_elem_canon(e):
    attrs = tuple(sorted(((a.namespace()[1] if a.prefix else None, a.name), str(a.getValue()))
                         for a in e.attributes))
    if len(e.children):
        return (e.namespace()[1], e.name, attrs, tuple(suds_elem_canon(c) for c in e.children))
    return (e.namespace()[1], e.name, attrs, str(e.text) if e.text is not None else "")


def suds_doc_canon(doc):
    from suds.sax.document import Document
    if not isinstance(doc, Document) or doc.root() is None:
        return ("not-a-document", type(doc).__name__)
    return ("doc", suds_elem_canon(doc.root()))


class Canon(object):
    def __init__(self, intern):
        self.intern = intern

    def payload(self, v, in_pair):
        import suds
        from suds.sudsobject import Object
        from suds.sax.text import Text
        if v is None:
            return "PNone"
        if isinstance(v, suds.WebFault):
            return "(PExc %s)" % cN(self.intern("val", value_canon(getattr(v, "fault", None))))
        if isinstance(v, bytes):
            return "(PRaw %s)" % cN(self.intern("raw", bytes(v)))
        if type(v) is str and in_pair:
            return "(PText %s)" % cN(self.intern("text", v))
        if type(v) is str:
            # send() substitutes "" for a body-less TransportError; bytes and
            # str are not told apart in the digest (see notes)
            return "(PRaw %s)" % cN(self.intern("raw", v.encode("utf-8")))
        if isinstance(v, (Object, Text, int, list)):
            return "(PObj %s)" % cN(self.intern("val", value_canon(v)))
        return "POther"

    def returned(self, r):
        if isinstance(r, tuple):
            if len(r) == 2 and isinstance(r[0], int) and not isinstance(r[0], bool):
                return "(RetPair %s %s)" % (cZ(int(r[0])), self.payload(r[1], True))
            return "(Ret POther)"
        return "(Ret %s)" % self.payload(r, False)

    def raised(self, e):
        import suds
        import xml.sax
        import xml.parsers.expat
        if isinstance(e, suds.WebFault):
            try:
                f = self.intern("val", value_canon(e.fault))
                d = self.intern("val", suds_doc_canon(e.document))
            except Exception:  # noqa
                return "RaiseOther"
            return "(RaiseWebFault %s %s)" % (cN(f), cN(d))
        if isinstance(e, (xml.sax.SAXException, xml.parsers.expat.ExpatError)):
            return "RaiseParse"
        if type(e) is Exception and len(e.args) == 1 and isinstance(e.args[0], tuple) \
                and len(e.args[0]) == 2 and isinstance(e.args[0][0], int) \
                and not isinstance(e.args[0][0], bool):
            return "(RaiseStatus %s %s)" % (cZ(int(e.args[0][0])), self.payload(e.args[0][1], True))
        return "RaiseOther"


# ---------------------------------------------------------------------------
# real clients over a recording / raising transport
# ---------------------------------------------------------------------------

def make_transport_class():
    import suds.transport

    class RecordingTransport(suds.transport.Transport):
        def __init__(self):
            suds.transport.Transport.__init__(self)
            self.mode = "reply"
            self.status = None
            self.body = b""
            self.reason = "reason"
            self.sent = 0

        def open(self, request):
            raise Exception("no document is fetched over the transport in this check")

        def send(self, request):
            self.sent += 1
            if self.mode == "reply":
                return suds.transport.Reply(self.status, {}, self.body)
            fp = io.BytesIO(self.body) if self.mode == "error" else None
            raise suds.transport.TransportError(self.reason, self.status, fp)
    return RecordingTransport


class Env(object):
    """The clients of one WSDL: one per (faults, retxml, nosend)."""

    def __init__(self, kind, wsdl):
        from . import sudsutil
        self.kind = kind
        T = make_transport_class()
        self.clients = {}
        for f, r, n in itertools.product((True, False), repeat=3):
            t = T()
            c = sudsutil.client_from_wsdl(wsdl, transport=t, faults=f, retxml=r, nosend=n)
            self.clients[(f, r, n)] = (c, t)

    def run(self, canon, path, status, desc, faults, retxml, data, variant=0):
        """Execute one cell; returns the canonical outcome (a Coq term)."""
        nosend = path == "context"
        c, t = self.clients[(faults, retxml, nosend)]
        t.sent = 0
        t.mode, t.status, t.body, t.reason = ("reply", status, data, desc or "")
        expect_sent = 0
        try:
            if path in ("reply", "error", "error-nofp"):
                t.mode = {"reply": "reply", "error": "error", "error-nofp": "error-nofp"}[path]
                expect_sent = 1
                r = c.service.f()
            elif path == "inject":
                inj = {"reply": data}
                if status is not None or variant:
                    inj["status"] = status
                if desc is not None or variant:
                    inj["description"] = desc
                r = c.service.f(__inject=inj)
            else:
                ctx = c.service.f()
                if status is None and desc is None and not variant:
                    r = ctx.process_reply(data)
                elif desc is None and not variant:
                    r = ctx.process_reply(data, status)
                else:
                    r = ctx.process_reply(data, status, desc)
            out = canon.returned(r)
            self.last = "returned %s" % repr(r)[:300]
        except Exception as e:  # noqa — the exception is the observation
            out = canon.raised(e)
            self.last = "raised %s%s" % (type(e).__name__, repr(e.args)[:300])
        if t.sent != expect_sent:
            return "(Ret POther)"
        return out


# ---------------------------------------------------------------------------
# Coq literals
# ---------------------------------------------------------------------------

def c_ns(ns):
    return "Env11" if ns == E11 else "Env12"


def c_value(intern, canon_value):
    if canon_value == ("none",):
        return "PNone"
    return "(PObj %s)" % cN(intern("val", canon_value))


def c_class(intern, b, m):
    """Coq `option body` for a Body (its class as generated)."""
    raw = cN(intern("raw", b.data))
    if b.cls == "empty":
        return "(Some BEmpty)"
    if b.cls == "normal":
        return "(Some (BNormal %s %s %s %s))" % (c_ns(b.ns), cbool(b.hdr), raw, c_value(intern, b.value))
    if b.cls == "fault":
        doc = m[1]["doc"] if m[0] == "doc" and m[1]["doc"] is not None else ("doc", None)
        return "(Some (BFault %s %s %s %s %s %s %s))" % (
            c_ns(b.ns), cbool(b.detail), cbool(b.hdr), cnat(b.extra), raw,
            cN(intern("val", b.fault)), cN(intern("val", doc)))
    if b.cls == "nonsoap":
        return "(Some (BNonSoap %s))" % raw
    if b.cls == "malformed":
        return "(Some (BMalformed %s))" % raw
    return "(@None body)"


def c_shape(intern, b, m):
    raw = cN(intern("raw", b.data))
    if m[0] == "empty":
        return "CEmpty"
    if m[0] == "malformed":
        return "(CMalformed %s)" % raw
    d = m[1]
    on = lambda x: copt(None if x is None else cnat(x), "nat")   # noqa: E731
    env = "(@None envns)" if d["env"] is None else "(Some %s)" % c_ns(d["env"])
    if d["env"] is None:
        return "(CDoc (mkDoc %s (@None envns) 0 None None None None 0 0 0 None))" % raw
    fobj = cN(intern("val", d["faultobj"])) if d["faultobj"] is not None else "0%N"
    doc = cN(intern("val", d["doc"])) if d["doc"] is not None else "0%N"
    value = "(Some %s)" % c_value(intern, b.value) if b.cls == "normal" else "(@None payload)"
    return "(CDoc (mkDoc %s %s %s %s %s %s %s %s %s %s %s))" % (
        raw, env, cnat(d["envlen"]), on(d["body11"]), on(d["body12"]), on(d["fault11"]), on(d["fault12"]),
        fobj, cnat(d["faultkeys"]), doc, value)


def c_path(path):
    return {"reply": "PthReply", "error": "(PthError true)", "error-nofp": "(PthError false)",
            "inject": "PthInject", "context": "PthContext"}[path]


def row_of(status, b, retxml=False):
    """Which sentence of the statement decides the cell (finding classes)."""
    s = 200 if status is None else status
    if s in (202, 204):
        return "accepted-no-content"
    if s in (200, 500) and b.cls == "malformed":
        return "malformed"
    if s in (200, 500) and b.cls == "fault":
        return "fault"
    if s != 200:
        return "http-error"
    if retxml:
        return "raw-reply"
    return {"nonsoap": "non-soap", "normal": "decoded-value", "empty": "empty-reply"}.get(b.cls, b.cls)


# ---------------------------------------------------------------------------
# the check
# ---------------------------------------------------------------------------

def cells(ck, bodies, probes):
    """The full product of the quantifier, then the additions."""
    out = []
    for path in PATHS:
        for status in STATUSES:
            for faults in (True, False):
                for retxml in (True, False):
                    if path == "error-nofp":
                        out.append((path, status, "gone", faults, retxml, None, 0))
                        continue
                    for bi in range(len(bodies)):
                        if path == "reply":
                            descs = [None]
                        elif path == "error":
                            descs = ["reason-x"]
                        else:
                            descs = [None, "kwack"]
                        for desc in descs:
                            out.append((path, status, desc, faults, retxml, bi, 0))
    # statuses outside the sampled set, one body per class, the direct paths
    firsts = {}
    for bi, b in enumerate(bodies):
        firsts.setdefault((b.cls, b.ns if b.cls == "fault" else None, b.detail), bi)
    extra = list(EXTRA_STATUSES)
    if ck.tier == "thorough":
        extra += [s for s in range(100, 600) if s not in STATUSES and s not in extra]
    for status in extra:
        for bi in sorted(firsts.values()):
            for faults in (True, False):
                for retxml in (True, False):
                    out.append(("inject", status, None, faults, retxml, bi, 1))
                    out.append(("context", status, "ctx", faults, retxml, bi, 1))
                    if status in EXTRA_STATUSES:
                        out.append(("error", status, "r2", faults, retxml, bi, 0))
    # explicit None / description given positionally and by key
    for bi in sorted(firsts.values()):
        for faults in (True, False):
            for retxml in (True, False):
                out.append(("inject", None, None, faults, retxml, bi, 1))
                out.append(("context", None, None, faults, retxml, bi, 1))
    # probes outside the classes: fault detection only (retxml, so nothing is decoded)
    for pi in range(len(probes)):
        for status in STATUSES:
            for faults in (True, False):
                for path, desc in (("inject", None), ("context", "d"), ("reply", None), ("error", "r")):
                    out.append((path, status, desc, faults, True, ("probe", pi), 0))
    return out


def build_envs():
    from . import sudsutil
    return [("document", Env("document", sudsutil.doc_wsdl(DOC_SCHEMA, output_element="fResponse")),
             common_bodies()[:1] + doc_normals() + common_bodies()[1:]),
            ("rpc", Env("rpc", RPC_WSDL), common_bodies()[:1] + rpc_normals() + common_bodies()[1:])]


def run(ck):
    common.force_repo_path()
    logging.getLogger("suds").addHandler(logging.NullHandler())
    from tools import tables_c09

    ck.trusted = [
        "Coq 8.16.1 kernel + vm_compute (correspondence evaluation); no native_compute",
        "tools/tables_c09.py: status constants and branch shapes read from the AST of suds/client.py",
        "correspondence harness harness/c09.py (body generator, expat-based measurement, canonical outcomes)",
        "modelled, not verified: the XML parser (a body is well-formed or not, as expat also judges it), "
        "the decoding of a found Fault / reply element (digest compared with an expat-based decoder), "
        "message plugins (none registered), logging",
    ]
    ck.notes = [
        "cells the statement leaves open are fixed as DESIGN.md C09 says: malformed bodies are only looked at "
        "for status 200/500; non-SOAP XML at 200 without retxml must raise (any exception class); empty body "
        "at 200 decodes to None",
        "the reply digest does not tell b'' from the '' that send() substitutes for a TransportError without "
        "(or with an empty) body",
    ]
    common.write_if_changed(os.path.join(common.COQ, "Gen", tables_c09.NAME + ".v"), tables_c09.gen())
    consts = tables_c09.extract(os.path.join(common.REPO, "suds", "client.py"))
    ck.extra["status_constants_from_ast"] = {k: v for k, v in consts.items()}
    proof_ok = ck.prove(THEOREMS)

    intern = Intern()
    canon = Canon(intern)
    defs, cases, meta = [], [], []
    shape_problems = []
    for kind, env, bodies in build_envs():
        probes = probe_bodies()
        names = {}
        for tag, lst in (("b", bodies), ("p", probes)):
            for i, b in enumerate(lst):
                m = measure(b.data)
                if b.cls == "fault" and (m[0] != "doc" or m[1]["faultobj"] != b.fault):
                    shape_problems.append((kind, b.label, "generated fault structure != expat decode"))
                if b.probe_fault is not None and m[0] == "doc" and m[1]["faultobj"] is not None \
                        and m[1]["faultobj"] != b.probe_fault:
                    shape_problems.append((kind, b.label, "probe fault structure != expat decode"))
                nm = "%s_%s%d" % (kind[:3], tag, i)
                defs.append("Definition %s_c : option body := %s." % (nm, c_class(intern, b, m)))
                defs.append("Definition %s_s : content := %s." % (nm, c_shape(intern, b, m)))
                names[(tag, i)] = nm
        for (path, status, desc, faults, retxml, bi, variant) in cells(ck, bodies, probes):
            if bi is None:
                b, cn, sn = Body("absent", "empty", b""), "(Some BEmpty)", "CEmpty"
            elif isinstance(bi, tuple):
                b = probes[bi[1]]
                cn, sn = names[("p", bi[1])] + "_c", names[("p", bi[1])] + "_s"
            else:
                b = bodies[bi]
                cn, sn = names[("b", bi)] + "_c", names[("b", bi)] + "_s"
            out = env.run(canon, path, status, desc, faults, retxml, b.data, variant)
            cdesc = copt(None if desc is None else cN(intern("text", desc)), "N")
            cases.append("(mkCase %s %s %s %s %s %s %s %s)" % (
                c_path(path), copt(None if status is None else cZ(status), "Z"), cdesc,
                cbool(faults), cbool(retxml), cn, sn, out))
            meta.append((kind, path, status, desc, faults, retxml, b, variant, out))
            s = 200 if status is None else status
            ck.seen((kind, path, status, desc, faults, retxml, b.label, variant),
                    nontrivial=s not in (202, 204))
            ck.count("path:" + path)
            ck.count("class:" + b.cls)
            ck.count("outcome:" + out.strip("()").split(" ")[0])
    for i in (3, len(meta) // 2, len(meta) - 5):
        kind, path, status, desc, faults, retxml, b, variant, out = meta[i]
        ck.sample({"wsdl": kind, "path": path, "status": status, "description": desc, "faults": faults,
                   "retxml": retxml, "body": b.label, "outcome": out})
    if shape_problems:
        raise RuntimeError("harness self-check failed: %r" % shape_problems[:3])

    pre = PRE + "\n" + "\n".join(defs)
    res = ck.run_cases("cells", pre, "ccase", cases, ["c09_shape_ok", "c09_agrees", "c09_spec_ok"], shard=500)
    if res["c09_shape_ok"]:
        i = res["c09_shape_ok"][0]
        raise RuntimeError("harness self-check failed: body %s (%s) does not have the shape of its class"
                           % (meta[i][6].label, meta[i][0]))
    spec_bad = res["c09_spec_ok"]
    for i in spec_bad:
        kind, path, status, desc, faults, retxml, b, variant, out = meta[i]
        row = row_of(status if path != "reply" else None, b, retxml)
        ck.failing_input(
            "C09:%s:%s" % (row, path),
            "reply with status %r, %s body, faults=%r, retxml=%r delivered by %s (%s binding) ends as %s, "
            "not as the table row '%s' says" % (status, b.label, faults, retxml, path, kind, out, row),
            {"wsdl": kind, "path": path, "status": status, "description": desc, "faults": faults,
             "retxml": retxml, "body_label": b.label, "body": b.data.decode("latin-1"), "variant": variant,
             "observed": out, "row": row})
    ck.extra["cells_executed"] = len(meta)
    ck.rule = ("the full product statuses {None,200,201,202,204,301,400,401,403,404,500,502,503} x %d concrete "
               "bodies (empty; normal 1.1/1.2; Fault 1.1/1.2 with/without detail, two each; non-SOAP x2; malformed "
               "x4) x faults x retxml x {transport reply, TransportError with body, TransportError without body, "
               "__inject, RequestContext.process_reply} x descriptions, for a document/literal and an rpc/literal "
               "client, enumerated completely in both tiers; plus %s statuses outside the sampled set and %d bodies "
               "outside the classes (model agreement only). distinct = distinct cell; non-trivial = status not "
               "202/204" % (len(common_bodies()) + 2,
                            "every 100..599 and %d more" % len(EXTRA_STATUSES) if ck.tier == "thorough"
                            else "%d" % len(EXTRA_STATUSES), len(probe_bodies())))
    ck.exhaustive = True

    if not proof_ok:
        ck.unproved("proof obligation of C09 no longer checks (status constants read from client.py: %r): %s"
                    % (consts, ck.proof_log[-1500:]),
                    {"theorems": THEOREMS, "constants": consts, "log": ck.proof_log[-3000:]})
    disagree = [i for i in res["c09_agrees"] if i not in set(spec_bad)]
    if disagree:
        ex = []
        for i in disagree[:5]:
            kind, path, status, desc, faults, retxml, b, variant, out = meta[i]
            ex.append({"wsdl": kind, "path": path, "status": status, "description": desc, "faults": faults,
                       "retxml": retxml, "body_label": b.label, "body": b.data.decode("latin-1"),
                       "variant": variant, "observed": out})
        ck.unproved("model/implementation correspondence of C09 no longer holds on %d cells (the implementation "
                    "still meets the table there, but it is no longer the algorithm the theorems are about)"
                    % len(disagree), {"correspondence": "c09_agrees", "disagreements": ex})


def replay(ck, payload):
    common.force_repo_path()
    logging.getLogger("suds").addHandler(logging.NullHandler())
    print(payload.get("what"))
    cellsrc = payload if "path" in payload else (payload.get("disagreements") or [None])[0]
    if not cellsrc:
        print("nothing to replay in this file")
        return 0
    from . import sudsutil
    wsdl = RPC_WSDL if cellsrc["wsdl"] == "rpc" else sudsutil.doc_wsdl(DOC_SCHEMA, output_element="fResponse")
    env = Env(cellsrc["wsdl"], wsdl)
    canon = Canon(Intern())
    out = env.run(canon, cellsrc["path"], cellsrc["status"], cellsrc["description"], cellsrc["faults"],
                  cellsrc["retxml"], cellsrc["body"].encode("latin-1"), cellsrc.get("variant", 0))
    print("cell: %s" % {k: cellsrc[k] for k in ("wsdl", "path", "status", "description", "faults", "retxml",
                                                 "body_label")})
    print("was:  %s" % cellsrc.get("observed"))
    print("now:  %s   (digests are run-local)" % out)
    print("      %s" % getattr(env, "last", ""))
    return 0
